//! Shared helpers of the verification harness.
//!
//! Every binary under `src/bin` reads one JSON case per line from `argv[1]` and writes one JSON
//! result per line to `argv[2]`; panics are caught per case and reported as `{"panic": msg}`.

use std::cell::RefCell;
use std::fs::File;
use std::io::BufRead;
use std::io::BufReader;
use std::io::BufWriter;
use std::io::Write;
use std::panic::AssertUnwindSafe;
use std::panic::catch_unwind;

use serde_json::Value as J;
use serde_json::json;
use starlark::environment::Globals;
use starlark::environment::GlobalsBuilder;
use starlark::environment::Module;
use starlark::eval::Evaluator;
use starlark::starlark_module;
use starlark::syntax::AstModule;
use starlark::syntax::Dialect;
use starlark::values::Value;
use starlark::values::none::NoneType;

/// Drive `f` over the cases file.
pub fn run_cases(mut f: impl FnMut(&J) -> J) {
    let args: Vec<String> = std::env::args().collect();
    if args.len() < 3 {
        eprintln!("usage: {} <cases.jsonl> <out.jsonl>", args[0]);
        std::process::exit(2);
    }
    std::panic::set_hook(Box::new(|_| {}));
    let input = BufReader::new(File::open(&args[1]).expect("open cases"));
    let mut out = BufWriter::new(File::create(&args[2]).expect("create out"));
    for line in input.lines() {
        let line = line.expect("read line");
        if line.trim().is_empty() {
            continue;
        }
        let case: J = serde_json::from_str(&line).expect("case json");
        let r = match catch_unwind(AssertUnwindSafe(|| f(&case))) {
            Ok(v) => v,
            Err(e) => {
                let msg = if let Some(s) = e.downcast_ref::<String>() {
                    s.clone()
                } else if let Some(s) = e.downcast_ref::<&str>() {
                    s.to_string()
                } else {
                    "?".to_owned()
                };
                json!({"panic": msg})
            }
        };
        writeln!(out, "{}", serde_json::to_string(&r).unwrap()).unwrap();
    }
    out.flush().unwrap();
}

thread_local! {
    /// Transcript of `emit(...)` calls and prints of the running program.
    pub static TRANSCRIPT: RefCell<Vec<String>> = const { RefCell::new(Vec::new()) };
}

/// Structural, address-free, sharing-insensitive encoding of a value:
/// `None` `True` `False` `i<decimal>` `f<repr>` JSON string literal `[a,b]` `(a,b)` `{k:v,k:v}` `set(a,b)`,
/// anything else `<type:repr>`; `...` below depth 24 (cycles).
pub fn enc(v: Value) -> String {
    let mut s = String::new();
    enc_into(v, 0, &mut s);
    s
}

fn enc_into(v: Value, depth: usize, out: &mut String) {
    use starlark::values::dict::DictRef;
    use starlark::values::list::ListRef;
    use starlark::values::tuple::TupleRef;
    if depth > 24 {
        out.push_str("...");
        return;
    }
    if v.is_none() {
        out.push_str("None");
    } else if let Some(b) = v.unpack_bool() {
        out.push_str(if b { "True" } else { "False" });
    } else if starlark::verif_hooks::int_repr(v).is_some() {
        out.push('i');
        out.push_str(&v.to_str());
    } else if let Some(s) = v.unpack_str() {
        out.push_str(&serde_json::to_string(s).unwrap());
    } else if let Some(l) = ListRef::from_value(v) {
        out.push('[');
        for (i, x) in l.iter().enumerate() {
            if i > 0 {
                out.push(',');
            }
            enc_into(x, depth + 1, out);
        }
        out.push(']');
    } else if let Some(t) = TupleRef::from_value(v) {
        out.push('(');
        for (i, x) in t.iter().enumerate() {
            if i > 0 {
                out.push(',');
            }
            enc_into(x, depth + 1, out);
        }
        out.push(')');
    } else if let Some(d) = DictRef::from_value(v) {
        out.push('{');
        for (i, (k, x)) in d.iter().enumerate() {
            if i > 0 {
                out.push(',');
            }
            enc_into(k, depth + 1, out);
            out.push(':');
            enc_into(x, depth + 1, out);
        }
        out.push('}');
    } else if v.get_type() == "float" {
        out.push('f');
        out.push_str(&v.to_repr());
    } else {
        out.push('<');
        out.push_str(v.get_type());
        out.push(':');
        out.push_str(&v.to_repr());
        out.push('>');
    }
}

/// Canonical, address-free encoding of a value: `type:repr`.
pub fn canon(v: Value) -> String {
    format!("{}:{}", v.get_type(), v.to_repr())
}

#[starlark_module]
pub fn harness_globals(builder: &mut GlobalsBuilder) {
    /// Record a value in the transcript.
    fn emit<'v>(#[starlark(require = pos)] x: Value<'v>) -> anyhow::Result<NoneType> {
        let s = enc(x);
        TRANSCRIPT.with(|t| t.borrow_mut().push(s));
        Ok(NoneType)
    }

    /// Identity function the optimiser cannot see through.
    fn opaque<'v>(#[starlark(require = pos)] x: Value<'v>) -> anyhow::Result<Value<'v>> {
        Ok(x)
    }

    /// Representation of an integer: "small" / "big" / None.
    fn int_repr<'v>(#[starlark(require = pos)] x: Value<'v>) -> anyhow::Result<String> {
        Ok(starlark::verif_hooks::int_repr(x).unwrap_or("none").to_owned())
    }
}

pub fn globals() -> Globals {
    use starlark::environment::LibraryExtension::*;
    let mut b = GlobalsBuilder::extended_by(&[
        StructType, RecordType, EnumType, NamespaceType, Map, Filter, Partial, Debug, Print, Pprint,
        Pstr, Prepr, Json, Typing, Internal, CallStack, SetType,
    ]);
    harness_globals(&mut b);
    b.build()
}

/// Natives that exercise the public host APIs whose state must survive collections (C03): the heap's string
/// interner (`Heap::alloc_str_intern`), the module's `extra_value`, pointer identity.  NOT part of `globals()`:
/// only programs run with `globals_with_host_api()` see them.
#[starlark_module]
pub fn host_api_globals(builder: &mut GlobalsBuilder) {
    /// `Heap::alloc_str_intern(s)`: the interned string value for this text.
    fn intern<'v>(
        #[starlark(require = pos)] s: &str,
        heap: starlark::values::Heap<'v>,
    ) -> anyhow::Result<starlark::values::StringValue<'v>> {
        Ok(heap.alloc_str_intern(s))
    }

    /// `Value::ptr_eq`: are the two values the very same object?
    fn same<'v>(
        #[starlark(require = pos)] a: Value<'v>,
        #[starlark(require = pos)] b: Value<'v>,
    ) -> anyhow::Result<bool> {
        Ok(a.ptr_eq(b))
    }

    /// `Module::set_extra_value(v)` on the module being evaluated.
    fn set_extra<'v>(
        #[starlark(require = pos)] v: Value<'v>,
        eval: &mut Evaluator<'v, '_, '_>,
    ) -> anyhow::Result<NoneType> {
        eval.module().set_extra_value(v);
        Ok(NoneType)
    }

    /// `Module::extra_value()` of the module being evaluated (None when unset).
    fn get_extra<'v>(eval: &mut Evaluator<'v, '_, '_>) -> anyhow::Result<Value<'v>> {
        Ok(eval.module().extra_value().unwrap_or_else(Value::new_none))
    }
}

/// `globals()` plus the host-API natives `intern`, `same`, `set_extra`, `get_extra`.
pub fn globals_with_host_api() -> Globals {
    use starlark::environment::LibraryExtension::*;
    let mut b = GlobalsBuilder::extended_by(&[
        StructType, RecordType, EnumType, NamespaceType, Map, Filter, Partial, Debug, Print, Pprint,
        Pstr, Prepr, Json, Typing, Internal, CallStack, SetType,
    ]);
    harness_globals(&mut b);
    host_api_globals(&mut b);
    b.build()
}

pub fn dialect() -> Dialect {
    Dialect::AllOptionsInternal
}

/// Short classification of an error: kind name and the first line of the message without location.
pub fn err_json(e: &starlark::Error) -> J {
    let kind = match e.kind() {
        starlark::ErrorKind::Fail(_) => "Fail",
        starlark::ErrorKind::StackOverflow(_) => "StackOverflow",
        starlark::ErrorKind::Value(_) => "Value",
        starlark::ErrorKind::Function(_) => "Function",
        starlark::ErrorKind::Scope(_) => "Scope",
        starlark::ErrorKind::Parser(_) => "Parser",
        starlark::ErrorKind::Internal(_) => "Internal",
        starlark::ErrorKind::Native(_) => "Native",
        starlark::ErrorKind::Other(_) => "Other",
        _ => "Unknown",
    };
    let msg = format!("{}", e.without_diagnostic());
    let span = e.span().map(|s| {
        let r = s.resolve_span();
        json!({"file": s.filename(), "bl": r.begin.line, "bc": r.begin.column, "el": r.end.line, "ec": r.end.column})
    });
    json!({"kind": kind, "msg": msg, "span": span})
}

/// Evaluate `src` in a fresh module; `pre` is called with the module before evaluation
/// (to set host variables) and `post` after a successful evaluation.
pub fn eval_with<R>(
    src: &str,
    pre: impl for<'v> FnOnce(&Module<'v>),
    post: impl for<'v> FnOnce(&Module<'v>, Result<Value<'v>, starlark::Error>) -> R,
) -> R {
    TRANSCRIPT.with(|t| t.borrow_mut().clear());
    let g = globals();
    Module::with_temp_heap(|module| {
        pre(&module);
        let res = match AstModule::parse("case.star", src.to_owned(), &dialect()) {
            Err(e) => Err(e),
            Ok(ast) => {
                let mut eval = Evaluator::new(&module);
                eval.eval_module(ast, &g)
            }
        };
        post(&module, res)
    })
}

pub fn take_transcript() -> Vec<String> {
    TRANSCRIPT.with(|t| std::mem::take(&mut *t.borrow_mut()))
}
