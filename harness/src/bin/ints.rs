//! C10: integer operations through the real evaluator, folded (literals) and at run time
//! (host-set variables passed through a def), plus host fixed-width conversions.

use std::str::FromStr;

use num_bigint::BigInt;
use serde_json::Value as J;
use serde_json::json;
use starlark::values::UnpackValue;
use starlark::values::Value;
use sv_harness::err_json;
use sv_harness::eval_with;
use sv_harness::run_cases;

fn classify(msg: &str) -> String {
    for (pat, code) in [
        ("Floor division by zero", "divzero"),
        ("Modulo by zero", "modzero"),
        ("Negative left shift", "shlneg"),
        ("Integer overflow computing left shift", "shlovf"),
        ("Negative right shift", "shrneg"),
        ("Cannot parse", "parse"),
        ("not a valid base", "base"),
        ("not a valid number in base", "parse"),
    ] {
        if msg.contains(pat) {
            return code.to_owned();
        }
    }
    format!("other:{}", msg.lines().next().unwrap_or(""))
}

fn show(v: Value) -> J {
    match starlark::verif_hooks::int_repr(v) {
        Some(r) => json!({"ok": v.to_str(), "repr": r}),
        None => json!({"ok": v.to_repr(), "repr": v.get_type()}),
    }
}

fn result_of(module_res: Result<Option<J>, starlark::Error>) -> J {
    match module_res {
        Ok(Some(j)) => j,
        Ok(None) => json!({"err": "other:no R"}),
        Err(e) => {
            let ej = err_json(&e);
            json!({"err": classify(ej["msg"].as_str().unwrap_or("")), "kind": ej["kind"]})
        }
    }
}

fn run_src(src: &str, a: Option<&str>, b: Option<&str>) -> J {
    let a = a.map(|s| BigInt::from_str(s).unwrap());
    let b = b.map(|s| BigInt::from_str(s).unwrap());
    eval_with(
        src,
        |m| {
            if let Some(a) = a {
                m.set("a", m.heap().alloc(a));
            }
            if let Some(b) = b {
                m.set("b", m.heap().alloc(b));
            }
        },
        |m, res| result_of(res.map(|_| m.get("R").map(show))),
    )
}

fn lit(s: &str) -> String {
    format!("({})", s)
}

fn main() {
    run_cases(|c| {
        let op = c["op"].as_str().unwrap();
        let a = c["a"].as_str();
        let b = c["b"].as_str();
        match op {
            "+" | "-" | "*" | "//" | "%" | "&" | "|" | "^" | "<<" | ">>" | "==" | "!=" | "<"
            | "<=" | ">" | ">=" => {
                let (a, b) = (a.unwrap(), b.unwrap());
                let fold = run_src(&format!("R = {} {} {}\n", lit(a), op, lit(b)), None, None);
                let run = run_src(
                    &format!("def f(x, y):\n    return x {} y\nR = f(a, b)\n", op),
                    Some(a),
                    Some(b),
                );
                // augmented assignment path inside a def
                let aug = if ["==", "!=", "<", "<=", ">", ">="].contains(&op) {
                    J::Null
                } else {
                    run_src(
                        &format!("def f(x, y):\n    x {}= y\n    return x\nR = f(a, b)\n", op),
                        Some(a),
                        Some(b),
                    )
                };
                json!({"fold": fold, "run": run, "aug": aug})
            }
            "neg" | "inv" | "pos" | "abs" | "str" | "repr" | "bool" | "hash" => {
                let a = a.unwrap();
                let e = |x: &str| match op {
                    "neg" => format!("-{}", x),
                    "inv" => format!("~{}", x),
                    "pos" => format!("+{}", x),
                    "abs" => format!("abs({})", x),
                    "str" => format!("int(str({}))", x),
                    "repr" => format!("int(repr({}))", x),
                    "bool" => format!("bool({})", x),
                    "hash" => format!("hash(str({}))", x),
                    _ => unreachable!(),
                };
                let fold = run_src(&format!("R = {}\n", e(&lit(a))), None, None);
                let run = run_src(
                    &format!("def f(x):\n    return {}\nR = f(a)\n", e("x")),
                    Some(a),
                    None,
                );
                json!({"fold": fold, "run": run})
            }
            "tostr" => {
                // decimal / %d %x %X %o rendering of a
                let a = a.unwrap();
                let f = c["fmt"].as_str().unwrap();
                let e = |x: &str| match f {
                    "str" => format!("str({})", x),
                    "repr" => format!("repr({})", x),
                    "format" => format!("'{{}}'.format({})", x),
                    _ => format!("'%{}' % ({},)", f, x),
                };
                let fold = run_src(&format!("R = {}\n", e(&lit(a))), None, None);
                let run = run_src(
                    &format!("def f(x):\n    return {}\nR = f(a)\n", e("x")),
                    Some(a),
                    None,
                );
                json!({"fold": fold, "run": run})
            }
            "parse" => {
                // int(s) / int(s, base) and the lexer's literal syntax
                let s = c["s"].as_str().unwrap();
                let src = match c["base"].as_i64() {
                    Some(base) => format!("R = int({:?}, {})\n", s, base),
                    None => format!("R = int({:?})\n", s),
                };
                let run = run_src(&src, None, None);
                let lit = if c["literal"].as_bool().unwrap_or(false) {
                    run_src(&format!("R = {}\n", s), None, None)
                } else {
                    J::Null
                };
                json!({"run": run, "lit": lit})
            }
            "f2i" => {
                // int(float): the float is given by its IEEE-754 bits (hex)
                let bits = u64::from_str_radix(c["bits"].as_str().unwrap(), 16).unwrap();
                let f = f64::from_bits(bits);
                let run = eval_with(
                    "def f(x):\n    return int(x)\nR = f(a)\n",
                    |m| m.set("a", m.heap().alloc(f)),
                    |m, res| result_of(res.map(|_| m.get("R").map(show))),
                );
                let fold = if f.is_finite() {
                    run_src(&format!("R = int({:?})\n", f), None, None)
                } else {
                    J::Null
                };
                json!({"run": run, "fold": fold})
            }
            "i2f" => {
                // float(int): report the bits of the result
                let a = BigInt::from_str(a.unwrap()).unwrap();
                let showf = |v: Value| {
                    match starlark::values::float::StarlarkFloat::unpack_value(v) {
                        Ok(Some(f)) if v.get_type() == "float" => {
                            json!({"bits": format!("{:016x}", f.0.to_bits())})
                        }
                        _ => json!({"err": format!("not a float: {}", v.to_repr())}),
                    }
                };
                let run = eval_with(
                    "def f(x):\n    return float(x)\nR = f(a)\n",
                    |m| m.set("a", m.heap().alloc(a.clone())),
                    |m, res| match res.map(|_| m.get("R").map(showf)) {
                        Ok(Some(j)) => j,
                        Ok(None) => json!({"err": "no R"}),
                        Err(e) => json!({"err": err_json(&e)["msg"]}),
                    },
                );
                let fold = eval_with(
                    &format!("R = float({})\n", lit(&a.to_string())),
                    |_| {},
                    |m, res| match res.map(|_| m.get("R").map(showf)) {
                        Ok(Some(j)) => j,
                        Ok(None) => json!({"err": "no R"}),
                        Err(e) => json!({"err": err_json(&e)["msg"]}),
                    },
                );
                json!({"run": run, "fold": fold})
            }
            "host" => {
                // conversions to the host's fixed-width types and back
                let a = BigInt::from_str(a.unwrap()).unwrap();
                eval_with(
                    "",
                    |_| {},
                    |m, _| {
                        let v = m.heap().alloc(a.clone());
                        let back = show(v);
                        fn up<'v, T: UnpackValue<'v> + ToString>(v: Value<'v>) -> J {
                            match T::unpack_value(v) {
                                Ok(Some(x)) => J::String(x.to_string()),
                                Ok(None) => J::Null,
                                Err(_) => J::String("error".to_owned()),
                            }
                        }
                        let mut r = json!({
                            "back": back,
                            "i32": up::<i32>(v), "u32": up::<u32>(v), "i64": up::<i64>(v),
                            "u64": up::<u64>(v), "usize": up::<usize>(v), "isize": up::<isize>(v),
                            "bigint": up::<BigInt>(v),
                        });
                        // allocation from fixed-width host values
                        use num_traits_shim::*;
                        if let Some(x) = to_i64(&a) {
                            r["from_i64"] = show(m.heap().alloc(x));
                        }
                        if let Some(x) = to_u64(&a) {
                            r["from_u64"] = show(m.heap().alloc(x));
                            r["from_usize"] = show(m.heap().alloc(x as usize));
                        }
                        if let Some(x) = to_i64(&a).and_then(|x| i32::try_from(x).ok()) {
                            r["from_i32"] = show(m.heap().alloc(x));
                        }
                        if let Some(x) = to_u64(&a).and_then(|x| u32::try_from(x).ok()) {
                            r["from_u32"] = show(m.heap().alloc(x));
                        }
                        r
                    },
                )
            }
            _ => json!({"err": "unknown op"}),
        }
    });
}

mod num_traits_shim {
    use std::str::FromStr;

    use num_bigint::BigInt;

    pub fn to_i64(a: &BigInt) -> Option<i64> {
        i64::from_str(&a.to_string()).ok()
    }
    pub fn to_u64(a: &BigInt) -> Option<u64> {
        u64::from_str(&a.to_string()).ok()
    }
}
