//! C05: lexing + parsing observations on the real code.
//!
//! case   : {"src": "<text>"} or {"hex": "<raw bytes>"} (strict UTF-8 first, lossy otherwise),
//!          "d": ["<8 flag chars><types digit>", ...]   dialect codes (see `dialect_of`)
//!          "lex": bool (emit the token stream of the real `Lexer`), "tree": bool (emit the Debug tree)
//! result : {"len", "lossy", "lex": {"t": "<Kind l r payload;...>", "e": [kind, l, r, msg] | null},
//!           "bad": ["<code>|<detail>", ...]   span facts that contradict the property,
//!           "p": [{"d", "ok", "h" tree digest, "n" nodes} | {"d", "ok": false, "msg", "b", "e"}]}
//! A watchdog thread turns a case that runs longer than SV_CASE_TIMEOUT_MS into exit status 3.

use std::collections::hash_map::DefaultHasher;
use std::hash::Hash;
use std::hash::Hasher;
use std::sync::atomic::AtomicU64;
use std::sync::atomic::Ordering;
use std::time::Duration;
use std::time::SystemTime;
use std::time::UNIX_EPOCH;

use serde_json::Value as J;
use serde_json::json;
use starlark_syntax::codemap::CodeMap;
use starlark_syntax::codemap::Span;
use starlark_syntax::lexer::Lexer;
use starlark_syntax::lexer::Token;
use starlark_syntax::syntax::AstModule;
use starlark_syntax::syntax::Dialect;
use starlark_syntax::syntax::DialectTypes;
use starlark_syntax::syntax::ast::*;
use sv_harness::run_cases;

static CASE_START_MS: AtomicU64 = AtomicU64::new(0);

fn now_ms() -> u64 {
    SystemTime::now().duration_since(UNIX_EPOCH).unwrap().as_millis() as u64
}

/// flags: def lambda load kwonly posonly load_reexport top_level_stmt f_strings ; types 0/1/2
fn dialect_of(code: &str) -> Dialect {
    let b: Vec<bool> = code.bytes().take(8).map(|c| c == b'1').collect();
    let t = match code.as_bytes()[8] {
        b'0' => DialectTypes::Disable,
        b'1' => DialectTypes::ParseOnly,
        _ => DialectTypes::Enable,
    };
    Dialect {
        enable_def: b[0],
        enable_lambda: b[1],
        enable_load: b[2],
        enable_keyword_only_arguments: b[3],
        enable_positional_only_arguments: b[4],
        enable_load_reexport: b[5],
        enable_top_level_stmt: b[6],
        enable_f_strings: b[7],
        enable_types: t,
        ..Dialect::Standard
    }
}

fn code_of(d: &Dialect) -> String {
    let f = |b: bool| if b { '1' } else { '0' };
    let mut s = String::new();
    for b in [
        d.enable_def,
        d.enable_lambda,
        d.enable_load,
        d.enable_keyword_only_arguments,
        d.enable_positional_only_arguments,
        d.enable_load_reexport,
        d.enable_top_level_stmt,
        d.enable_f_strings,
    ] {
        s.push(f(b));
    }
    s.push(match d.enable_types {
        DialectTypes::Disable => '0',
        DialectTypes::ParseOnly => '1',
        DialectTypes::Enable => '2',
    });
    s
}

fn hex(bytes: &[u8]) -> String {
    let mut s = String::with_capacity(bytes.len() * 2);
    for b in bytes {
        s.push_str(&format!("{:02x}", b));
    }
    s
}

fn variant_name(t: &Token) -> String {
    let d = format!("{:?}", t);
    d.split(|c: char| !(c.is_ascii_alphanumeric() || c == '_')).next().unwrap_or("").to_owned()
}

fn err_kind(msg: &str) -> &'static str {
    for (pat, k) in [
        ("incorrect indentation", "Indentation"),
        ("invalid input", "InvalidInput"),
        ("tabs are not allowed", "InvalidTab"),
        ("unfinished string literal", "UnfinishedStringLiteral"),
        ("invalid string escape sequence", "InvalidEscapeSequence"),
        ("missing string escape sequence", "EmptyEscapeSequence"),
        ("cannot use reserved keyword", "ReservedKeyword"),
        ("integer cannot have leading 0", "StartsZero"),
        ("failed to parse integer", "IntParse"),
        ("Comment span is computed incorrectly", "CommentSpanComputedIncorrectly"),
        ("f-string expression is missing closing", "UnfinishedFStringExpression"),
    ] {
        if msg.contains(pat) {
            return k;
        }
    }
    "Other"
}

struct Chk<'a> {
    src: &'a str,
    bad: Vec<String>,
    nodes: usize,
}

impl<'a> Chk<'a> {
    fn flag(&mut self, code: &str, detail: String) {
        if self.bad.len() < 12 {
            self.bad.push(format!("{}|{}", code, detail));
        }
    }

    /// span inside the file and on character boundaries
    fn span_in_file(&mut self, what: &str, b: usize, e: usize) -> bool {
        let n = self.src.len();
        if !(b <= e && e <= n) {
            self.flag(&format!("{}-span-outside-file", what), format!("{}..{} len {}", b, e, n));
            return false;
        }
        if !(self.src.is_char_boundary(b) && self.src.is_char_boundary(e)) {
            self.flag(&format!("{}-span-not-char-boundary", what), format!("{}..{} len {}", b, e, n));
            return false;
        }
        true
    }

    fn node(&mut self, what: &str, span: Span, parent: Span) -> bool {
        self.nodes += 1;
        let (b, e) = (span.begin().get() as usize, span.end().get() as usize);
        let ok = self.span_in_file("node", b, e);
        if !(parent.begin() <= span.begin() && span.end() <= parent.end()) {
            self.flag(
                "node-span-outside-parent",
                format!("{} {}..{} parent {}..{}", what, b, e, parent.begin().get(), parent.end().get()),
            );
        }
        ok
    }

    fn text(&self, span: Span) -> Option<&'a str> {
        self.src.get(span.begin().get() as usize..span.end().get() as usize)
    }

    fn ident_text(&mut self, what: &str, name: &str, span: Span) {
        match self.text(span) {
            Some(t) if t == name => {}
            Some(t) => self.flag("ident-span-text", format!("{} `{}` span text `{}`", what, name, t.chars().take(40).collect::<String>())),
            None => {}
        }
    }

    /// Re-lex the text of a literal node: it must be exactly one literal token with the same payload.
    fn relex_one(&mut self, what: &str, span: Span, want: &Token) {
        let Some(t) = self.text(span) else { return };
        let toks: Vec<_> = Lexer::new(t, &Dialect::AllOptionsInternal, CodeMap::new("lit".to_owned(), t.to_owned())).collect();
        let ok = match toks.as_slice() {
            [Ok((0, tok, r)), Ok((_, Token::Newline, _))] => *r == t.len() && same_literal(tok, want),
            _ => false,
        };
        if !ok {
            self.flag(
                "literal-span-text",
                format!("{} {:?} span text `{}`", what, want, t.chars().take(40).collect::<String>()),
            );
        }
    }

    fn string_lit(&mut self, what: &str, s: &AstString, parent: Span) {
        if self.node(what, s.span, parent) {
            self.relex_one(what, s.span, &Token::String(s.node.clone()));
        }
    }

    fn assign_ident(&mut self, what: &str, i: &AstAssignIdent, parent: Span) {
        if self.node(what, i.span, parent) {
            self.ident_text(what, &i.node.ident, i.span);
        }
    }

    fn type_expr(&mut self, t: &AstTypeExpr, parent: Span) {
        if self.node("type", t.span, parent) {
            self.expr(&t.node.expr, t.span);
        }
    }

    fn params(&mut self, ps: &[AstParameter], parent: Span) {
        for p in ps {
            self.node("param", p.span, parent);
            match &p.node {
                ParameterP::Slash | ParameterP::NoArgs => {}
                ParameterP::Normal(i, t, d) => {
                    self.assign_ident("param-name", i, p.span);
                    if let Some(t) = t {
                        self.type_expr(t, p.span);
                    }
                    if let Some(d) = d {
                        self.expr(d, p.span);
                    }
                }
                ParameterP::Args(i, t) | ParameterP::KwArgs(i, t) => {
                    self.assign_ident("param-name", i, p.span);
                    if let Some(t) = t {
                        self.type_expr(t, p.span);
                    }
                }
            }
        }
    }

    fn target(&mut self, t: &AstAssignTarget, parent: Span) {
        self.node("target", t.span, parent);
        match &t.node {
            AssignTargetP::Tuple(xs) => {
                for x in xs {
                    self.target(x, t.span);
                }
            }
            AssignTargetP::Index(b) => {
                self.expr(&b.0, t.span);
                self.expr(&b.1, t.span);
            }
            AssignTargetP::Dot(e, a) => {
                self.expr(e, t.span);
                if self.node("attr", a.span, t.span) {
                    self.ident_text("attr", &a.node, a.span);
                }
            }
            AssignTargetP::Identifier(i) => {
                // the identifier node shares the span of the target
                self.assign_ident("target-ident", i, t.span);
            }
        }
    }

    fn for_clause(&mut self, c: &ForClause, parent: Span) {
        self.target(&c.var, parent);
        self.expr(&c.over, parent);
    }

    fn clauses(&mut self, cs: &[Clause], parent: Span) {
        for c in cs {
            match c {
                ClauseP::For(f) => self.for_clause(f, parent),
                ClauseP::If(e) => self.expr(e, parent),
            }
        }
    }

    fn expr(&mut self, x: &AstExpr, parent: Span) {
        self.node("expr", x.span, parent);
        let sp = x.span;
        match &x.node {
            ExprP::Tuple(xs) | ExprP::List(xs) => {
                for e in xs {
                    self.expr(e, sp);
                }
            }
            ExprP::Dot(e, a) => {
                self.expr(e, sp);
                if self.node("attr", a.span, sp) {
                    self.ident_text("attr", &a.node, a.span);
                }
            }
            ExprP::Call(f, args) => {
                self.expr(f, sp);
                for a in &args.args {
                    self.node("arg", a.span, sp);
                    match &a.node {
                        ArgumentP::Positional(e) | ArgumentP::Args(e) | ArgumentP::KwArgs(e) => self.expr(e, a.span),
                        ArgumentP::Named(n, e) => {
                            if self.node("arg-name", n.span, a.span) {
                                self.ident_text("arg-name", &n.node, n.span);
                            }
                            self.expr(e, a.span);
                        }
                    }
                }
            }
            ExprP::Index(b) => {
                self.expr(&b.0, sp);
                self.expr(&b.1, sp);
            }
            ExprP::Index2(b) => {
                self.expr(&b.0, sp);
                self.expr(&b.1, sp);
                self.expr(&b.2, sp);
            }
            ExprP::Slice(a, b, c, d) => {
                self.expr(a, sp);
                for e in [b, c, d].into_iter().flatten() {
                    self.expr(e, sp);
                }
            }
            ExprP::Identifier(i) => {
                if self.node("ident", i.span, sp) {
                    self.ident_text("ident", &i.node.ident, i.span);
                }
            }
            ExprP::Lambda(l) => {
                self.params(&l.params, sp);
                self.expr(&l.body, sp);
            }
            ExprP::Literal(l) => match l {
                AstLiteral::Int(i) => {
                    if self.node("int", i.span, sp) {
                        self.relex_one("int", i.span, &Token::Int(i.node.clone()));
                    }
                }
                AstLiteral::Float(f) => {
                    if self.node("float", f.span, sp) {
                        self.relex_one("float", f.span, &Token::Float(f.node));
                    }
                }
                AstLiteral::String(s) => self.string_lit("string", s, sp),
                AstLiteral::Bytes(b) => {
                    if self.node("bytes", b.span, sp) {
                        self.relex_one("bytes", b.span, &Token::Bytes(b.node.clone()));
                    }
                }
                AstLiteral::Ellipsis => {
                    if self.text(sp) != Some("...") {
                        self.flag("literal-span-text", format!("ellipsis at {:?}", sp));
                    }
                }
            },
            ExprP::Not(e) | ExprP::Minus(e) | ExprP::Plus(e) | ExprP::BitNot(e) => self.expr(e, sp),
            ExprP::Op(a, _, b) => {
                self.expr(a, sp);
                self.expr(b, sp);
            }
            ExprP::If(b) => {
                self.expr(&b.0, sp);
                self.expr(&b.1, sp);
                self.expr(&b.2, sp);
            }
            ExprP::Dict(kvs) => {
                for (k, v) in kvs {
                    self.expr(k, sp);
                    self.expr(v, sp);
                }
            }
            ExprP::ListComprehension(e, f, cs) => {
                self.expr(e, sp);
                self.for_clause(f, sp);
                self.clauses(cs, sp);
            }
            ExprP::DictComprehension(kv, f, cs) => {
                self.expr(&kv.0, sp);
                self.expr(&kv.1, sp);
                self.for_clause(f, sp);
                self.clauses(cs, sp);
            }
            ExprP::FString(fs) => {
                self.node("fstring", fs.span, sp);
                self.node("fstring-format", fs.node.format.span, fs.span);
                for e in &fs.node.expressions {
                    self.expr(e, fs.span);
                }
                // the f-string's text starts with its prefix and ends with a quote
                if let Some(t) = self.text(fs.span) {
                    let okp = t.starts_with("f\"") || t.starts_with("f'") || t.starts_with("fr\"") || t.starts_with("fr'");
                    let oke = t.ends_with('"') || t.ends_with('\'');
                    if !(okp && oke) {
                        self.flag("literal-span-text", format!("fstring span text `{}`", t.chars().take(40).collect::<String>()));
                    }
                }
            }
        }
    }

    fn stmt(&mut self, s: &AstStmt, parent: Span) {
        self.node("stmt", s.span, parent);
        let sp = s.span;
        match &s.node {
            StmtP::Break | StmtP::Continue | StmtP::Pass => {}
            StmtP::Return(e) => {
                if let Some(e) = e {
                    self.expr(e, sp);
                }
            }
            StmtP::Expression(e) => self.expr(e, sp),
            StmtP::Assign(a) => {
                self.target(&a.lhs, sp);
                if let Some(t) = &a.ty {
                    self.type_expr(t, sp);
                }
                self.expr(&a.rhs, sp);
            }
            StmtP::AssignModify(t, _, e) => {
                self.target(t, sp);
                self.expr(e, sp);
            }
            StmtP::Statements(xs) => {
                for x in xs {
                    self.stmt(x, sp);
                }
            }
            StmtP::If(c, b) => {
                self.expr(c, sp);
                self.stmt(b, sp);
            }
            StmtP::IfElse(c, b) => {
                self.expr(c, sp);
                self.stmt(&b.0, sp);
                self.stmt(&b.1, sp);
            }
            StmtP::For(f) => {
                self.target(&f.var, sp);
                self.expr(&f.over, sp);
                self.stmt(&f.body, sp);
            }
            StmtP::Def(d) => {
                self.assign_ident("def-name", &d.name, sp);
                self.params(&d.params, sp);
                if let Some(t) = &d.return_type {
                    self.type_expr(t, sp);
                }
                self.stmt(&d.body, sp);
            }
            StmtP::Load(l) => {
                self.string_lit("load-module", &l.module, sp);
                for a in &l.args {
                    self.string_lit("load-their", &a.their, sp);
                    if self.node("load-local", a.local.span, sp) {
                        // `load("m", "x")`: the local name has the span of the string literal "x"
                        let t = self.text(a.local.span);
                        if t != Some(a.local.node.ident.as_str()) {
                            self.relex_one("load-local", a.local.span, &Token::String(a.local.node.ident.clone()));
                        }
                    }
                    if let Some(c) = &a.comma {
                        self.node("load-comma", c.span, sp);
                    }
                }
            }
        }
    }
}

fn same_literal(a: &Token, b: &Token) -> bool {
    match (a, b) {
        (Token::Float(x), Token::Float(y)) => x.to_bits() == y.to_bits() || (x.is_nan() && y.is_nan()),
        _ => a == b,
    }
}

fn lex_observe(src: &str, chk: &mut Chk) -> J {
    let cm = CodeMap::new("case.star".to_owned(), src.to_owned());
    let lexer = Lexer::new(src, &Dialect::AllOptionsInternal, cm);
    let mut out = String::new();
    let mut err = J::Null;
    let mut prev_r = 0usize;
    let mut n = 0usize;
    let mut depth: i64 = 0;
    for lx in lexer {
        match lx {
            Ok((l, tok, r)) => {
                n += 1;
                chk.span_in_file("token", l, r);
                if l < prev_r {
                    chk.flag("token-spans-overlap", format!("{:?} {}..{} after end {}", tok, l, r, prev_r));
                }
                prev_r = prev_r.max(r);
                let name = variant_name(&tok);
                let payload = match &tok {
                    Token::String(s) | Token::FStringText(s) => hex(s.as_bytes()),
                    Token::Bytes(b) => hex(b),
                    Token::FStringStart(q) => format!("{:?}", q),
                    _ => String::new(),
                };
                match &tok {
                    Token::Indent => depth += 1,
                    Token::Dedent => {
                        depth -= 1;
                        if depth < 0 {
                            chk.flag("dedent-without-indent", format!("at {}", l));
                        }
                    }
                    Token::Identifier(s) => {
                        if src.get(l..r) != Some(s.as_str()) {
                            chk.flag("ident-span-text", format!("token `{}` at {}..{}", s, l, r));
                        }
                    }
                    Token::String(_) | Token::Bytes(_) => {
                        // the literal's span is exactly its own text: prefix + quote ... same quote
                        if let Some(t) = src.get(l..r) {
                            let body = t.trim_start_matches(|c| c == 'r' || c == 'b');
                            let q = body.chars().next().unwrap_or(' ');
                            let ok = (q == '"' || q == '\'') && body.len() >= 2 && body.ends_with(q) && t.len() - body.len() <= 2;
                            if !ok {
                                chk.flag("literal-span-text", format!("token {} at {}..{}", name, l, r));
                            }
                        }
                    }
                    _ => {}
                }
                if !out.is_empty() {
                    out.push(';');
                }
                out.push_str(&format!("{} {} {} {}", name, l, r, payload));
            }
            Err(e) => {
                let e = e.into_error();
                let msg = format!("{}", e.without_diagnostic());
                let (b, en) = match e.span() {
                    Some(fs) => (fs.span.begin().get() as i64, fs.span.end().get() as i64),
                    None => (-1, -1),
                };
                err = json!([err_kind(&msg), b, en, msg.chars().take(120).collect::<String>()]);
                break;
            }
        }
    }
    if err.is_null() && depth != 0 {
        chk.flag("indent-dedent-unbalanced", format!("depth {} at end", depth));
    }
    json!({"t": out, "e": err, "n": n})
}

fn main() {
    let limit: u64 = std::env::var("SV_CASE_TIMEOUT_MS").ok().and_then(|s| s.parse().ok()).unwrap_or(20000);
    std::thread::spawn(move || {
        loop {
            std::thread::sleep(Duration::from_millis(200));
            let st = CASE_START_MS.load(Ordering::Relaxed);
            if st != 0 && now_ms() > st + limit {
                eprintln!("sv-lex: case exceeded {} ms", limit);
                std::process::exit(3);
            }
        }
    });
    run_cases(|case| {
        CASE_START_MS.store(now_ms(), Ordering::Relaxed);
        let (src, lossy): (String, bool) = if let Some(s) = case["src"].as_str() {
            (s.to_owned(), false)
        } else {
            let h = case["hex"].as_str().unwrap_or("");
            let bytes: Vec<u8> = (0..h.len() / 2).map(|i| u8::from_str_radix(&h[2 * i..2 * i + 2], 16).unwrap_or(0)).collect();
            match String::from_utf8(bytes) {
                Ok(s) => (s, false),
                Err(e) => (String::from_utf8_lossy(e.as_bytes()).into_owned(), true),
            }
        };
        let mut chk = Chk { src: &src, bad: Vec::new(), nodes: 0 };
        let lex = if case["lex"].as_bool().unwrap_or(true) { lex_observe(&src, &mut chk) } else { J::Null };
        let want_tree = case["tree"].as_bool().unwrap_or(false);
        let mut ps = Vec::new();
        let presets = [Dialect::Standard, Dialect::Extended, Dialect::AllOptionsInternal];
        let mut codes: Vec<String> = Vec::new();
        match case["d"].as_array() {
            Some(a) => {
                for c in a {
                    codes.push(c.as_str().unwrap_or("111001000").to_owned());
                }
            }
            None => {
                for p in &presets {
                    codes.push(code_of(p));
                }
            }
        }
        for code in &codes {
            let d = dialect_of(code);
            let before = chk.bad.len();
            match AstModule::parse("case.star", src.clone(), &d) {
                Ok(m) => {
                    let full = Span::new(
                        starlark_syntax::codemap::Pos::new(0),
                        starlark_syntax::codemap::Pos::new(src.len() as u32),
                    );
                    chk.nodes = 0;
                    chk.stmt(m.statement(), full);
                    for c in m.comments() {
                        let (b, e) = (c.begin().get() as usize, c.end().get() as usize);
                        if chk.span_in_file("comment", b, e) && !src[b..e].starts_with('#') {
                            chk.flag("comment-span-text", format!("{}..{}", b, e));
                        }
                    }
                    let tree = format!("{:?}", m.statement());
                    let mut h = DefaultHasher::new();
                    tree.hash(&mut h);
                    let mut o = json!({"d": code, "ok": true, "h": format!("{:016x}", h.finish()), "n": chk.nodes});
                    if want_tree {
                        o["tree"] = json!(tree);
                    }
                    ps.push(o);
                }
                Err(e) => {
                    let msg = format!("{}", e.without_diagnostic());
                    let (b, en) = match e.span() {
                        Some(fs) => (fs.span.begin().get() as i64, fs.span.end().get() as i64),
                        None => (-1, -1),
                    };
                    if b < 0 {
                        chk.flag("error-without-span", msg.chars().take(80).collect());
                    } else {
                        chk.span_in_file("error", b as usize, en as usize);
                    }
                    if msg.trim().is_empty() {
                        chk.flag("error-without-message", format!("{}..{}", b, en));
                    }
                    // the rendered diagnostic must be producible too (resolves lines/columns)
                    let _ = format!("{}", e);
                    ps.push(json!({"d": code, "ok": false, "msg": msg.chars().take(160).collect::<String>(), "b": b, "e": en}));
                }
            }
            // tag facts found under this dialect
            for i in before..chk.bad.len() {
                chk.bad[i] = format!("{}|d={}", chk.bad[i], code);
            }
        }
        CASE_START_MS.store(0, Ordering::Relaxed);
        json!({"len": src.len(), "lossy": lossy, "lex": lex, "bad": chk.bad, "p": ps})
    });
}
