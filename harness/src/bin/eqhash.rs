//! C09: equality / ordering / hashing observations on values built through different construction
//! paths.  A case is
//!   {"lib": <source of a module that is evaluated, frozen and offered as "lib.star"> | null,
//!    "src": <source defining top-level variables>, "values": [names], "exprs": [expression sources]}
//! and the result describes every named value exactly (ints in decimal with their representation
//! tag, floats by their bit pattern, strings, containers structurally), gives the outcome of every
//! expression (evaluated one by one on the same module, errors caught per expression), and the
//! Rust-level matrix Value::equals / Value::compare / Value::get_hashed over the named values.

use std::collections::HashMap;

use serde_json::Value as J;
use serde_json::json;
use starlark::environment::FrozenModule;
use starlark::environment::Module;
use starlark::eval::Evaluator;
use starlark::eval::ReturnFileLoader;
use starlark::syntax::AstModule;
use starlark::values::Value;
use starlark::values::ValueLike;
use starlark::values::dict::DictRef;
use starlark::values::float::StarlarkFloat;
use starlark::values::list::ListRef;
use starlark::values::structs::StructRef;
use starlark::values::tuple::TupleRef;
use sv_harness::dialect;
use sv_harness::err_json;
use sv_harness::globals;
use sv_harness::run_cases;

fn desc(v: Value, depth: usize) -> J {
    if depth > 40 {
        return json!({"t": "deep"});
    }
    let fz = v.unpack_frozen().is_some();
    if v.is_none() {
        return json!({"t": "none"});
    }
    if let Some(b) = v.unpack_bool() {
        return json!({"t": "bool", "v": b});
    }
    if let Some(r) = starlark::verif_hooks::int_repr(v) {
        return json!({"t": "int", "v": v.to_str(), "r": r});
    }
    if let Some(f) = v.downcast_ref::<StarlarkFloat>() {
        return json!({"t": "float", "bits": f.0.to_bits().to_string(), "repr": v.to_repr()});
    }
    if let Some(s) = v.unpack_str() {
        let h = match v.get_hashed() {
            Ok(h) => json!(h.hash().get()),
            Err(_) => J::Null,
        };
        return json!({"t": "str", "v": s, "fz": fz, "h": h});
    }
    if let Some(t) = TupleRef::from_value(v) {
        let xs: Vec<J> = t.content().iter().map(|x| desc(*x, depth + 1)).collect();
        return json!({"t": "tuple", "v": xs, "fz": fz});
    }
    if let Some(l) = ListRef::from_value(v) {
        let xs: Vec<J> = l.content().iter().map(|x| desc(*x, depth + 1)).collect();
        return json!({"t": "list", "v": xs, "fz": fz});
    }
    if let Some(d) = DictRef::from_value(v) {
        let xs: Vec<J> = d
            .iter()
            .map(|(k, x)| json!([desc(k, depth + 1), desc(x, depth + 1)]))
            .collect();
        return json!({"t": "dict", "v": xs, "fz": fz});
    }
    if let Some(s) = StructRef::from_value(v) {
        let xs: Vec<J> = s
            .iter()
            .map(|(k, x)| json!([k.as_str(), desc(x, depth + 1)]))
            .collect();
        return json!({"t": "struct", "v": xs, "fz": fz});
    }
    json!({"t": "other", "ty": v.get_type(), "repr": v.to_repr()})
}

fn short_err(e: &starlark::Error) -> J {
    let ej = err_json(e);
    let msg = ej["msg"].as_str().unwrap_or("").lines().next().unwrap_or("").to_owned();
    let class = if msg.contains("not hashable") || msg.contains("Value is not hashable") {
        "unhashable"
    } else if msg.contains("not supported") || msg.contains("Operation") {
        "unsupported"
    } else {
        "other"
    };
    json!({"err": class, "msg": msg})
}

fn freeze_lib(src: &str) -> Result<FrozenModule, J> {
    let g = globals();
    Module::with_temp_heap(|module| {
        let ast = AstModule::parse("lib.star", src.to_owned(), &dialect()).map_err(|e| short_err(&e))?;
        {
            let mut eval = Evaluator::new(&module);
            eval.eval_module(ast, &g).map_err(|e| short_err(&e))?;
        }
        module.freeze().map_err(|e| json!({"err": "freeze", "msg": format!("{e:?}")}))
    })
}

fn run(c: &J) -> J {
    let lib = match c["lib"].as_str() {
        Some(src) => match freeze_lib(src) {
            Ok(m) => Some(m),
            Err(e) => return json!({"setup_err": e, "where": "lib"}),
        },
        None => None,
    };
    let src = c["src"].as_str().unwrap_or("");
    let names: Vec<String> = c["values"]
        .as_array()
        .map(|a| a.iter().filter_map(|x| x.as_str().map(|s| s.to_owned())).collect())
        .unwrap_or_default();
    let exprs: Vec<String> = c["exprs"]
        .as_array()
        .map(|a| a.iter().filter_map(|x| x.as_str().map(|s| s.to_owned())).collect())
        .unwrap_or_default();
    let g = globals();
    let mut mods: HashMap<&str, &FrozenModule> = HashMap::new();
    if let Some(m) = &lib {
        mods.insert("lib.star", m);
    }
    let loader = ReturnFileLoader { modules: &mods };
    Module::with_temp_heap(|module| {
        let mut eval = Evaluator::new(&module);
        eval.set_loader(&loader);
        let ast = match AstModule::parse("case.star", src.to_owned(), &dialect()) {
            Ok(a) => a,
            Err(e) => return json!({"setup_err": short_err(&e), "where": "parse"}),
        };
        if let Err(e) = eval.eval_module(ast, &g) {
            return json!({"setup_err": short_err(&e), "where": "src"});
        }
        let mut vals: Vec<Value> = Vec::new();
        for n in &names {
            match module.get(n) {
                Some(v) => vals.push(v),
                None => return json!({"setup_err": {"err": "missing", "msg": n}, "where": "values"}),
            }
        }
        let descs: Vec<J> = vals.iter().map(|v| desc(*v, 0)).collect();
        let mut outs: Vec<J> = Vec::new();
        for (i, e) in exprs.iter().enumerate() {
            let r = match AstModule::parse(&format!("e{i}.star"), e.clone(), &dialect()) {
                Err(er) => short_err(&er),
                Ok(ast) => match eval.eval_module(ast, &g) {
                    Ok(v) => desc(v, 0),
                    Err(er) => short_err(&er),
                },
            };
            outs.push(r);
        }
        // Rust-level API on the same values.  Evaluating the expressions may have run the garbage
        // collector (long lists allocate enough), which moves values: fetch the variables again
        // instead of using pointers taken before.
        let mut vals: Vec<Value> = Vec::new();
        for n in &names {
            match module.get(n) {
                Some(v) => vals.push(v),
                None => return json!({"setup_err": {"err": "missing", "msg": n}, "where": "values"}),
            }
        }
        let hashes: Vec<J> = vals
            .iter()
            .map(|v| match v.get_hashed() {
                Ok(h) => json!(h.hash().get()),
                Err(_) => J::Null,
            })
            .collect();
        let mut eqm: Vec<J> = Vec::new();
        let mut cmpm: Vec<J> = Vec::new();
        for a in &vals {
            let mut er: Vec<J> = Vec::new();
            let mut cr: Vec<J> = Vec::new();
            for b in &vals {
                er.push(match a.equals(*b) {
                    Ok(x) => json!(x),
                    Err(_) => J::Null,
                });
                cr.push(match a.compare(*b) {
                    Ok(std::cmp::Ordering::Less) => json!(-1),
                    Ok(std::cmp::Ordering::Equal) => json!(0),
                    Ok(std::cmp::Ordering::Greater) => json!(1),
                    Err(_) => J::Null,
                });
            }
            eqm.push(J::Array(er));
            cmpm.push(J::Array(cr));
        }
        json!({"values": descs, "exprs": outs, "hash": hashes, "eq": eqm, "cmp": cmpm})
    })
}

fn main() {
    run_cases(run);
}
