//! General evaluation driver: runs programs on the real evaluator under a configuration
//! (GC schedule, poisoning, profiler, statement hook, limits, cancellation, loaded frozen modules)
//! and reports the transcript of `emit(..)`/`print(..)` calls, the outcome and evaluator state.
//!
//! case = { "mods": [{"name","src"}...], "src": "...", "then": ["..."], "opts": {...} }

use std::cell::Cell;
use std::cell::RefCell;
use std::collections::HashMap;
use std::rc::Rc;

use serde_json::Value as J;
use serde_json::json;
use starlark::environment::FrozenModule;
use starlark::environment::Module;
use starlark::eval::Evaluator;
use starlark::eval::ProfileMode;
use starlark::eval::ReturnFileLoader;
use starlark::PrintHandler;
use starlark::syntax::AstModule;
use starlark::syntax::Dialect;
use sv_harness::TRANSCRIPT;
use sv_harness::enc;
use sv_harness::err_json;
use sv_harness::globals;
use sv_harness::globals_with_host_api;
use sv_harness::run_cases;
use sv_harness::take_transcript;

struct Printer;
impl PrintHandler for Printer {
    fn println(&self, text: &str) -> starlark::Result<()> {
        TRANSCRIPT.with(|t| t.borrow_mut().push(format!("print:{}", text)));
        Ok(())
    }
}

fn dialect_of(o: &J) -> Dialect {
    match o["dialect"].as_str() {
        Some("standard") => Dialect::Standard,
        Some("extended") => Dialect::Extended,
        _ => Dialect::AllOptionsInternal,
    }
}

fn profile_of(s: &str) -> Option<ProfileMode> {
    Some(match s {
        "heap-summary-allocated" => ProfileMode::HeapSummaryAllocated,
        "heap-summary-retained" => ProfileMode::HeapSummaryRetained,
        "heap-flame-allocated" => ProfileMode::HeapFlameAllocated,
        "heap-flame-retained" => ProfileMode::HeapFlameRetained,
        "heap-allocated" => ProfileMode::HeapAllocated,
        "heap-retained" => ProfileMode::HeapRetained,
        "statement" => ProfileMode::Statement,
        "coverage" => ProfileMode::Coverage,
        "bytecode" => ProfileMode::Bytecode,
        "bytecode-pairs" => ProfileMode::BytecodePairs,
        "time-flame" => ProfileMode::TimeFlame,
        "typecheck" => ProfileMode::Typecheck,
        _ => return None,
    })
}

fn outcome(res: Result<starlark::values::Value, starlark::Error>) -> J {
    match res {
        Ok(v) => json!({"ok": enc(v)}),
        Err(e) => {
            let mut j = err_json(&e);
            j["full"] = J::String(format!("{}", e));
            json!({"err": j})
        }
    }
}

fn main() {
    run_cases(|c| {
        let opts = &c["opts"];
        let dialect = dialect_of(opts);
        // `host_api`: the globals additionally contain intern / same / set_extra / get_extra (C03: roots reachable
        // only through host APIs)
        let g = if opts["host_api"].as_bool().unwrap_or(false) { globals_with_host_api() } else { globals() };
        starlark::verif_hooks::set_poison(opts["poison"].as_bool().unwrap_or(false));
        // 1. library modules: evaluated, frozen, loadable by name
        let mut frozen: Vec<(String, FrozenModule)> = Vec::new();
        let mut lib_out = Vec::new();
        if let Some(mods) = c["mods"].as_array() {
            for m in mods {
                let name = m["name"].as_str().unwrap().to_owned();
                let src = m["src"].as_str().unwrap().to_owned();
                let r: Result<FrozenModule, J> = Module::with_temp_heap(|module| {
                    let map: HashMap<&str, &FrozenModule> =
                        frozen.iter().map(|(n, m)| (n.as_str(), m)).collect();
                    let loader = ReturnFileLoader { modules: &map };
                    let ast = AstModule::parse(&name, src, &dialect)
                        .map_err(|e| json!({"err": err_json(&e)}))?;
                    {
                        let mut eval = Evaluator::new(&module);
                        eval.set_loader(&loader);
                        eval.set_print_handler(&Printer);
                        eval.eval_module(ast, &g)
                            .map_err(|e| json!({"err": err_json(&e)}))?;
                    }
                    module
                        .freeze()
                        .map_err(|e| json!({"err": {"kind": "Freeze", "msg": format!("{:?}", e)}}))
                });
                match r {
                    Ok(fm) => {
                        lib_out.push(json!({"ok": name}));
                        frozen.push((name, fm));
                    }
                    Err(j) => lib_out.push(j),
                }
            }
        }
        let lib_tr = take_transcript();
        // 2. main module
        let map: HashMap<&str, &FrozenModule> =
            frozen.iter().map(|(n, m)| (n.as_str(), m)).collect();
        let loader = ReturnFileLoader { modules: &map };
        let stmt_count = Rc::new(Cell::new(0u64));
        let stmt_lines: Rc<RefCell<Vec<u32>>> = Rc::new(RefCell::new(Vec::new()));
        let ticks_seen = Rc::new(Cell::new(0u64));
        let r = Module::with_temp_heap(|module| {
            if let Some(vars) = opts["set_vars"].as_object() {
                for (k, v) in vars {
                    let hv = match v {
                        J::String(s) => module.heap().alloc(s.as_str()),
                        J::Number(n) => module.heap().alloc(n.as_i64().unwrap_or(0)),
                        J::Bool(b) => starlark::values::Value::new_bool(*b),
                        _ => starlark::values::Value::new_none(),
                    };
                    module.set(k, hv);
                }
            }
            if let Some(s) = opts["extra_value"].as_str() {
                // the embedder's extra value: a list holding a runtime string
                let sv = module.heap().alloc(s);
                module.set_extra_value(module.heap().alloc(vec![sv]));
            }
            let mut eval = Evaluator::new(&module);
            eval.set_loader(&loader);
            eval.set_print_handler(&Printer);
            if opts["disable_gc"].as_bool().unwrap_or(false) {
                eval.disable_gc();
            }
            if let Some(p) = opts["profile"].as_str().and_then(profile_of) {
                let _ = eval.enable_profile(&p);
            }
            if let Some(n) = opts["max_callstack"].as_u64() {
                let _ = eval.set_max_callstack_size(n as usize);
            }
            if let Some(n) = opts["max_ticks"].as_u64() {
                let _ = eval.set_max_tick_count(n);
            }
            if let Some(n) = opts["cancel_after_checks"].as_u64() {
                let seen = ticks_seen.clone();
                eval.set_check_cancelled(Box::new(move || {
                    seen.set(seen.get() + 1);
                    seen.get() > n
                }));
            }
            if opts["stmt_hook"].as_bool().unwrap_or(false) {
                let cnt = stmt_count.clone();
                let lines = stmt_lines.clone();
                struct Hook {
                    cnt: Rc<Cell<u64>>,
                    lines: Rc<RefCell<Vec<u32>>>,
                }
                impl<'e> starlark::eval::BeforeStmtFuncDyn<'e> for Hook {
                    fn call<'v>(
                        &mut self,
                        span: starlark::codemap::FileSpanRef,
                        _continued: bool,
                        _eval: &mut Evaluator<'v, '_, 'e>,
                    ) -> starlark::Result<()> {
                        self.cnt.set(self.cnt.get() + 1);
                        if self.lines.borrow().len() < 4096 {
                            self.lines.borrow_mut().push(span.resolve_span().begin.line as u32);
                        }
                        Ok(())
                    }
                }
                eval.before_stmt_for_dap(starlark::eval::BeforeStmtFunc::from_dyn(Box::new(Hook { cnt, lines })));
            }
            starlark::verif_hooks::set_gc_every(opts["gc_every"].as_u64().unwrap_or(0));
            let mut steps = Vec::new();
            let mut srcs: Vec<String> = vec![c["src"].as_str().unwrap_or("").to_owned()];
            if let Some(t) = c["then"].as_array() {
                for s in t {
                    srcs.push(s.as_str().unwrap_or("").to_owned());
                }
            }
            for (i, src) in srcs.into_iter().enumerate() {
                let res = match AstModule::parse(&format!("main{}.star", i), src, &dialect) {
                    Err(e) => Err(e),
                    Ok(ast) => eval.eval_module(ast, &g),
                };
                let out = outcome(res);
                let tr = take_transcript();
                steps.push(json!({
                    "tr": tr, "out": out,
                    "stack_after": eval.call_stack_count(),
                    "ticks": eval.get_total_tick_count(),
                }));
            }
            let (sp, forced) = starlark::verif_hooks::gc_counters();
            starlark::verif_hooks::set_gc_every(0);
            let profile = if opts["profile"].as_str().and_then(profile_of).is_some() {
                match eval.gen_profile() {
                    Ok(p) => J::Bool(p.gen_csv().is_ok() || p.gen_flame_data().is_ok()),
                    Err(_) => J::Bool(false),
                }
            } else {
                J::Null
            };
            // exported values after evaluation (sorted by name)
            let mut names: Vec<String> = module.names().map(|s| s.as_str().to_owned()).collect();
            names.sort();
            let exports: Vec<J> = if opts["exports"].as_bool().unwrap_or(false) {
                names
                    .iter()
                    .filter_map(|n| module.get(n).map(|v| json!([n, enc(v)])))
                    .collect()
            } else {
                Vec::new()
            };
            drop(eval);
            let mut r = json!({"steps": steps, "gc": [sp, forced], "profile_ok": profile, "exports": exports});
            if opts["freeze_main"].as_bool().unwrap_or(false) {
                // freeze the main module after evaluation and read the exports (and the retained heap profile) back
                r["freeze"] = match module.freeze() {
                    Ok(fm) => {
                        let mut names: Vec<String> = fm.names().map(|s| s.as_str().to_owned()).collect();
                        names.sort();
                        let vals: Vec<J> = names
                            .iter()
                            .filter_map(|n| fm.get_owned(n).ok().map(|v| json!([n, v.by_ref(|x| enc(*x))])))
                            .collect();
                        let prof = match fm.heap_profile() {
                            Ok(p) => J::Bool(p.gen_csv().is_ok() || p.gen_flame_data().is_ok()),
                            Err(_) => J::Null,
                        };
                        json!({"ok": vals, "heap_profile": prof})
                    }
                    Err(e) => json!({"err": format!("{:?}", e)}),
                };
            }
            r
        });
        let mut r = r;
        r["lib"] = J::Array(lib_out);
        r["lib_tr"] = json!(lib_tr);
        r["stmts"] = json!(stmt_count.get());
        r["stmt_lines"] = json!(*stmt_lines.borrow());
        starlark::verif_hooks::set_poison(false);
        r
    });
}
