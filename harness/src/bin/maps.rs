//! C11: the `starlark_map` containers driven by op sequences over keys whose 32-bit hash is chosen
//! by the case (collisions at will), through the hashed and the plain entry points.
//!
//! Case: `{"id", "hashes": [u32], "api": "hashed"|"plain", "others": bool, "ops": [[name, args..]]}`.
//! Result: `{"id", "hash_ok", "bad": [..], "sm": [step..]}` plus, when `others`, one step list for each of
//! `set omap oset smap sset umap uset vec2`. A step is `RET|ENTRIES|IDX|LOOKUPS` after the op.
//! Messages in `bad` are `<0-based op index>:<check name>`.

use std::cmp::Ordering;
use std::fmt::Write as _;
use std::hash::Hash;
use std::hash::Hasher;

use serde_json::Value as J;
use serde_json::json;
use starlark_map::Hashed;
use starlark_map::StarlarkHashValue;
use starlark_map::ordered_map::OrderedMap;
use starlark_map::ordered_set::OrderedSet;
use starlark_map::small_map::SmallMap;
use starlark_map::small_set::SmallSet;
use starlark_map::sorted_map::SortedMap;
use starlark_map::sorted_set::SortedSet;
use starlark_map::unordered_map;
use starlark_map::unordered_map::UnorderedMap;
use starlark_map::unordered_set;
use starlark_map::unordered_set::UnorderedSet;
use starlark_map::vec2::Vec2;
use sv_harness::run_cases;

// ---------------------------------------------------------------------------------------------
// Key with a caller-chosen hash
// ---------------------------------------------------------------------------------------------

/// Multiplier of `Fx64Hasher`.
const K: u64 = 0xf1357aea2e62a9c5;

/// Inverse of `K` modulo 2^64 (Newton iteration; `K*K = 1 mod 8` gives 3 good bits to start with).
const KINV: u64 = {
    let mut inv = K;
    let mut i = 0;
    while i < 6 {
        inv = inv.wrapping_mul(2u64.wrapping_sub(K.wrapping_mul(inv)));
        i += 1;
    }
    inv
};

#[derive(Clone, Copy, Debug)]
struct Key {
    id: u32,
    h: u32,
}

impl PartialEq for Key {
    fn eq(&self, other: &Key) -> bool {
        self.id == other.id
    }
}

impl Eq for Key {}

impl PartialOrd for Key {
    fn partial_cmp(&self, other: &Key) -> Option<Ordering> {
        Some(self.cmp(other))
    }
}

impl Ord for Key {
    fn cmp(&self, other: &Key) -> Ordering {
        self.id.cmp(&other.id)
    }
}

impl Hash for Key {
    /// Feeds the one `u64` for which `StarlarkHasher::finish_small` is exactly `self.h`:
    /// state = x*K, finish = rotl(state, 26) = h (high half zero), finish_small = h ^ 0.
    fn hash<H: Hasher>(&self, s: &mut H) {
        let x = (self.h as u64).rotate_right(26).wrapping_mul(KINV);
        s.write_u64(x);
    }
}

/// Per-case context: the key universe and the API flavour.
struct Cx {
    keys: Vec<Key>,
    hashed: bool,
}

impl Cx {
    fn key(&self, id: u32) -> Key {
        match self.keys.get(id as usize) {
            Some(k) => *k,
            None => panic!("key {} outside the universe", id),
        }
    }

    fn hk(&self, id: u32) -> Hashed<Key> {
        let k = self.key(id);
        Hashed::new_unchecked(StarlarkHashValue::new_unchecked(k.h), k)
    }

    fn n(&self) -> usize {
        self.keys.len()
    }
}

// ---------------------------------------------------------------------------------------------
// Ops
// ---------------------------------------------------------------------------------------------

enum Op {
    Ins(u32, i64),
    Insu(u32, i64),
    Rem(u32),
    Remi(usize),
    Pop,
    Clear,
    /// Drop mask indexed by key id, and the delta added to retained values.
    Retain(Vec<bool>, i64),
    Sort,
    Rev,
    DropIdx,
    Reserve(usize),
    Extend(Vec<(u32, i64)>),
    Entry(u32, i64),
    Emod(u32, i64, i64),
    WithCap(usize),
    Clone,
}

fn kid(v: &J) -> u32 {
    u32::try_from(v.as_u64().expect("key id")).expect("key id u32")
}

fn int(v: &J) -> i64 {
    v.as_i64().expect("i64 argument")
}

fn size(v: &J) -> usize {
    v.as_u64().expect("usize argument") as usize
}

fn parse_op(o: &J, n: usize) -> Op {
    let a = o.as_array().expect("op must be an array");
    let name = a[0].as_str().expect("op name");
    match name {
        "ins" => Op::Ins(kid(&a[1]), int(&a[2])),
        "insu" => Op::Insu(kid(&a[1]), int(&a[2])),
        "rem" => Op::Rem(kid(&a[1])),
        "remi" => Op::Remi(size(&a[1])),
        "pop" => Op::Pop,
        "clear" => Op::Clear,
        "retain" => {
            let mut mask = vec![false; n];
            for k in a[1].as_array().expect("retain drop list") {
                let k = kid(k) as usize;
                if k >= mask.len() {
                    mask.resize(k + 1, false);
                }
                mask[k] = true;
            }
            Op::Retain(mask, int(&a[2]))
        }
        "sort" => Op::Sort,
        "rev" => Op::Rev,
        "dropidx" => Op::DropIdx,
        "reserve" => Op::Reserve(size(&a[1])),
        "extend" => Op::Extend(
            a[1].as_array()
                .expect("extend pairs")
                .iter()
                .map(|p| (kid(&p[0]), int(&p[1])))
                .collect(),
        ),
        "entry" => Op::Entry(kid(&a[1]), int(&a[2])),
        "emod" => Op::Emod(kid(&a[1]), int(&a[2]), int(&a[3])),
        "withcap" => Op::WithCap(size(&a[1])),
        "clone" => Op::Clone,
        _ => panic!("unknown op {}", name),
    }
}

fn dropped(mask: &[bool], k: &Key) -> bool {
    mask.get(k.id as usize).copied().unwrap_or(false)
}

// ---------------------------------------------------------------------------------------------
// Step strings
// ---------------------------------------------------------------------------------------------

enum Ret {
    Unit,
    None,
    Val(i64),
    Ent(u32, i64),
    Unsup,
}

fn opt_val(v: Option<i64>) -> Ret {
    match v {
        Some(v) => Ret::Val(v),
        None => Ret::None,
    }
}

fn opt_ent(e: Option<(Key, i64)>) -> Ret {
    match e {
        Some((k, v)) => Ret::Ent(k.id, v),
        None => Ret::None,
    }
}

fn opt_key(e: Option<Key>) -> Ret {
    match e {
        Some(k) => Ret::Ent(k.id, 0),
        None => Ret::None,
    }
}

/// `true` (newly inserted) => `N`, `false` (was present) => `V0`.
fn inserted(new: bool) -> Ret {
    if new { Ret::None } else { Ret::Val(0) }
}

/// `RET|ENTRIES|IDX|LOOKUPS`; `look(id)` gives the position and the value found for universe key `id`.
fn step_string(
    ret: &Ret,
    ents: &[(u32, i64)],
    idx: &str,
    n: usize,
    mut look: impl FnMut(usize) -> (Option<usize>, Option<i64>),
) -> String {
    let mut s = String::with_capacity(8 + ents.len() * 8 + idx.len() + n * 6);
    match ret {
        Ret::Unit => s.push('-'),
        Ret::None => s.push('N'),
        Ret::Val(v) => write!(s, "V{}", v).unwrap(),
        Ret::Ent(k, v) => write!(s, "E{}:{}", k, v).unwrap(),
        Ret::Unsup => s.push('_'),
    }
    s.push('|');
    for (i, (k, v)) in ents.iter().enumerate() {
        if i > 0 {
            s.push(',');
        }
        write!(s, "{}:{}", k, v).unwrap();
    }
    s.push('|');
    s.push_str(idx);
    s.push('|');
    for id in 0..n {
        if id > 0 {
            s.push(',');
        }
        match look(id) {
            (Some(i), Some(v)) => write!(s, "{}:{}", i, v).unwrap(),
            (None, None) => s.push('x'),
            (Some(i), None) => write!(s, "{}:?", i).unwrap(),
            (None, Some(v)) => write!(s, "?:{}", v).unwrap(),
        }
    }
    s
}

/// First position of every universe key in `ents`.
fn positions(ents: &[(u32, i64)], n: usize) -> Vec<Option<usize>> {
    let mut p = vec![None; n];
    for (i, (k, _)) in ents.iter().enumerate() {
        if let Some(slot) = p.get_mut(*k as usize) {
            if slot.is_none() {
                *slot = Some(i);
            }
        }
    }
    p
}

fn set_ents<'a>(it: impl Iterator<Item = &'a Key>) -> Vec<(u32, i64)> {
    it.map(|k| (k.id, 0)).collect()
}

fn map_ents<'a>(it: impl Iterator<Item = (&'a Key, &'a i64)>) -> Vec<(u32, i64)> {
    it.map(|(k, v)| (k.id, *v)).collect()
}

/// Failed consistency checks, capped.
struct Bad {
    v: Vec<String>,
    step: usize,
}

impl Bad {
    fn flag(&mut self, what: &str) {
        if self.v.len() < 20 {
            self.v.push(format!("{}:{}", self.step, what));
        }
    }

    fn check(&mut self, ok: bool, what: &str) {
        if !ok {
            self.flag(what);
        }
    }
}

// ---------------------------------------------------------------------------------------------
// Primary: SmallMap<Key, i64>
// ---------------------------------------------------------------------------------------------

fn apply_sm(map: &mut SmallMap<Key, i64>, op: &Op, cx: &Cx) -> Ret {
    let hashed = cx.hashed;
    match op {
        Op::Ins(k, v) => opt_val(if hashed {
            map.insert_hashed(cx.hk(*k), *v)
        } else {
            map.insert(cx.key(*k), *v)
        }),
        Op::Insu(k, v) => {
            if hashed {
                let hk = cx.hk(*k);
                if !map.contains_key_hashed(hk.as_ref()) {
                    map.insert_hashed_unique_unchecked(hk, *v);
                }
            } else {
                let key = cx.key(*k);
                if !map.contains_key(&key) {
                    map.insert_unique_unchecked(key, *v);
                }
            }
            Ret::Unit
        }
        Op::Rem(k) => opt_ent(if hashed {
            map.shift_remove_hashed_entry(cx.hk(*k).as_ref())
        } else {
            map.shift_remove_entry(&cx.key(*k))
        }),
        Op::Remi(i) => opt_ent(map.shift_remove_index(*i)),
        Op::Pop => opt_ent(map.pop()),
        Op::Clear => {
            map.clear();
            Ret::Unit
        }
        Op::Retain(mask, d) => {
            map.retain(|k, v| {
                if dropped(mask, k) {
                    false
                } else {
                    *v = v.wrapping_add(*d);
                    true
                }
            });
            Ret::Unit
        }
        Op::Sort => {
            map.sort_keys();
            Ret::Unit
        }
        Op::Rev => {
            map.reverse();
            Ret::Unit
        }
        Op::DropIdx => {
            map.maybe_drop_index();
            Ret::Unit
        }
        Op::Reserve(n) => {
            map.reserve(*n);
            Ret::Unit
        }
        Op::Extend(pairs) => {
            map.extend(pairs.iter().map(|(k, v)| (cx.key(*k), *v)));
            Ret::Unit
        }
        Op::Entry(k, v) => Ret::Val(if hashed {
            *map.entry_hashed(cx.hk(*k)).or_insert(*v)
        } else {
            *map.entry(cx.key(*k)).or_insert(*v)
        }),
        Op::Emod(k, d, v) => Ret::Val(if hashed {
            *map.entry_hashed(cx.hk(*k))
                .and_modify(|x| *x = x.wrapping_add(*d))
                .or_insert(*v)
        } else {
            *map.entry(cx.key(*k))
                .and_modify(|x| *x = x.wrapping_add(*d))
                .or_insert(*v)
        }),
        Op::WithCap(n) => {
            *map = SmallMap::with_capacity(*n);
            Ret::Unit
        }
        Op::Clone => {
            let c = map.clone();
            *map = c;
            Ret::Unit
        }
    }
}

fn idx_string(map: &SmallMap<Key, i64>) -> String {
    match map.verif_index_snapshot() {
        None => "-".to_owned(),
        Some(v) => {
            let mut s = String::with_capacity(v.len() * 4);
            for (n, (i, ok)) in v.iter().enumerate() {
                if n > 0 {
                    s.push(',');
                }
                write!(s, "{}{}", i, if *ok { '+' } else { '!' }).unwrap();
            }
            s
        }
    }
}

fn describe_sm(map: &SmallMap<Key, i64>, ret: &Ret, ents: &[(u32, i64)], cx: &Cx) -> String {
    let idx = idx_string(map);
    step_string(ret, ents, &idx, cx.n(), |id| {
        if cx.hashed {
            let hk = cx.hk(id as u32);
            (
                map.get_index_of_hashed(hk.as_ref()),
                map.get_hashed(hk.as_ref()).copied(),
            )
        } else {
            let k = cx.key(id as u32);
            (map.get_index_of(&k), map.get(&k).copied())
        }
    })
}

fn check_sm(map: &mut SmallMap<Key, i64>, ents: &[(u32, i64)], cx: &Cx, bad: &mut Bad) {
    let len = map.len();
    bad.check(len == ents.len(), "len");
    bad.check(map.is_empty() == (len == 0), "is_empty");
    let pos = positions(ents, cx.n());
    for k in &cx.keys {
        let k = *k;
        let hk = cx.hk(k.id);
        let ip = map.get_index_of(&k);
        let vp = map.get(&k).copied();
        let ih = map.get_index_of_hashed(hk.as_ref());
        let vh = map.get_hashed(hk.as_ref()).copied();
        bad.check(ip == ih && vp == vh, "plain_vs_hashed");
        bad.check(ip.is_some() == vp.is_some(), "index_of_vs_get");
        bad.check(ip == pos[k.id as usize], "index_of_vs_iter");
        if let (Some(i), Some(v)) = (ip, vp) {
            bad.check(ents.get(i) == Some(&(k.id, v)), "get_vs_iter");
        }
        bad.check(map.contains_key(&k) == vp.is_some(), "contains_key");
        bad.check(
            map.contains_key_hashed(hk.as_ref()) == vh.is_some(),
            "contains_key_hashed",
        );
        bad.check(
            map.contains_key_hashed_by_value(hk) == vh.is_some(),
            "contains_key_hashed_by_value",
        );
        let full = |i: Option<usize>, v: Option<i64>| match (i, v) {
            (Some(i), Some(v)) => Some((i, k.id, v)),
            _ => None,
        };
        bad.check(
            map.get_full(&k).map(|(i, kk, v)| (i, kk.id, *v)) == full(ip, vp),
            "get_full",
        );
        bad.check(
            map.get_full_hashed(hk.as_ref())
                .map(|(i, kk, v)| (i, kk.id, *v))
                == full(ih, vh),
            "get_full_hashed",
        );
        bad.check(map.get_hashed_by_value(hk).copied() == vh, "get_hashed_by_value");
        bad.check(
            map.get_index_of_hashed_by_value(hk) == ih,
            "get_index_of_hashed_by_value",
        );
        bad.check(map.get_mut(&k).map(|x| *x) == vp, "get_mut");
        bad.check(
            map.get_mut_hashed(hk.as_ref()).map(|x| *x) == vh,
            "get_mut_hashed",
        );
    }
    for i in 0..=len {
        bad.check(
            map.get_index(i).map(|(k, v)| (k.id, *v)) == ents.get(i).copied(),
            "get_index",
        );
    }
    bad.check(
        map.first().map(|(k, v)| (k.id, *v)) == ents.first().copied(),
        "first",
    );
    bad.check(
        map.last().map(|(k, v)| (k.id, *v)) == ents.last().copied(),
        "last",
    );
    bad.check(
        map.keys().map(|k| k.id).eq(ents.iter().map(|e| e.0)),
        "keys",
    );
    bad.check(map.values().copied().eq(ents.iter().map(|e| e.1)), "values");
    let mut nh = 0;
    let mut hashes_ok = true;
    let mut hashed_ents_ok = true;
    for (hk, v) in map.iter_hashed() {
        let key: &Key = hk.key();
        if cx.keys.get(key.id as usize).map(|u| u.h) != Some(hk.hash().get()) {
            hashes_ok = false;
        }
        if ents.get(nh) != Some(&(key.id, *v)) {
            hashed_ents_ok = false;
        }
        nh += 1;
    }
    bad.check(hashes_ok, "iter_hashed_hash");
    bad.check(hashed_ents_ok && nh == ents.len(), "iter_hashed_entries");
    let c = map.clone();
    bad.check(map.eq_ordered(&c), "eq_ordered_clone");
    bad.check(*map == c, "eq_clone");
    bad.check(map.capacity() >= len, "capacity");
}

// ---------------------------------------------------------------------------------------------
// Secondary containers
// ---------------------------------------------------------------------------------------------

fn apply_set(s: &mut SmallSet<Key>, op: &Op, cx: &Cx) -> Ret {
    match op {
        Op::Ins(k, _) => inserted(s.insert(cx.key(*k))),
        Op::Insu(k, _) => {
            let key = cx.key(*k);
            if !s.contains(&key) {
                s.insert_unique_unchecked(key);
            }
            Ret::Unit
        }
        Op::Rem(k) => opt_key(s.take(&cx.key(*k))),
        Op::Remi(i) => opt_key(s.shift_remove_index(*i)),
        Op::Pop => opt_key(s.pop()),
        Op::Clear => {
            s.clear();
            Ret::Unit
        }
        Op::Retain(mask, _) => {
            s.retain(|k| !dropped(mask, k));
            Ret::Unit
        }
        Op::Sort => {
            s.sort();
            Ret::Unit
        }
        Op::Rev => {
            s.reverse();
            Ret::Unit
        }
        Op::DropIdx => Ret::Unsup,
        Op::Reserve(n) => {
            s.reserve(*n);
            Ret::Unit
        }
        Op::Extend(pairs) => {
            s.extend(pairs.iter().map(|(k, _)| cx.key(*k)));
            Ret::Unit
        }
        Op::Entry(k, _) | Op::Emod(k, _, _) => {
            let _: &Key = s.get_or_insert(cx.key(*k));
            Ret::Val(0)
        }
        Op::WithCap(n) => {
            *s = SmallSet::with_capacity(*n);
            Ret::Unit
        }
        Op::Clone => {
            let c = s.clone();
            *s = c;
            Ret::Unit
        }
    }
}

fn describe_set(s: &SmallSet<Key>, ret: &Ret, cx: &Cx, bad: &mut Bad) -> String {
    let ents = set_ents(s.iter());
    let len = s.len();
    bad.check(len == ents.len(), "set.len");
    bad.check(s.is_empty() == (len == 0), "set.is_empty");
    let pos = positions(&ents, cx.n());
    for k in &cx.keys {
        let i = s.get_index_of(k);
        bad.check(i == pos[k.id as usize], "set.get_index_of");
        bad.check(s.contains(k) == i.is_some(), "set.contains");
        bad.check(
            s.get(k).map(|x| x.id) == i.map(|_| k.id),
            "set.get",
        );
    }
    for i in 0..=len {
        bad.check(
            s.get_index(i).map(|k| k.id) == ents.get(i).map(|e| e.0),
            "set.get_index",
        );
    }
    bad.check(
        s.first().map(|k| k.id) == ents.first().map(|e| e.0),
        "set.first",
    );
    bad.check(
        s.last().map(|k| k.id) == ents.last().map(|e| e.0),
        "set.last",
    );
    step_string(ret, &ents, "~", cx.n(), |id| {
        let i = s.get_index_of(&cx.keys[id]);
        (i, i.map(|_| 0))
    })
}

fn apply_omap(m: &mut OrderedMap<Key, i64>, op: &Op, cx: &Cx) -> Ret {
    match op {
        Op::Ins(k, v) => opt_val(m.insert(cx.key(*k), *v)),
        Op::Rem(k) => match m.remove(&cx.key(*k)) {
            Some(v) => Ret::Ent(*k, v),
            None => Ret::None,
        },
        Op::Clear => {
            m.clear();
            Ret::Unit
        }
        Op::Sort => {
            m.sort_keys();
            Ret::Unit
        }
        Op::Extend(pairs) => {
            m.extend(pairs.iter().map(|(k, v)| (cx.key(*k), *v)));
            Ret::Unit
        }
        Op::Entry(k, v) => Ret::Val(*m.entry(cx.key(*k)).or_insert(*v)),
        Op::Emod(k, d, v) => Ret::Val(
            *m.entry(cx.key(*k))
                .and_modify(|x| *x = x.wrapping_add(*d))
                .or_insert(*v),
        ),
        Op::WithCap(n) => {
            *m = OrderedMap::with_capacity(*n);
            Ret::Unit
        }
        Op::Clone => {
            let c = m.clone();
            *m = c;
            Ret::Unit
        }
        Op::Insu(..)
        | Op::Remi(_)
        | Op::Pop
        | Op::Retain(..)
        | Op::Rev
        | Op::DropIdx
        | Op::Reserve(_) => Ret::Unsup,
    }
}

fn describe_omap(m: &OrderedMap<Key, i64>, ret: &Ret, cx: &Cx, bad: &mut Bad) -> String {
    let ents = map_ents(m.iter());
    let len = m.len();
    bad.check(len == ents.len(), "omap.len");
    bad.check(m.is_empty() == (len == 0), "omap.is_empty");
    let pos = positions(&ents, cx.n());
    for k in &cx.keys {
        let i = m.get_index_of(k);
        let v = m.get(k).copied();
        bad.check(i == pos[k.id as usize], "omap.get_index_of");
        bad.check(i.is_some() == v.is_some(), "omap.get");
        if let (Some(i), Some(v)) = (i, v) {
            bad.check(ents.get(i) == Some(&(k.id, v)), "omap.get_vs_iter");
        }
        bad.check(m.contains_key(k) == v.is_some(), "omap.contains_key");
    }
    for i in 0..=len {
        bad.check(
            m.get_index(i).map(|(k, v)| (k.id, *v)) == ents.get(i).copied(),
            "omap.get_index",
        );
    }
    bad.check(
        m.keys().map(|k| k.id).eq(ents.iter().map(|e| e.0)),
        "omap.keys",
    );
    bad.check(
        m.values().copied().eq(ents.iter().map(|e| e.1)),
        "omap.values",
    );
    bad.check(*m == m.clone(), "omap.eq_clone");
    step_string(ret, &ents, "~", cx.n(), |id| {
        let k = &cx.keys[id];
        (m.get_index_of(k), m.get(k).copied())
    })
}

fn apply_oset(s: &mut OrderedSet<Key>, op: &Op, cx: &Cx) -> Ret {
    match op {
        Op::Ins(k, _) => inserted(s.insert(cx.key(*k))),
        Op::Insu(k, _) => {
            let key = cx.key(*k);
            if !s.contains(&key) {
                s.insert_unique_unchecked(key);
            }
            Ret::Unit
        }
        Op::Rem(k) => opt_key(s.take(&cx.key(*k))),
        Op::Clear => {
            s.clear();
            Ret::Unit
        }
        Op::Sort => {
            s.sort();
            Ret::Unit
        }
        Op::Rev => {
            s.reverse();
            Ret::Unit
        }
        Op::Extend(pairs) => {
            s.extend(pairs.iter().map(|(k, _)| cx.key(*k)));
            Ret::Unit
        }
        Op::Entry(k, _) => {
            let _ = s.try_insert(cx.key(*k));
            Ret::Val(0)
        }
        Op::WithCap(n) => {
            *s = OrderedSet::with_capacity(*n);
            Ret::Unit
        }
        Op::Clone => {
            let c = s.clone();
            *s = c;
            Ret::Unit
        }
        Op::Remi(_)
        | Op::Pop
        | Op::Retain(..)
        | Op::DropIdx
        | Op::Reserve(_)
        | Op::Emod(..) => Ret::Unsup,
    }
}

fn describe_oset(s: &OrderedSet<Key>, ret: &Ret, cx: &Cx, bad: &mut Bad) -> String {
    let ents = set_ents(s.iter());
    let len = s.len();
    bad.check(len == ents.len(), "oset.len");
    bad.check(s.is_empty() == (len == 0), "oset.is_empty");
    let pos = positions(&ents, cx.n());
    for k in &cx.keys {
        let i = s.get_index_of(k);
        bad.check(i == pos[k.id as usize], "oset.get_index_of");
        bad.check(s.contains(k) == i.is_some(), "oset.contains");
        bad.check(
            s.get(k).map(|x| x.id) == i.map(|_| k.id),
            "oset.get",
        );
    }
    for i in 0..=len {
        bad.check(
            s.get_index(i).map(|k| k.id) == ents.get(i).map(|e| e.0),
            "oset.get_index",
        );
    }
    bad.check(
        s.first().map(|k| k.id) == ents.first().map(|e| e.0),
        "oset.first",
    );
    bad.check(
        s.last().map(|k| k.id) == ents.last().map(|e| e.0),
        "oset.last",
    );
    step_string(ret, &ents, "~", cx.n(), |id| {
        let i = s.get_index_of(&cx.keys[id]);
        (i, i.map(|_| 0))
    })
}

fn describe_smap(m: &SortedMap<Key, i64>, cx: &Cx, bad: &mut Bad) -> String {
    let ents = map_ents(m.iter());
    let len = m.len();
    bad.check(len == ents.len(), "smap.len");
    bad.check(m.is_empty() == (len == 0), "smap.is_empty");
    let pos = positions(&ents, cx.n());
    for k in &cx.keys {
        let p = pos[k.id as usize];
        bad.check(m.contains_key(k) == p.is_some(), "smap.contains_key");
        bad.check(
            m.get(k).copied() == p.map(|i| ents[i].1),
            "smap.get",
        );
    }
    step_string(&Ret::Unit, &ents, "~", cx.n(), |id| {
        (pos[id], m.get(&cx.keys[id]).copied())
    })
}

fn describe_sset(s: &SortedSet<Key>, cx: &Cx, bad: &mut Bad) -> String {
    let ents = set_ents(s.iter());
    let len = s.len();
    bad.check(len == ents.len(), "sset.len");
    bad.check(s.is_empty() == (len == 0), "sset.is_empty");
    let pos = positions(&ents, cx.n());
    for k in &cx.keys {
        let p = pos[k.id as usize];
        bad.check(s.contains(k) == p.is_some(), "sset.contains");
        bad.check(s.get(k).map(|x| x.id) == p.map(|_| k.id), "sset.get");
    }
    for i in 0..=len {
        bad.check(
            s.get_index(i).map(|k| k.id) == ents.get(i).map(|e| e.0),
            "sset.get_index",
        );
    }
    step_string(&Ret::Unit, &ents, "~", cx.n(), |id| {
        (pos[id], s.get(&cx.keys[id]).map(|_| 0))
    })
}

fn apply_umap(m: &mut UnorderedMap<Key, i64>, op: &Op, cx: &Cx) -> Ret {
    match op {
        Op::Ins(k, v) => opt_val(m.insert(cx.key(*k), *v)),
        Op::Rem(k) => match m.remove(&cx.key(*k)) {
            Some(v) => Ret::Ent(*k, v),
            None => Ret::None,
        },
        Op::Retain(mask, d) => {
            m.retain(|k, v| {
                if dropped(mask, k) {
                    false
                } else {
                    *v = v.wrapping_add(*d);
                    true
                }
            });
            Ret::Unit
        }
        Op::Entry(k, v) => match m.entry(cx.key(*k)) {
            unordered_map::Entry::Occupied(e) => Ret::Val(*e.get()),
            unordered_map::Entry::Vacant(e) => {
                e.insert(*v);
                Ret::Val(*v)
            }
        },
        Op::Emod(k, d, v) => match m.entry(cx.key(*k)) {
            unordered_map::Entry::Occupied(mut e) => {
                let x = e.get_mut();
                *x = x.wrapping_add(*d);
                Ret::Val(*x)
            }
            unordered_map::Entry::Vacant(e) => {
                e.insert(*v);
                Ret::Val(*v)
            }
        },
        Op::Clear => {
            m.clear();
            Ret::Unit
        }
        Op::Extend(pairs) => {
            for (k, v) in pairs {
                m.insert(cx.key(*k), *v);
            }
            Ret::Unit
        }
        Op::WithCap(n) => {
            *m = UnorderedMap::with_capacity(*n);
            Ret::Unit
        }
        Op::Clone => {
            let c = m.clone();
            *m = c;
            Ret::Unit
        }
        Op::Insu(..)
        | Op::Remi(_)
        | Op::Pop
        | Op::Sort
        | Op::Rev
        | Op::DropIdx
        | Op::Reserve(_) => Ret::Unsup,
    }
}

fn describe_umap(m: &UnorderedMap<Key, i64>, ret: &Ret, cx: &Cx, bad: &mut Bad) -> String {
    let ents: Vec<(u32, i64)> = m
        .entries_sorted()
        .into_iter()
        .map(|(k, v)| (k.id, *v))
        .collect();
    let len = m.len();
    bad.check(len == ents.len(), "umap.len");
    bad.check(m.is_empty() == (len == 0), "umap.is_empty");
    let pos = positions(&ents, cx.n());
    for k in &cx.keys {
        let p = pos[k.id as usize];
        bad.check(m.contains_key(k) == p.is_some(), "umap.contains_key");
        bad.check(m.get(k).copied() == p.map(|i| ents[i].1), "umap.get");
    }
    step_string(ret, &ents, "~", cx.n(), |id| {
        (pos[id], m.get(&cx.keys[id]).copied())
    })
}

fn apply_uset(s: &mut UnorderedSet<Key>, op: &Op, cx: &Cx) -> Ret {
    match op {
        Op::Ins(k, _) => inserted(s.insert(cx.key(*k))),
        Op::Rem(k) => match s.raw_entry_mut().from_entry(&cx.key(*k)) {
            unordered_set::RawEntryMut::Occupied(e) => Ret::Ent(e.remove().id, 0),
            unordered_set::RawEntryMut::Vacant(_) => Ret::None,
        },
        Op::Clear => {
            s.clear();
            Ret::Unit
        }
        Op::Extend(pairs) => {
            for (k, _) in pairs {
                s.insert(cx.key(*k));
            }
            Ret::Unit
        }
        Op::Entry(k, _) => {
            s.insert(cx.key(*k));
            Ret::Val(0)
        }
        Op::WithCap(n) => {
            *s = UnorderedSet::with_capacity(*n);
            Ret::Unit
        }
        Op::Clone => {
            let c = s.clone();
            *s = c;
            Ret::Unit
        }
        Op::Insu(..)
        | Op::Remi(_)
        | Op::Pop
        | Op::Retain(..)
        | Op::Sort
        | Op::Rev
        | Op::DropIdx
        | Op::Reserve(_)
        | Op::Emod(..) => Ret::Unsup,
    }
}

fn describe_uset(s: &UnorderedSet<Key>, ret: &Ret, cx: &Cx, bad: &mut Bad) -> String {
    let ents = set_ents(s.entries_sorted().into_iter());
    let len = s.len();
    bad.check(len == ents.len(), "uset.len");
    bad.check(s.is_empty() == (len == 0), "uset.is_empty");
    let pos = positions(&ents, cx.n());
    for k in &cx.keys {
        bad.check(
            s.contains(k) == pos[k.id as usize].is_some(),
            "uset.contains",
        );
    }
    step_string(ret, &ents, "~", cx.n(), |id| {
        (pos[id], s.contains(&cx.keys[id]).then_some(0))
    })
}

fn apply_vec2(v2: &mut Vec2<Key, i64>, op: &Op, cx: &Cx) -> Ret {
    match op {
        Op::Ins(k, v) => {
            v2.push(cx.key(*k), *v);
            Ret::Unit
        }
        Op::Remi(i) => {
            if *i < v2.len() {
                opt_ent(Some(v2.remove(*i)))
            } else {
                Ret::None
            }
        }
        Op::Pop => opt_ent(v2.pop()),
        Op::Clear => {
            v2.clear();
            Ret::Unit
        }
        Op::Retain(mask, d) => {
            v2.retain(|a, b| {
                if dropped(mask, a) {
                    false
                } else {
                    *b = b.wrapping_add(*d);
                    true
                }
            });
            Ret::Unit
        }
        Op::Sort => {
            v2.sort_by(|x, y| x.0.id.cmp(&y.0.id));
            Ret::Unit
        }
        Op::Reserve(n) => {
            v2.reserve(*n);
            Ret::Unit
        }
        Op::DropIdx => {
            v2.shrink_to_fit();
            Ret::Unit
        }
        Op::WithCap(n) => {
            *v2 = Vec2::with_capacity(*n);
            Ret::Unit
        }
        Op::Clone => {
            let c = v2.clone();
            *v2 = c;
            Ret::Unit
        }
        Op::Extend(pairs) => {
            v2.extend(pairs.iter().map(|(k, v)| (cx.key(*k), *v)));
            Ret::Unit
        }
        Op::Insu(..) | Op::Rem(_) | Op::Rev | Op::Entry(..) | Op::Emod(..) => Ret::Unsup,
    }
}

fn describe_vec2(v2: &Vec2<Key, i64>, ret: &Ret, cx: &Cx, bad: &mut Bad) -> String {
    let ents = map_ents(v2.iter());
    let len = v2.len();
    bad.check(len == ents.len(), "vec2.len");
    bad.check(v2.is_empty() == (len == 0), "vec2.is_empty");
    bad.check(v2.capacity() >= len, "vec2.capacity");
    for i in 0..=len {
        bad.check(
            v2.get(i).map(|(k, v)| (k.id, *v)) == ents.get(i).copied(),
            "vec2.get",
        );
    }
    bad.check(
        v2.first().map(|(k, v)| (k.id, *v)) == ents.first().copied(),
        "vec2.first",
    );
    bad.check(
        v2.last().map(|(k, v)| (k.id, *v)) == ents.last().copied(),
        "vec2.last",
    );
    bad.check(
        v2.clone()
            .into_iter()
            .map(|(k, v)| (k.id, v))
            .eq(ents.iter().copied()),
        "vec2.into_iter",
    );
    let pos = positions(&ents, cx.n());
    step_string(ret, &ents, "~", cx.n(), |id| {
        let p = pos[id];
        (p, p.and_then(|i| v2.get(i)).map(|(_, v)| *v))
    })
}

#[derive(Default)]
struct Others {
    set: SmallSet<Key>,
    omap: OrderedMap<Key, i64>,
    oset: OrderedSet<Key>,
    umap: UnorderedMap<Key, i64>,
    uset: UnorderedSet<Key>,
    vec2: Vec2<Key, i64>,
    set_s: Vec<String>,
    omap_s: Vec<String>,
    oset_s: Vec<String>,
    smap_s: Vec<String>,
    sset_s: Vec<String>,
    umap_s: Vec<String>,
    uset_s: Vec<String>,
    vec2_s: Vec<String>,
}

impl Others {
    fn step(&mut self, op: &Op, primary: &SmallMap<Key, i64>, cx: &Cx, bad: &mut Bad) {
        let r = apply_set(&mut self.set, op, cx);
        self.set_s.push(describe_set(&self.set, &r, cx, bad));
        let r = apply_omap(&mut self.omap, op, cx);
        self.omap_s.push(describe_omap(&self.omap, &r, cx, bad));
        let r = apply_oset(&mut self.oset, op, cx);
        self.oset_s.push(describe_oset(&self.oset, &r, cx, bad));
        let smap: SortedMap<Key, i64> = SortedMap::from(primary.clone());
        self.smap_s.push(describe_smap(&smap, cx, bad));
        let sset: SortedSet<Key> = SortedSet::from_iter(primary.keys().copied());
        self.sset_s.push(describe_sset(&sset, cx, bad));
        let r = apply_umap(&mut self.umap, op, cx);
        self.umap_s.push(describe_umap(&self.umap, &r, cx, bad));
        let r = apply_uset(&mut self.uset, op, cx);
        self.uset_s.push(describe_uset(&self.uset, &r, cx, bad));
        let r = apply_vec2(&mut self.vec2, op, cx);
        self.vec2_s.push(describe_vec2(&self.vec2, &r, cx, bad));
    }
}

// ---------------------------------------------------------------------------------------------
// Driver
// ---------------------------------------------------------------------------------------------

fn main() {
    run_cases(|c| {
        let keys: Vec<Key> = c["hashes"]
            .as_array()
            .expect("hashes")
            .iter()
            .enumerate()
            .map(|(i, h)| Key {
                id: i as u32,
                h: u32::try_from(h.as_u64().expect("hash")).expect("hash u32"),
            })
            .collect();
        let hashed = match c["api"].as_str() {
            Some("hashed") => true,
            Some("plain") => false,
            other => panic!("bad api {:?}", other),
        };
        let cx = Cx { keys, hashed };
        let hash_ok = cx.keys.iter().all(|k| {
            StarlarkHashValue::new(k).get() == k.h && Hashed::new(*k).hash().get() == k.h
        });
        let with_others = c["others"].as_bool().unwrap_or(false);
        let ops: Vec<Op> = c["ops"]
            .as_array()
            .expect("ops")
            .iter()
            .map(|o| parse_op(o, cx.n()))
            .collect();

        let mut bad = Bad {
            v: Vec::new(),
            step: 0,
        };
        let mut map: SmallMap<Key, i64> = SmallMap::new();
        let mut sm: Vec<String> = Vec::with_capacity(ops.len());
        let mut others = Others::default();
        for (n, op) in ops.iter().enumerate() {
            bad.step = n;
            let ret = apply_sm(&mut map, op, &cx);
            let ents = map_ents(map.iter());
            sm.push(describe_sm(&map, &ret, &ents, &cx));
            check_sm(&mut map, &ents, &cx, &mut bad);
            if with_others {
                others.step(op, &map, &cx, &mut bad);
            }
        }

        let mut r = json!({"id": c["id"], "hash_ok": hash_ok, "bad": bad.v, "sm": sm});
        if with_others {
            r["set"] = json!(others.set_s);
            r["omap"] = json!(others.omap_s);
            r["oset"] = json!(others.oset_s);
            r["smap"] = json!(others.smap_s);
            r["sset"] = json!(others.sset_s);
            r["umap"] = json!(others.umap_s);
            r["uset"] = json!(others.uset_s);
            r["vec2"] = json!(others.vec2_s);
        }
        r
    });
}
