//! Heap-lifetime history interpreter.
//!
//! `heaps <cases.jsonl> <out.jsonl>`: one JSON case per input line, exactly one JSON result line
//! per case, written and flushed right after the case (a crash of the process loses at most the
//! case that crashed; `START <id>` is printed to stderr before each case).
//!
//! Arena poisoning is switched on for the whole process: every freed arena is overwritten with
//! 0xDB, so a value that outlives its heap reads as garbage (different encoding) or crashes.
//!
//! case   = {"id": int, "workers": 1..4, "ops": [op, ...]}
//! result = {"id":.., "steps":[step,...], "nviol": total, "checked": total}
//!        | {"id":.., "panic": "msg", "at": op index}          (Rust panic on main or a worker)
//! step   = {"i": op index, "op": "..", "err": null|"..", "checked": n, "viol": [..], "refs": {..}}
//!
//! Objects are named by small integers (`rid`) chosen by the generator. Main holds tables of
//! frozen modules, handles (`OwnedFrozen<Value>`), globals, globals builders; an open module
//! lives inside `Module::with_temp_heap` on a worker thread until `freeze`/`abandon`.
//!
//! ops:
//!   {"op":"open","m":rid,"w":k}                       worker k (idle) hosts open module m
//!   {"op":"eval","m":rid,"g":rid|null,"src":"..","mods":{"NAME":rid,..},"gc":n}
//!   {"op":"import","m":rid,"f":rid}                   module.import_public_symbols(frozen f)
//!   {"op":"freeze","m":rid} / {"op":"abandon","m":rid}
//!   {"op":"get_owned","f":rid,"name":"x","k":rid}     handle k = frozen_f.get_owned(name)
//!   {"op":"map","k":rid,"k2":rid,"path":[0,"key",1]}  handle k2 = k.clone().maybe_map(index path)
//!   {"op":"add_to_heap","k":rid,"m":rid,"name":"h_x","mode":"ref"|"owned"|"edge"}
//!   {"op":"new_builder","b":rid} {"op":"add_to_builder","k":rid,"b":rid,"name":"g_x"} {"op":"build","b":rid}
//!   {"op":"from_globals","g":rid,"f":rid}
//!   carriers = frozen heaps in which NOTHING is allocated, they only record references:
//!   {"op":"rehome","k":rid,"k2":rid,"mode":"build"|"build_edge"|"heap"|"heap_named","consume":bool}
//!        handle k2 = the value of handle k moved into a fresh frozen heap: `OwnedFrozen::build` with
//!        `add_to_frozen_heap` / with `frozen_edge`, or `FrozenHeap::new` + `add_reference` + `into_ref[_named]`
//!        + `unchecked_new`; `consume` drops handle k afterwards
//!   {"op":"new_carrier","b":rid,"kind":"heap"|"globals"}     `FrozenHeap::new()` / `GlobalsBuilder::new()` (no stdlib)
//!   {"op":"add_to_carrier","k":rid,"b":rid,"name":"a","mode":"ref"|"edge"|"raw"}   (globals: 1-char names only,
//!        so that `build` allocates nothing)
//!   {"op":"seal_carrier","b":rid}      heap -> handle b over the last value added; globals -> Globals b
//!   {"op":"clone","r":rid,"as":rid}                   frozen module / handle / globals
//!   {"op":"drop","r":rid,"where":"main"|<worker index>|"fresh"}
//! A malformed op (missing rid, wrong kind, busy worker...) gives `"err":"bad-op ..."` and does nothing.
//!
//! After every op `check_all` re-encodes every value reachable from every held object and compares
//! with the encoding recorded the first time (functions are also called with the argument 7), and
//! reports the real reference graph among the sealed heaps created by the case (`refs`): `r<rid>` = labels of the
//! heaps referenced by the heap of frozen module / globals rid, `k<rid>` = label of the owner of handle rid,
//! `o<rid>` = labels of the heaps referenced by that owner.

use std::collections::BTreeMap;
use std::collections::HashMap;
use std::fs::File;
use std::hash::Hash;
use std::hash::Hasher;
use std::io::BufRead;
use std::io::BufReader;
use std::io::Write;
use std::panic::AssertUnwindSafe;
use std::panic::catch_unwind;
use std::sync::OnceLock;
use std::sync::atomic::AtomicUsize;
use std::sync::atomic::Ordering;
use std::sync::mpsc::Receiver;
use std::sync::mpsc::Sender;
use std::sync::mpsc::channel;
use std::thread::JoinHandle;
use std::time::Duration;

use dupe::Dupe;
use serde_json::Value as J;
use serde_json::json;
use starlark::PrintHandler;
use starlark::environment::FrozenModule;
use starlark::environment::Globals;
use starlark::environment::GlobalsBuilder;
use starlark::environment::Module;
use starlark::eval::Evaluator;
use starlark::eval::FileLoader;
use starlark::syntax::AstModule;
use starlark::values::FrozenHeap;
use starlark::values::FrozenHeapName;
use starlark::values::FrozenHeapRef;
use starlark::values::FrozenValue;
use starlark::values::OwnedFrozen;
use starlark::values::Value;
use starlark::values::dict::DictRef;
use starlark::values::list::ListRef;
use starlark::values::structs::StructRef;
use starlark::values::tuple::TupleRef;
use sv_harness::dialect;
use sv_harness::enc;
use sv_harness::harness_globals;

type Handle = OwnedFrozen<Value<'static>>;

/// How long main waits for a worker's reply before declaring it lost.
const REPLY_TIMEOUT: Duration = Duration::from_secs(300);
/// Strings in violation reports and error messages are cut to this many chars.
const TRUNC: usize = 300;

// ---------------------------------------------------------------------------------------------
// small helpers
// ---------------------------------------------------------------------------------------------

fn trunc(s: &str) -> String {
    if s.chars().count() <= TRUNC {
        s.to_owned()
    } else {
        s.chars().take(TRUNC).collect()
    }
}

fn first_line(s: &str) -> String {
    trunc(s.lines().next().unwrap_or(""))
}

fn panic_msg(e: &(dyn std::any::Any + Send)) -> String {
    if let Some(s) = e.downcast_ref::<String>() {
        s.clone()
    } else if let Some(s) = e.downcast_ref::<&str>() {
        (*s).to_owned()
    } else {
        "?".to_owned()
    }
}

/// The process-wide default globals (`"g": null`), built once.
fn default_globals() -> &'static Globals {
    static G: OnceLock<Globals> = OnceLock::new();
    G.get_or_init(sv_harness::globals)
}

/// Same contents as `sv_harness::globals()`, but left open.
fn new_builder() -> GlobalsBuilder {
    use starlark::environment::LibraryExtension::*;
    let mut b = GlobalsBuilder::extended_by(&[
        StructType, RecordType, EnumType, NamespaceType, Map, Filter, Partial, Debug, Print, Pprint,
        Pstr, Prepr, Json, Typing, Internal, CallStack, SetType,
    ]);
    harness_globals(&mut b);
    b
}

struct NoPrint;
impl PrintHandler for NoPrint {
    fn println(&self, _text: &str) -> starlark::Result<()> {
        Ok(())
    }
}

/// Records the `usize` fed by `ptr::hash`: `FrozenHeapRef: Hash` hashes the heap address.
#[derive(Default)]
struct AddrHasher(usize);
impl Hasher for AddrHasher {
    fn finish(&self) -> u64 {
        self.0 as u64
    }
    fn write(&mut self, bytes: &[u8]) {
        let mut b = [0u8; std::mem::size_of::<usize>()];
        for (i, x) in bytes.iter().take(b.len()).enumerate() {
            b[i] = *x;
        }
        self.0 = usize::from_ne_bytes(b);
    }
    fn write_usize(&mut self, i: usize) {
        self.0 = i;
    }
}

/// Address of the sealed heap behind a ref; 0 for the empty ref.
fn heap_addr(h: &FrozenHeapRef) -> usize {
    let mut s = AddrHasher::default();
    h.hash(&mut s);
    s.0
}

/// Functions are called unless their name marks them as standard-library re-exports.
fn should_call(name: &str) -> bool {
    !name.starts_with("g_std")
}

/// `=>enc(result)` / `=>ERR:first line` of calling `f(7)` with an evaluator on `module`;
/// `f` must be kept alive by `module`'s heap.
fn call_suffix<'v>(module: &Module<'v>, f: Value<'v>) -> String {
    let mut ev = Evaluator::new(module);
    ev.set_print_handler(&NoPrint);
    let arg = module.heap().alloc(7);
    match ev.eval_function(f, &[arg], &[]) {
        Ok(v) => format!("=>{}", enc(v)),
        Err(e) => format!("=>ERR:{}", first_line(&format!("{}", e.without_diagnostic()))),
    }
}

/// Encoding of an owned frozen value, plus the call result when it is a function.
fn observe_owned(o: &Handle, call: bool) -> String {
    let (mut e, is_fn) = o.by_ref(|v| (enc(*v), v.get_type() == "function"));
    if is_fn && call {
        let s = Module::with_temp_heap(|tm| {
            let f = o.as_ref().add_to_heap(tm.heap());
            call_suffix(&tm, f)
        });
        e.push_str(&s);
    }
    e
}

/// Encoding of a value of a held `Globals`.
fn observe_global(g: &Globals, fv: FrozenValue, call: bool) -> String {
    let v: Value = fv.to_value();
    let mut e = enc(v);
    if v.get_type() == "function" && call {
        let s = Module::with_temp_heap(|tm| {
            tm.heap().add_reference(g.heap());
            call_suffix(&tm, fv.to_value())
        });
        e.push_str(&s);
    }
    e
}

/// `(name, encoding)` of every public name of an open module, sorted by name.
fn snapshot<'v>(module: &Module<'v>) -> Vec<(String, String)> {
    let mut names: Vec<String> = module.names().map(|s| s.as_str().to_owned()).collect();
    names.sort();
    let mut out = Vec::new();
    for n in names {
        if let Some(v) = module.get(&n) {
            let mut e = enc(v);
            if v.get_type() == "function" && should_call(&n) {
                e.push_str(&call_suffix(module, v));
            }
            out.push((n, e));
        }
    }
    out
}

/// The value of a handle as an unbranded frozen value (everything a handle holds is frozen).
fn frozen_of_handle(h: &Handle) -> FrozenValue {
    h.by_ref(|v| v.unpack_frozen().expect("value of a frozen heap is frozen"))
}

/// Record "`heap` depends on the owner of `h`" through one of the public routes; returns the value.
fn add_handle_to_frozen_heap(h: &Handle, heap: &FrozenHeap, mode: &str) -> Result<FrozenValue, String> {
    match mode {
        "ref" => Ok(h
            .as_ref()
            .add_to_frozen_heap(heap)
            .unpack_frozen()
            .expect("value of a frozen heap is frozen")),
        "edge" => Ok(h.by_ref_with_reconstructor(|v, r| {
            r.frozen_edge(heap)
                .rebrand(*v)
                .unpack_frozen()
                .expect("value of a frozen heap is frozen")
        })),
        "raw" => {
            heap.add_reference(h.owner());
            Ok(frozen_of_handle(h))
        }
        x => Err(format!("bad-op mode `{}`", x)),
    }
}

/// Move the value of a handle into a FRESH frozen heap in which nothing is allocated.
fn rehome(h: &Handle, mode: &str, name: &str) -> Result<Handle, String> {
    match mode {
        "build" => Ok(OwnedFrozen::<Value<'static>>::build(
            FrozenHeapName::user(name),
            |heap: &FrozenHeap| {
                let v: FrozenValue = h
                    .as_ref()
                    .add_to_frozen_heap(heap)
                    .unpack_frozen()
                    .expect("value of a frozen heap is frozen");
                v.to_value()
            },
        )),
        "build_edge" => Ok(OwnedFrozen::<Value<'static>>::build(
            FrozenHeapName::user(name),
            |heap: &FrozenHeap| {
                let v: FrozenValue = h.by_ref_with_reconstructor(|v, r| {
                    r.frozen_edge(heap)
                        .rebrand(*v)
                        .unpack_frozen()
                        .expect("value of a frozen heap is frozen")
                });
                v.to_value()
            },
        )),
        "heap" | "heap_named" => {
            let heap = FrozenHeap::new();
            heap.add_reference(h.owner());
            let fv = frozen_of_handle(h);
            let r = if mode == "heap" {
                heap.into_ref()
            } else {
                heap.into_ref_named(FrozenHeapName::user(name))
            };
            // SAFETY (contract of unchecked_new): `r` references the owner of the value
            Ok(unsafe { OwnedFrozen::<Value<'static>>::unchecked_new(r, fv.to_value()) })
        }
        x => Err(format!("bad-op mode `{}`", x)),
    }
}

/// An open heap that only carries references.
enum Carrier {
    Heap {
        heap: FrozenHeap,
        /// last value added and the baseline encoding of the handle it came from
        last: Option<(FrozenValue, Option<String>)>,
    },
    Globals {
        builder: GlobalsBuilder,
        baselines: Vec<(String, Option<String>)>,
    },
}

enum PathElem {
    Idx(usize),
    Key(String),
}

/// Index lists/tuples by integer, dicts/structs by string key.
fn walk<'v>(mut v: Value<'v>, path: &[PathElem]) -> Option<Value<'v>> {
    for p in path {
        v = match p {
            PathElem::Idx(i) => {
                if let Some(l) = ListRef::from_value(v) {
                    *l.content().get(*i)?
                } else if let Some(t) = TupleRef::from_value(v) {
                    *t.content().get(*i)?
                } else {
                    return None;
                }
            }
            PathElem::Key(k) => {
                if let Some(d) = DictRef::from_value(v) {
                    d.get_str(k)?
                } else if let Some(s) = StructRef::from_value(v) {
                    s.iter().find(|(n, _)| n.as_str() == k.as_str())?.1
                } else {
                    return None;
                }
            }
        };
    }
    Some(v)
}

// ---------------------------------------------------------------------------------------------
// worker threads
// ---------------------------------------------------------------------------------------------

#[derive(Clone, Copy)]
enum Mode {
    Ref,
    Owned,
    Edge,
}

enum Cmd {
    /// idle only: enter `Module::with_temp_heap` and serve the module commands
    Open,
    Eval {
        file: String,
        src: String,
        globals: Option<Globals>,
        mods: Vec<(String, FrozenModule)>,
        gc: u64,
    },
    Import(FrozenModule),
    AddToHeap {
        h: Handle,
        name: String,
        mode: Mode,
    },
    Snapshot,
    /// idle or hosting: drop the object on this thread
    DropHere(Box<dyn Send>),
    Freeze,
    Abandon,
    /// idle only
    Quit,
}

enum Reply {
    Ok,
    Err(String),
    Snapshot(Vec<(String, String)>),
    Frozen(FrozenModule),
    Panic(String),
}

struct MapLoader(Vec<(String, FrozenModule)>);
impl FileLoader for MapLoader {
    fn load(&self, path: &str) -> starlark::Result<FrozenModule> {
        match self.0.iter().find(|(n, _)| n == path) {
            Some((_, m)) => Ok(m.dupe()),
            None => Err(starlark::Error::new_other(anyhow::anyhow!(
                "loader does not know the module `{}`",
                path
            ))),
        }
    }
}

/// Exactly one reply is sent for every command received (the reply to `Open` is sent on entering
/// the module; the reply to `Freeze`/`Abandon` after the module and its heap are gone; a panic
/// while serving a module command unwinds out of the module and is reported as the reply).
fn worker_main(rx: Receiver<Cmd>, tx: Sender<Reply>) {
    loop {
        let cmd = match rx.recv() {
            Ok(c) => c,
            Err(_) => return,
        };
        let reply = match cmd {
            Cmd::Quit => {
                let _ = tx.send(Reply::Ok);
                return;
            }
            Cmd::DropHere(b) => match catch_unwind(AssertUnwindSafe(move || drop(b))) {
                Ok(()) => Reply::Ok,
                Err(e) => Reply::Panic(panic_msg(&*e)),
            },
            Cmd::Open => match catch_unwind(AssertUnwindSafe(|| host_module(&rx, &tx))) {
                Ok(r) => r,
                Err(e) => {
                    starlark::verif_hooks::set_gc_every(0);
                    Reply::Panic(panic_msg(&*e))
                }
            },
            _ => Reply::Err("bad-op worker is idle".to_owned()),
        };
        if tx.send(reply).is_err() {
            return;
        }
    }
}

enum Exit {
    Freeze,
    Abandon,
}

fn host_module(rx: &Receiver<Cmd>, tx: &Sender<Reply>) -> Reply {
    Module::with_temp_heap(|module| {
        if tx.send(Reply::Ok).is_err() {
            return Reply::Ok;
        }
        let exit = loop {
            let cmd = match rx.recv() {
                Ok(c) => c,
                Err(_) => break Exit::Abandon,
            };
            let reply = match cmd {
                Cmd::Freeze => break Exit::Freeze,
                Cmd::Abandon => break Exit::Abandon,
                Cmd::Open | Cmd::Quit => Reply::Err("bad-op worker is hosting a module".to_owned()),
                Cmd::DropHere(b) => {
                    drop(b);
                    Reply::Ok
                }
                Cmd::Snapshot => Reply::Snapshot(snapshot(&module)),
                Cmd::Import(fm) => {
                    module.import_public_symbols(&fm);
                    drop(fm);
                    Reply::Ok
                }
                Cmd::AddToHeap { h, name, mode } => {
                    match mode {
                        Mode::Ref => {
                            module.set(&name, h.as_ref().add_to_heap(module.heap()));
                            drop(h);
                        }
                        Mode::Owned => {
                            let v = h.add_to_heap(module.heap());
                            module.set(&name, v);
                        }
                        Mode::Edge => {
                            let heap = module.heap();
                            let v = h.by_ref_with_reconstructor(|v, r| r.edge(heap).rebrand(*v));
                            module.set(&name, v);
                            drop(h);
                        }
                    }
                    Reply::Ok
                }
                Cmd::Eval {
                    file,
                    src,
                    globals,
                    mods,
                    gc,
                } => {
                    let loader = MapLoader(mods);
                    let res: Result<(), String> = match AstModule::parse(&file, src, &dialect()) {
                        Err(e) => Err(format!("{}", e.without_diagnostic())),
                        Ok(ast) => {
                            let g: &Globals = match &globals {
                                Some(g) => g,
                                None => default_globals(),
                            };
                            starlark::verif_hooks::set_gc_every(gc);
                            let r = {
                                let mut ev = Evaluator::new(&module);
                                ev.set_loader(&loader);
                                ev.set_print_handler(&NoPrint);
                                ev.eval_module(ast, g).map(|_| ())
                            };
                            starlark::verif_hooks::set_gc_every(0);
                            r.map_err(|e| format!("{}", e.without_diagnostic()))
                        }
                    };
                    // the clones of the loaded modules and of the globals die here, on the worker
                    drop(loader);
                    drop(globals);
                    let _ = sv_harness::take_transcript();
                    match res {
                        Ok(()) => Reply::Ok,
                        Err(e) => Reply::Err(trunc(&e)),
                    }
                }
            };
            if tx.send(reply).is_err() {
                break Exit::Abandon;
            }
        };
        match exit {
            Exit::Abandon => Reply::Ok,
            Exit::Freeze => match module.freeze() {
                Ok(fm) => Reply::Frozen(fm),
                Err(e) => Reply::Err(trunc(&format!("freeze: {:?}", e))),
            },
        }
    })
}

struct Worker {
    tx: Sender<Cmd>,
    rx: Receiver<Reply>,
    join: Option<JoinHandle<()>>,
    /// rid of the open module hosted by this worker
    hosting: Option<i64>,
    /// no reply within the timeout: never talked to (or joined) again
    lost: bool,
}

impl Worker {
    fn spawn(i: usize) -> Worker {
        let (ctx, crx) = channel::<Cmd>();
        let (rtx, rrx) = channel::<Reply>();
        let join = std::thread::Builder::new()
            .name(format!("heaps-worker-{}", i))
            .stack_size(64 << 20)
            .spawn(move || worker_main(crx, rtx))
            .expect("spawn worker");
        Worker {
            tx: ctx,
            rx: rrx,
            join: Some(join),
            hosting: None,
            lost: false,
        }
    }

    /// Send a command and wait for its reply; `Err` when the worker is dead or silent.
    fn try_call(&mut self, cmd: Cmd) -> Result<Reply, String> {
        if self.lost {
            return Err("worker lost".to_owned());
        }
        if self.tx.send(cmd).is_err() {
            return Err("worker died (command channel closed)".to_owned());
        }
        match self.rx.recv_timeout(REPLY_TIMEOUT) {
            Ok(r) => Ok(r),
            Err(std::sync::mpsc::RecvTimeoutError::Timeout) => {
                self.lost = true;
                Err("worker timeout".to_owned())
            }
            Err(std::sync::mpsc::RecvTimeoutError::Disconnected) => {
                Err("worker died (reply channel closed)".to_owned())
            }
        }
    }
}

// ---------------------------------------------------------------------------------------------
// main-thread state of a case
// ---------------------------------------------------------------------------------------------

#[derive(Hash, PartialEq, Eq, Clone)]
enum Key {
    /// open or frozen module `rid`, name (shared so that freezing must preserve encodings)
    Mod(i64, String),
    Handle(i64),
    Glob(i64, String),
}

impl Key {
    fn rid(&self) -> i64 {
        match self {
            Key::Mod(r, _) | Key::Handle(r) | Key::Glob(r, _) => *r,
        }
    }
    fn with_rid(&self, r: i64) -> Key {
        match self {
            Key::Mod(_, n) => Key::Mod(r, n.clone()),
            Key::Handle(_) => Key::Handle(r),
            Key::Glob(_, n) => Key::Glob(r, n.clone()),
        }
    }
}

#[derive(Default)]
struct State {
    workers: Vec<Worker>,
    /// open module rid -> worker index
    open: BTreeMap<i64, usize>,
    frozen: BTreeMap<i64, FrozenModule>,
    handles: BTreeMap<i64, Handle>,
    globals: BTreeMap<i64, Globals>,
    builders: BTreeMap<i64, GlobalsBuilder>,
    carriers: BTreeMap<i64, Carrier>,
    baseline: HashMap<Key, String>,
    /// sealed heap address -> label of the object whose creation sealed it
    labels: HashMap<usize, String>,
}

fn get_rid(o: &J, k: &str) -> Result<i64, String> {
    o[k].as_i64().ok_or_else(|| format!("bad-op missing integer field `{}`", k))
}

fn get_str<'a>(o: &'a J, k: &str) -> Result<&'a str, String> {
    o[k].as_str().ok_or_else(|| format!("bad-op missing string field `{}`", k))
}

impl State {
    fn new(nworkers: usize) -> State {
        let mut st = State::default();
        for i in 0..nworkers {
            st.workers.push(Worker::spawn(i));
        }
        st
    }

    /// Synchronous call; a dead/silent/panicked worker becomes a panic of the case.
    fn call(&mut self, w: usize, cmd: Cmd) -> Reply {
        match self.workers[w].try_call(cmd) {
            Ok(Reply::Panic(m)) => {
                // the worker unwound out of its module (if any) and is idle again
                if let Some(m) = self.workers[w].hosting.take() {
                    self.open.remove(&m);
                }
                panic!("worker {}: {}", w, m)
            }
            Ok(r) => r,
            Err(e) => panic!("worker {}: {}", w, e),
        }
    }

    fn in_use(&self, r: i64) -> bool {
        self.open.contains_key(&r)
            || self.frozen.contains_key(&r)
            || self.handles.contains_key(&r)
            || self.globals.contains_key(&r)
            || self.builders.contains_key(&r)
            || self.carriers.contains_key(&r)
    }

    fn fresh_rid(&self, o: &J, k: &str) -> Result<i64, String> {
        let r = get_rid(o, k)?;
        if self.in_use(r) {
            return Err(format!("bad-op rid {} already in use", r));
        }
        Ok(r)
    }

    fn open_worker(&self, o: &J, k: &str) -> Result<(i64, usize), String> {
        let m = get_rid(o, k)?;
        match self.open.get(&m) {
            Some(w) => Ok((m, *w)),
            None => Err(format!("bad-op no open module {}", m)),
        }
    }

    fn frozen_of(&self, o: &J, k: &str) -> Result<(i64, &FrozenModule), String> {
        let f = get_rid(o, k)?;
        match self.frozen.get(&f) {
            Some(fm) => Ok((f, fm)),
            None => Err(format!("bad-op no frozen module {}", f)),
        }
    }

    fn handle_of(&self, o: &J, k: &str) -> Result<(i64, &Handle), String> {
        let h = get_rid(o, k)?;
        match self.handles.get(&h) {
            Some(x) => Ok((h, x)),
            None => Err(format!("bad-op no handle {}", h)),
        }
    }

    fn forget(&mut self, r: i64) {
        self.baseline.retain(|k, _| k.rid() != r);
    }

    fn register(&mut self, heap: &FrozenHeapRef, rid: i64) {
        // the shared empty ref (address 0) is nobody's heap
        if heap_addr(heap) != 0 {
            self.labels.insert(heap_addr(heap), format!("r{}", rid));
        }
    }

    fn leave_module(&mut self, m: i64, w: usize) {
        self.open.remove(&m);
        self.workers[w].hosting = None;
    }

    /// Interpret one op; `Err` is the step's `"err"`.
    fn step(&mut self, o: &J) -> Result<(), String> {
        let op = o["op"].as_str().unwrap_or("");
        match op {
            "open" => {
                let m = self.fresh_rid(o, "m")?;
                let w = o["w"].as_u64().ok_or("bad-op missing worker index `w`")? as usize;
                if w >= self.workers.len() {
                    return Err(format!("bad-op no worker {}", w));
                }
                if let Some(h) = self.workers[w].hosting {
                    return Err(format!("bad-op worker {} is busy with module {}", w, h));
                }
                match self.call(w, Cmd::Open) {
                    Reply::Ok => {}
                    Reply::Err(e) => return Err(e),
                    _ => panic!("unexpected reply to open"),
                }
                self.workers[w].hosting = Some(m);
                self.open.insert(m, w);
                Ok(())
            }
            "eval" => {
                let (m, w) = self.open_worker(o, "m")?;
                let globals = if o["g"].is_null() {
                    None
                } else {
                    let g = get_rid(o, "g")?;
                    match self.globals.get(&g) {
                        Some(g) => Some(g.dupe()),
                        None => return Err(format!("bad-op no globals {}", g)),
                    }
                };
                let src = get_str(o, "src")?.to_owned();
                let mut mods = Vec::new();
                if let Some(ms) = o["mods"].as_object() {
                    for (name, r) in ms {
                        let r = r.as_i64().ok_or("bad-op mods value is not a rid")?;
                        match self.frozen.get(&r) {
                            Some(fm) => mods.push((name.clone(), fm.dupe())),
                            None => return Err(format!("bad-op no frozen module {}", r)),
                        }
                    }
                }
                let gc = o["gc"].as_u64().unwrap_or(0);
                let cmd = Cmd::Eval {
                    file: format!("m{}.star", m),
                    src,
                    globals,
                    mods,
                    gc,
                };
                match self.call(w, cmd) {
                    Reply::Ok => Ok(()),
                    Reply::Err(e) => Err(e),
                    _ => panic!("unexpected reply to eval"),
                }
            }
            "import" => {
                let (_m, w) = self.open_worker(o, "m")?;
                let fm = self.frozen_of(o, "f")?.1.dupe();
                match self.call(w, Cmd::Import(fm)) {
                    Reply::Ok => Ok(()),
                    Reply::Err(e) => Err(e),
                    _ => panic!("unexpected reply to import"),
                }
            }
            "freeze" => {
                let (m, w) = self.open_worker(o, "m")?;
                let r = self.call(w, Cmd::Freeze);
                self.leave_module(m, w);
                match r {
                    Reply::Frozen(fm) => {
                        self.register(fm.frozen_heap(), m);
                        self.frozen.insert(m, fm);
                        Ok(())
                    }
                    Reply::Err(e) => {
                        self.forget(m);
                        Err(e)
                    }
                    _ => panic!("unexpected reply to freeze"),
                }
            }
            "abandon" => {
                let (m, w) = self.open_worker(o, "m")?;
                let r = self.call(w, Cmd::Abandon);
                self.leave_module(m, w);
                self.forget(m);
                match r {
                    Reply::Ok => Ok(()),
                    Reply::Err(e) => Err(e),
                    _ => panic!("unexpected reply to abandon"),
                }
            }
            "get_owned" => {
                let name = get_str(o, "name")?;
                let k = self.fresh_rid(o, "k")?;
                let (f, fm) = self.frozen_of(o, "f")?;
                let h = fm.get_owned(name).map_err(|e| first_line(&format!("{:#}", e)))?;
                self.handles.insert(k, h);
                // the handle denotes the very value observed under (f, name)
                if should_call(name) {
                    if let Some(b) = self.baseline.get(&Key::Mod(f, name.to_owned())) {
                        let b = b.clone();
                        self.baseline.insert(Key::Handle(k), b);
                    }
                }
                Ok(())
            }
            "map" => {
                let k2 = self.fresh_rid(o, "k2")?;
                let mut path = Vec::new();
                for p in o["path"].as_array().ok_or("bad-op missing array field `path`")? {
                    if let Some(i) = p.as_u64() {
                        path.push(PathElem::Idx(i as usize));
                    } else if let Some(s) = p.as_str() {
                        path.push(PathElem::Key(s.to_owned()));
                    } else {
                        return Err("bad-op path element".to_owned());
                    }
                }
                let (_k, h) = self.handle_of(o, "k")?;
                let mapped = h.clone().maybe_map::<Value<'static>, _>(|v| walk(v, &path));
                match mapped {
                    Some(h2) => {
                        self.handles.insert(k2, h2);
                        Ok(())
                    }
                    None => Err("map: path does not resolve".to_owned()),
                }
            }
            "add_to_heap" => {
                let (_m, w) = self.open_worker(o, "m")?;
                let name = get_str(o, "name")?.to_owned();
                let mode = match get_str(o, "mode")? {
                    "ref" => Mode::Ref,
                    "owned" => Mode::Owned,
                    "edge" => Mode::Edge,
                    x => return Err(format!("bad-op mode `{}`", x)),
                };
                let h = self.handle_of(o, "k")?.1.clone();
                match self.call(w, Cmd::AddToHeap { h, name, mode }) {
                    Reply::Ok => Ok(()),
                    Reply::Err(e) => Err(e),
                    _ => panic!("unexpected reply to add_to_heap"),
                }
            }
            "new_builder" => {
                let b = self.fresh_rid(o, "b")?;
                self.builders.insert(b, new_builder());
                Ok(())
            }
            "add_to_builder" => {
                let name = get_str(o, "name")?.to_owned();
                let b = get_rid(o, "b")?;
                let k = get_rid(o, "k")?;
                let h = match self.handles.get(&k) {
                    Some(h) => h,
                    None => return Err(format!("bad-op no handle {}", k)),
                };
                let builder = match self.builders.get_mut(&b) {
                    Some(b) => b,
                    None => return Err(format!("bad-op no builder {}", b)),
                };
                let fv: FrozenValue = {
                    let v = h.as_ref().add_to_frozen_heap(builder.frozen_heap());
                    v.unpack_frozen().expect("value of a frozen heap is frozen")
                };
                builder.set(&name, fv);
                Ok(())
            }
            "build" => {
                let b = get_rid(o, "b")?;
                let builder = match self.builders.remove(&b) {
                    Some(b) => b,
                    None => return Err(format!("bad-op no builder {}", b)),
                };
                let g = builder.build();
                self.register(g.heap(), b);
                self.globals.insert(b, g);
                Ok(())
            }
            "from_globals" => {
                let f = self.fresh_rid(o, "f")?;
                let g = get_rid(o, "g")?;
                let g = match self.globals.get(&g) {
                    Some(g) => g,
                    None => return Err(format!("bad-op no globals {}", g)),
                };
                let fm = FrozenModule::from_globals(g).map_err(|e| trunc(&format!("from_globals: {:?}", e)))?;
                self.register(fm.frozen_heap(), f);
                self.frozen.insert(f, fm);
                Ok(())
            }
            "rehome" => {
                let k2 = self.fresh_rid(o, "k2")?;
                let mode = get_str(o, "mode")?.to_owned();
                let (k, h) = self.handle_of(o, "k")?;
                let h2 = rehome(h, &mode, &format!("carrier{}", k2))?;
                self.register(h2.owner(), k2);
                self.handles.insert(k2, h2);
                // the very same value
                if let Some(b) = self.baseline.get(&Key::Handle(k)).cloned() {
                    self.baseline.insert(Key::Handle(k2), b);
                }
                if o["consume"].as_bool().unwrap_or(false) {
                    self.handles.remove(&k);
                    self.forget(k);
                }
                Ok(())
            }
            "new_carrier" => {
                let b = self.fresh_rid(o, "b")?;
                let c = match get_str(o, "kind")? {
                    "heap" => Carrier::Heap {
                        heap: FrozenHeap::new(),
                        last: None,
                    },
                    "globals" => Carrier::Globals {
                        builder: GlobalsBuilder::new(),
                        baselines: Vec::new(),
                    },
                    x => return Err(format!("bad-op carrier kind `{}`", x)),
                };
                self.carriers.insert(b, c);
                Ok(())
            }
            "add_to_carrier" => {
                let name = get_str(o, "name")?.to_owned();
                let mode = get_str(o, "mode")?.to_owned();
                let b = get_rid(o, "b")?;
                let k = get_rid(o, "k")?;
                let h = match self.handles.get(&k) {
                    Some(h) => h,
                    None => return Err(format!("bad-op no handle {}", k)),
                };
                let base = self.baseline.get(&Key::Handle(k)).cloned();
                match self.carriers.get_mut(&b) {
                    None => Err(format!("bad-op no carrier {}", b)),
                    Some(Carrier::Heap { heap, last }) => {
                        let fv = add_handle_to_frozen_heap(h, heap, &mode)?;
                        *last = Some((fv, base));
                        Ok(())
                    }
                    Some(Carrier::Globals { builder, baselines }) => {
                        if name.len() != 1 {
                            return Err("bad-op a globals carrier takes 1-char names".to_owned());
                        }
                        let fv = add_handle_to_frozen_heap(h, builder.frozen_heap(), &mode)?;
                        builder.set(&name, fv);
                        baselines.retain(|(n, _)| *n != name);
                        baselines.push((name, base));
                        Ok(())
                    }
                }
            }
            "seal_carrier" => {
                let b = get_rid(o, "b")?;
                match self.carriers.remove(&b) {
                    None => Err(format!("bad-op no carrier {}", b)),
                    Some(Carrier::Heap { heap, last }) => {
                        let named = o["named"].as_bool().unwrap_or(false);
                        let r = if named {
                            heap.into_ref_named(FrozenHeapName::user(format!("carrier{}", b)))
                        } else {
                            heap.into_ref()
                        };
                        match last {
                            None => Err("bad-op sealing a heap carrier without a value".to_owned()),
                            Some((fv, base)) => {
                                self.register(&r, b);
                                // SAFETY (contract of unchecked_new): `r` references the owner of the value
                                let h = unsafe { OwnedFrozen::<Value<'static>>::unchecked_new(r, fv.to_value()) };
                                self.handles.insert(b, h);
                                if let Some(base) = base {
                                    self.baseline.insert(Key::Handle(b), base);
                                }
                                Ok(())
                            }
                        }
                    }
                    Some(Carrier::Globals { builder, baselines }) => {
                        let g = builder.build();
                        self.register(g.heap(), b);
                        self.globals.insert(b, g);
                        for (n, base) in baselines {
                            if let Some(base) = base {
                                self.baseline.insert(Key::Glob(b, n), base);
                            }
                        }
                        Ok(())
                    }
                }
            }
            "clone" => {
                let r = get_rid(o, "r")?;
                let a = self.fresh_rid(o, "as")?;
                if let Some(fm) = self.frozen.get(&r) {
                    let c = fm.clone();
                    self.frozen.insert(a, c);
                } else if let Some(h) = self.handles.get(&r) {
                    let c = h.clone();
                    self.handles.insert(a, c);
                } else if let Some(g) = self.globals.get(&r) {
                    let c = g.dupe();
                    self.globals.insert(a, c);
                } else {
                    return Err(format!("bad-op nothing clonable under rid {}", r));
                }
                // a clone must look exactly like the original
                let inherited: Vec<(Key, String)> = self
                    .baseline
                    .iter()
                    .filter(|(k, _)| k.rid() == r)
                    .map(|(k, v)| (k.with_rid(a), v.clone()))
                    .collect();
                self.baseline.extend(inherited);
                Ok(())
            }
            "drop" => {
                let r = get_rid(o, "r")?;
                enum Where {
                    Main,
                    Worker(usize),
                    Fresh,
                }
                let wh = match &o["where"] {
                    J::String(s) if s == "main" => Where::Main,
                    J::String(s) if s == "fresh" => Where::Fresh,
                    J::Number(n) if n.as_u64().is_some_and(|w| (w as usize) < self.workers.len()) => {
                        Where::Worker(n.as_u64().unwrap() as usize)
                    }
                    x => return Err(format!("bad-op where {}", x)),
                };
                let obj: Box<dyn Send> = if let Some(b) = self.builders.remove(&r) {
                    // builders are not Send: always dropped here
                    drop(b);
                    return Ok(());
                } else if let Some(c) = self.carriers.remove(&r) {
                    // open frozen heaps are not Send either
                    drop(c);
                    return Ok(());
                } else if let Some(x) = self.frozen.remove(&r) {
                    Box::new(x)
                } else if let Some(x) = self.handles.remove(&r) {
                    Box::new(x)
                } else if let Some(x) = self.globals.remove(&r) {
                    Box::new(x)
                } else {
                    return Err(format!("bad-op nothing droppable under rid {}", r));
                };
                self.forget(r);
                match wh {
                    Where::Main => drop(obj),
                    Where::Worker(w) => match self.call(w, Cmd::DropHere(obj)) {
                        Reply::Ok => {}
                        Reply::Err(e) => return Err(e),
                        _ => panic!("unexpected reply to drop"),
                    },
                    Where::Fresh => {
                        let t = std::thread::spawn(move || drop(obj));
                        if let Err(e) = t.join() {
                            panic!("fresh drop thread: {}", panic_msg(&*e));
                        }
                    }
                }
                Ok(())
            }
            x => Err(format!("bad-op unknown op `{}`", x)),
        }
    }

    /// Re-observe everything reachable from every held object; returns (checked, viol, refs).
    fn check_all(&mut self) -> (u64, Vec<J>, J) {
        // 1. observations: (key, kind letter for reporting, encoding)
        let mut obs: Vec<(Key, &'static str, String)> = Vec::new();
        for (r, fm) in &self.frozen {
            let mut names: Vec<String> = fm.names().map(|s| s.as_str().to_owned()).collect();
            names.sort();
            for n in names {
                let e = match fm.get_owned(&n) {
                    Ok(o) => observe_owned(&o, should_call(&n)),
                    Err(e) => format!("GETERR:{}", first_line(&format!("{:#}", e))),
                };
                obs.push((Key::Mod(*r, n), "F", e));
            }
        }
        for (k, h) in &self.handles {
            obs.push((Key::Handle(*k), "H", observe_owned(h, true)));
        }
        for (r, g) in &self.globals {
            let mut items: Vec<(String, FrozenValue)> = g
                .iter()
                .filter(|(n, _)| n.starts_with("g_") || n.len() == 1)
                .map(|(n, v)| (n.to_owned(), v))
                .collect();
            items.sort_by(|a, b| a.0.cmp(&b.0));
            for (n, fv) in items {
                let e = observe_global(g, fv, should_call(&n));
                obs.push((Key::Glob(*r, n), "G", e));
            }
        }
        let open: Vec<(i64, usize)> = self.open.iter().map(|(m, w)| (*m, *w)).collect();
        for (m, w) in open {
            match self.call(w, Cmd::Snapshot) {
                Reply::Snapshot(v) => {
                    for (n, e) in v {
                        obs.push((Key::Mod(m, n), "M", e));
                    }
                }
                _ => panic!("unexpected reply to snapshot"),
            }
        }
        // 2. compare with the baselines
        let mut checked = 0u64;
        let mut viol = Vec::new();
        for (key, kind, e) in obs {
            match self.baseline.get(&key) {
                None => {
                    self.baseline.insert(key, e);
                }
                Some(was) => {
                    checked += 1;
                    if *was != e {
                        let kj = match &key {
                            Key::Mod(r, n) | Key::Glob(r, n) => json!([kind, r, n]),
                            Key::Handle(r) => json!([kind, r]),
                        };
                        viol.push(json!({"key": kj, "was": trunc(was), "now": trunc(&e)}));
                    }
                }
            }
        }
        // 3. reference graph among the known sealed heaps
        let mut refs = serde_json::Map::new();
        let mut unknown = 0u64;
        let mut edges = |heap: &FrozenHeapRef, labels: &HashMap<usize, String>| -> J {
            let mut out: Vec<String> = Vec::new();
            for h in heap.refs() {
                match labels.get(&heap_addr(h)) {
                    Some(l) => out.push(l.clone()),
                    None => unknown += 1,
                }
            }
            out.sort();
            out.dedup();
            json!(out)
        };
        for (r, fm) in &self.frozen {
            refs.insert(format!("r{}", r), edges(fm.frozen_heap(), &self.labels));
        }
        for (r, g) in &self.globals {
            refs.insert(format!("r{}", r), edges(g.heap(), &self.labels));
        }
        for (k, h) in &self.handles {
            let l = match self.labels.get(&heap_addr(h.owner())) {
                Some(l) => l.clone(),
                None => "?".to_owned(),
            };
            refs.insert(format!("k{}", k), J::String(l));
            refs.insert(format!("o{}", k), edges(h.owner(), &self.labels));
        }
        refs.insert("unknown".to_owned(), json!(unknown));
        (checked, viol, J::Object(refs))
    }

    /// Regular end of a case: abandon open modules, drop everything held (on main).
    fn finish(&mut self) {
        let open: Vec<(i64, usize)> = self.open.iter().map(|(m, w)| (*m, *w)).collect();
        for (m, w) in open {
            let _ = self.call(w, Cmd::Abandon);
            self.leave_module(m, w);
        }
        self.handles.clear();
        self.frozen.clear();
        self.globals.clear();
        self.builders.clear();
        self.carriers.clear();
        self.baseline.clear();
    }

    /// Unconditional cleanup (also after a panic): never panics, never blocks on a lost worker.
    fn teardown(mut self) {
        let _ = catch_unwind(AssertUnwindSafe(|| {
            for w in &mut self.workers {
                if w.hosting.take().is_some() {
                    let _ = w.try_call(Cmd::Abandon);
                }
                let _ = w.try_call(Cmd::Quit);
                if let Some(j) = w.join.take() {
                    if !w.lost {
                        let _ = j.join();
                    }
                }
            }
        }));
        let _ = catch_unwind(AssertUnwindSafe(move || drop(self)));
    }
}

fn run_case(case: &J, st: &mut State, at: &AtomicUsize) -> J {
    let empty = Vec::new();
    let ops = case["ops"].as_array().unwrap_or(&empty);
    let mut steps = Vec::new();
    let mut nviol = 0u64;
    let mut total = 0u64;
    for (i, o) in ops.iter().enumerate() {
        at.store(i, Ordering::SeqCst);
        let err = match st.step(o) {
            Ok(()) => J::Null,
            Err(e) => J::String(trunc(&e)),
        };
        let (checked, viol, refs) = st.check_all();
        nviol += viol.len() as u64;
        total += checked;
        steps.push(json!({
            "i": i, "op": o["op"], "err": err, "checked": checked, "viol": viol, "refs": refs,
        }));
    }
    at.store(ops.len(), Ordering::SeqCst);
    st.finish();
    json!({"id": case["id"], "steps": steps, "nviol": nviol, "checked": total})
}

/// Touch the lazily initialised parts of the library once, before any case, so that their
/// never-freed heaps cannot later take the address of a heap a case knew under a label.
fn warm_up() {
    let g = default_globals();
    let src = "w_l = [1, 'warm up string long enough to live on the heap', (2, 3)]\n\
               w_s = struct(a = w_l, b = {'k': 1 << 80})\n\
               def w_f(x):\n    return [x, w_l, w_s.a, len(w_l), str(x), {'a': x}.keys()]\n\
               w_r = w_f(1)\n";
    let fm = Module::with_temp_heap(|module| {
        let ast = AstModule::parse("warm.star", src.to_owned(), &dialect()).expect("warm-up parse");
        {
            let mut ev = Evaluator::new(&module);
            ev.set_print_handler(&NoPrint);
            ev.eval_module(ast, g).expect("warm-up eval");
        }
        module.freeze().expect("warm-up freeze")
    });
    let h = fm.get_owned("w_f").expect("warm-up get");
    let _ = observe_owned(&h, true);
    let _ = FrozenModule::from_globals(g);
    let _ = sv_harness::take_transcript();
}

fn main() {
    let args: Vec<String> = std::env::args().collect();
    if args.len() < 3 {
        eprintln!("usage: {} <cases.jsonl> <out.jsonl>", args[0]);
        std::process::exit(2);
    }
    std::panic::set_hook(Box::new(|_| {}));
    starlark::verif_hooks::set_poison(true);
    let input = BufReader::new(File::open(&args[1]).expect("open cases"));
    let mut out = File::create(&args[2]).expect("create out");
    warm_up();
    for line in input.lines() {
        let line = line.expect("read line");
        if line.trim().is_empty() {
            continue;
        }
        let result = match serde_json::from_str::<J>(&line) {
            Err(e) => json!({"id": J::Null, "panic": format!("case is not JSON: {}", e), "at": 0}),
            Ok(case) => {
                eprintln!("START {}", case["id"]);
                let _ = std::io::stderr().flush();
                let nworkers = case["workers"].as_u64().unwrap_or(1).clamp(1, 4) as usize;
                let at = AtomicUsize::new(0);
                let mut st = State::new(nworkers);
                let r = catch_unwind(AssertUnwindSafe(|| run_case(&case, &mut st, &at)));
                st.teardown();
                match r {
                    Ok(v) => v,
                    Err(e) => json!({
                        "id": case["id"], "panic": panic_msg(&*e), "at": at.load(Ordering::SeqCst),
                    }),
                }
            }
        };
        let mut s = serde_json::to_string(&result).expect("serialise result");
        s.push('\n');
        out.write_all(s.as_bytes()).expect("write result");
        // `File` is unbuffered: the line is in the kernel once `write_all` returns
        out.flush().expect("flush result");
    }
}
