//! C04 tie driver: "freezing preserves every value and makes it permanently immutable".
//!
//! case = { "deps": [{"name","src"}...], "mod": {"name","src"},
//!          "paths": [{"id", "expr", "args": [src...]}...],
//!          "extra": [{"path": id, "kind", "src"}...],
//!          "importers": 1..3, "attempts": [{"path": id, "imp": 0..k-1}...],
//!          "opts": {"shuffle_seed": u64?, "reexport_imp": int?, "chunk": int?} }
//!
//! For every path the snippet list is: for every name of `dir(<expr>)` (the implementation's own
//! catalogue) `emit((<expr>).<name>)` and, for every args string, `emit((<expr>).<name>(<args>))`; plus
//! the path's `extra` sources.  Each snippet is run (a) on a fresh *unfrozen* instance of the module
//! (rebuilt after every mutation) and (b) from importing modules on the *frozen* module; after every
//! single snippet the exports are observed from Rust (`Module::get` / `FrozenModule::get_owned`) and all
//! path expressions are re-evaluated ("probe").
//!
//! result = { "s0": snapshot, "p0": [enc per path], "pre"/"post"/"final": "same" | snapshot,
//!            "probe_post": "same" | text (path expressions first seen from an importer vs unfrozen),
//!            "imp_obs": [ "same" | [enc...] per importer creation that differed ],
//!            "paths": [{"id","type","enc","names_u":[..],"names_f": "same"|[..],
//!                       "st_u","st_f": is the path value the same object at every evaluation (unfrozen / from an importer)}],
//!            "recs": [compact records], "n_u", "n_f", "rebuilds" }
//!        | { "fatal": text }            (generator bug: module does not evaluate, path invalid, ...)
//!        | { "freeze_err": text, ... }  (module could not be frozen)

use std::cell::RefCell;
use std::collections::HashMap;

use serde_json::Value as J;
use serde_json::json;
use starlark::environment::FrozenModule;
use starlark::environment::Globals;
use starlark::environment::GlobalsBuilder;
use starlark::environment::Module;
use starlark::eval::Evaluator;
use starlark::eval::ReturnFileLoader;
use starlark::starlark_module;
use starlark::syntax::AstModule;
use starlark::values::Heap;
use starlark::values::Value;
use starlark::values::dict::DictRef;
use starlark::values::list::ListRef;
use starlark::values::none::NoneType;
use starlark::values::tuple::TupleRef;
use sv_harness::dialect;
use sv_harness::err_json;
use sv_harness::run_cases;

thread_local! {
    static TR: RefCell<Vec<String>> = const { RefCell::new(Vec::new()) };
}

const PROBE_CALL: &str = "_probe()";
const ENC_BUDGET: usize = 6000;
const ENC_DEPTH: usize = 40;

/// Structural, address-free encoding. Containers that are their own ancestors are written
/// `<cycle:k>` (k = distance to the ancestor), so cyclic values have a finite, shape-exact encoding.
struct Encoder<'v> {
    heap: Heap<'v>,
    stack: Vec<Value<'v>>,
    out: String,
    over: bool,
}

impl<'v> Encoder<'v> {
    fn seq(&mut self, open: &str, close: &str, v: Value<'v>, items: impl Iterator<Item = Value<'v>>) {
        self.out.push_str(open);
        self.stack.push(v);
        for (i, x) in items.enumerate() {
            if self.over {
                break;
            }
            if i > 0 {
                self.out.push(',');
            }
            self.go(x);
        }
        self.stack.pop();
        self.out.push_str(close);
    }

    fn go(&mut self, v: Value<'v>) {
        if self.over {
            return;
        }
        if self.out.len() > ENC_BUDGET {
            self.over = true;
            self.out.push_str("~TRUNCATED");
            return;
        }
        if v.is_none() {
            self.out.push_str("None");
            return;
        }
        if let Some(b) = v.unpack_bool() {
            self.out.push_str(if b { "True" } else { "False" });
            return;
        }
        if let Some(s) = v.unpack_str() {
            self.out.push_str(&serde_json::to_string(s).unwrap());
            return;
        }
        let ty = v.get_type();
        if ty == "int" {
            self.out.push('i');
            self.out.push_str(&v.to_str());
            return;
        }
        if ty == "float" {
            self.out.push('f');
            self.out.push_str(&v.to_repr());
            return;
        }
        let container = matches!(ty, "list" | "tuple" | "dict" | "set" | "struct" | "record");
        if !container {
            self.out.push('<');
            self.out.push_str(ty);
            self.out.push(':');
            self.out.push_str(&v.to_repr());
            self.out.push('>');
            return;
        }
        if let Some(pos) = self.stack.iter().rposition(|a| a.ptr_eq(v)) {
            let k = self.stack.len() - pos;
            self.out.push_str(&format!("<cycle:{}>", k));
            return;
        }
        if self.stack.len() >= ENC_DEPTH {
            self.out.push_str("...");
            return;
        }
        if let Some(l) = ListRef::from_value(v) {
            let items: Vec<Value<'v>> = l.iter().collect();
            self.seq("[", "]", v, items.into_iter());
        } else if let Some(t) = TupleRef::from_value(v) {
            let items: Vec<Value<'v>> = t.iter().collect();
            self.seq("(", ")", v, items.into_iter());
        } else if let Some(d) = DictRef::from_value(v) {
            let items: Vec<(Value<'v>, Value<'v>)> = d.iter().collect();
            drop(d);
            self.out.push('{');
            self.stack.push(v);
            for (i, (k, x)) in items.into_iter().enumerate() {
                if self.over {
                    break;
                }
                if i > 0 {
                    self.out.push(',');
                }
                self.go(k);
                self.out.push(':');
                self.go(x);
            }
            self.stack.pop();
            self.out.push('}');
        } else if ty == "set" {
            let items: Vec<Value<'v>> = match v.iterate(self.heap) {
                Ok(it) => it.collect(),
                Err(_) => {
                    self.out.push_str("<set:uniterable>");
                    return;
                }
            };
            self.seq("set(", ")", v, items.into_iter());
        } else {
            // struct / record: the implementation's own attribute catalogue
            let names = v.dir_attr();
            self.out.push_str(ty);
            self.out.push('(');
            self.stack.push(v);
            for (i, n) in names.iter().enumerate() {
                if self.over {
                    break;
                }
                if i > 0 {
                    self.out.push(',');
                }
                self.out.push_str(n);
                self.out.push('=');
                match v.get_attr(n, self.heap) {
                    Ok(Some(x)) => self.go(x),
                    Ok(None) => self.out.push_str("<noattr>"),
                    Err(_) => self.out.push_str("<attrerr>"),
                }
            }
            self.stack.pop();
            self.out.push(')');
        }
    }
}

fn enc<'v>(v: Value<'v>, heap: Heap<'v>) -> String {
    let mut e = Encoder { heap, stack: Vec::new(), out: String::new(), over: false };
    e.go(v);
    e.out
}

#[starlark_module]
fn c04_globals(builder: &mut GlobalsBuilder) {
    /// Record the structural encoding of a value in the transcript.
    fn emit<'v>(#[starlark(require = pos)] x: Value<'v>, heap: Heap<'v>) -> anyhow::Result<NoneType> {
        let s = enc(x, heap);
        TR.with(|t| t.borrow_mut().push(s));
        Ok(NoneType)
    }

    /// Object identity (`Value::ptr_eq`).  `same(<path expr>, <path expr>)` tells whether a path expression denotes a value
    /// that is part of the module's state (the same object at every evaluation) or one made afresh by every evaluation.
    fn same<'v>(#[starlark(require = pos)] a: Value<'v>, #[starlark(require = pos)] b: Value<'v>) -> anyhow::Result<bool> {
        Ok(a.ptr_eq(b))
    }
}

fn my_globals() -> Globals {
    use starlark::environment::LibraryExtension::*;
    let mut b = GlobalsBuilder::extended_by(&[
        StructType, RecordType, EnumType, NamespaceType, Map, Filter, Partial, Debug, Print, Pprint, Pstr,
        Prepr, Json, Typing, Internal, CallStack, SetType,
    ]);
    c04_globals(&mut b);
    b.build()
}

fn take_tr() -> Vec<String> {
    TR.with(|t| std::mem::take(&mut *t.borrow_mut()))
}

/// Outcome of one evaluated source: `ok|<emits joined by |>` or `err|<Kind>: <first line>|<emits>`.
#[derive(Clone, PartialEq, Debug)]
struct Outcome {
    err: Option<String>,
    tr: Vec<String>,
}

impl Outcome {
    fn text(&self) -> String {
        match &self.err {
            None => format!("ok|{}", self.tr.join("|")),
            Some(e) => format!("err|{}|{}", e, self.tr.join("|")),
        }
    }
}

fn run_src<'v>(eval: &mut Evaluator<'v, '_, '_>, g: &Globals, fname: &str, src: &str) -> Outcome {
    take_tr();
    let res = match AstModule::parse(fname, src.to_owned(), &dialect()) {
        Err(e) => Err(e),
        Ok(ast) => eval.eval_module(ast, g),
    };
    let tr = take_tr();
    match res {
        Ok(_) => Outcome { err: None, tr },
        Err(e) => {
            let j = err_json(&e);
            let msg = j["msg"].as_str().unwrap_or("").lines().next().unwrap_or("").to_owned();
            Outcome { err: Some(format!("{}: {}", j["kind"].as_str().unwrap_or("?"), msg)), tr }
        }
    }
}

/// Observation of a set of named values: per name {name, enc, type, repr, str, hash} and the
/// pairwise `==` matrix (row-major string of 0/1/E).
fn snapshot<'v>(heap: Heap<'v>, names: &[String], get: impl Fn(&str) -> Option<Value<'v>>) -> J {
    let mut vals = Vec::new();
    let mut vs: Vec<Option<Value<'v>>> = Vec::new();
    for n in names {
        let v = get(n);
        vs.push(v);
        match v {
            None => vals.push(json!({"name": n, "missing": true})),
            Some(v) => {
                let hash = match v.get_hashed() {
                    Ok(h) => json!(h.hash().get()),
                    Err(_) => J::Null,
                };
                vals.push(json!({"name": n, "enc": enc(v, heap), "type": v.get_type(), "repr": v.to_repr(),
                                 "str": v.to_str(), "hash": hash}));
            }
        }
    }
    let mut eq = String::new();
    for a in &vs {
        for b in &vs {
            eq.push(match (a, b) {
                (Some(a), Some(b)) => match a.equals(*b) {
                    Ok(true) => '1',
                    Ok(false) => '0',
                    Err(_) => 'E',
                },
                _ => '-',
            });
        }
    }
    json!({"vals": vals, "eq": eq})
}

fn module_names(m: &Module) -> Vec<String> {
    let mut v: Vec<String> = m.names().map(|s| s.as_str().to_owned()).collect();
    v.sort();
    v
}

fn frozen_names(m: &FrozenModule) -> Vec<String> {
    let mut v: Vec<String> = m.names().map(|s| s.as_str().to_owned()).collect();
    v.sort();
    v
}

fn snapshot_module<'v>(m: &Module<'v>) -> J {
    let names = module_names(m);
    snapshot(m.heap(), &names, |n| m.get(n))
}

fn snapshot_frozen(f: &FrozenModule) -> J {
    let names = frozen_names(f);
    Module::with_temp_heap(|s| {
        let heap = s.heap();
        snapshot(heap, &names, |n| f.get_owned(n).ok().map(|o| o.add_to_heap(heap)))
    })
}

struct Cx<'a> {
    g: &'a Globals,
    deps: &'a [(String, FrozenModule)],
    mname: &'a str,
    msrc: &'a str,
    chunk: usize,
}

/// Evaluate `src` as a module named `name` against the frozen modules `mods`, then freeze it.
fn eval_and_freeze(g: &Globals, mods: &[(String, &FrozenModule)], name: &str, src: &str) -> Result<FrozenModule, String> {
    Module::with_temp_heap(|module| {
        let map: HashMap<&str, &FrozenModule> = mods.iter().map(|(n, m)| (n.as_str(), *m)).collect();
        let loader = ReturnFileLoader { modules: &map };
        {
            let mut eval = Evaluator::new(&module);
            eval.set_loader(&loader);
            let o = run_src(&mut eval, g, name, src);
            if o.err.is_some() {
                return Err(format!("{}: {}", name, o.text()));
            }
        }
        module.freeze().map_err(|e| format!("{}: freeze: {:?}", name, e))
    })
}

struct URes {
    out: Outcome,
    probe: Outcome,
    mutated: bool,
}

/// Run `items` on unfrozen instances of the module.  A fresh instance is built at the start, after
/// every item that changed the observation (exports snapshot or probe), and every `chunk` items.
fn run_unfrozen(cx: &Cx, s0: Option<&J>, probe_src: &str, p0: Option<&Outcome>, items: &[String], rebuilds: &mut u64) -> Result<Vec<URes>, String> {
    let map: HashMap<&str, &FrozenModule> = cx.deps.iter().map(|(n, m)| (n.as_str(), m)).collect();
    let loader = ReturnFileLoader { modules: &map };
    let mut res: Vec<URes> = Vec::new();
    while res.len() < items.len() {
        *rebuilds += 1;
        let r: Result<(), String> = Module::with_temp_heap(|a| {
            let mut eval = Evaluator::new(&a);
            eval.set_loader(&loader);
            let o = run_src(&mut eval, cx.g, cx.mname, cx.msrc);
            if o.err.is_some() {
                return Err(format!("module does not evaluate: {}", o.text()));
            }
            if let Some(s0) = s0 {
                if &snapshot_module(&a) != s0 {
                    return Err("nondeterministic: a re-evaluation of the module gives a different snapshot".to_owned());
                }
            }
            if !probe_src.is_empty() {
                let d = run_src(&mut eval, cx.g, "probedef.star", probe_src);
                if d.err.is_some() {
                    return Err(format!("probe definition failed: {}", d.text()));
                }
            }
            if let Some(p0) = p0 {
                let p = run_src(&mut eval, cx.g, "probe.star", PROBE_CALL);
                if &p != p0 {
                    return Err(format!("nondeterministic probe: {} vs {}", p.text(), p0.text()));
                }
            }
            let mut n = 0;
            while res.len() < items.len() && n < cx.chunk {
                let src = &items[res.len()];
                let out = run_src(&mut eval, cx.g, "snip.star", src);
                let probe = if probe_src.is_empty() {
                    Outcome { err: None, tr: Vec::new() }
                } else {
                    run_src(&mut eval, cx.g, "probe.star", PROBE_CALL)
                };
                let mut mutated = false;
                if let Some(s0) = s0 {
                    if &snapshot_module(&a) != s0 {
                        mutated = true;
                    }
                }
                if let Some(p0) = p0 {
                    if &probe != p0 {
                        mutated = true;
                    }
                }
                res.push(URes { out, probe, mutated });
                n += 1;
                if mutated {
                    break;
                }
            }
            Ok(())
        });
        r?;
    }
    Ok(res)
}

struct FRes {
    out: Outcome,
    probe: Outcome,
    changed: bool,
}

fn frozen_step<'v>(eval: &mut Evaluator<'v, '_, '_>, cx: &Cx, f: &FrozenModule, post: &J, p0: &Outcome, src: &str) -> FRes {
    let out = run_src(eval, cx.g, "snip.star", src);
    let probe = run_src(eval, cx.g, "probe.star", PROBE_CALL);
    let changed = &probe != p0 || &snapshot_frozen(f) != post;
    FRes { out, probe, changed }
}

struct Snip {
    path: usize, // index into paths
    name: String,
    arg: i64, // index into the path's args, -1 = attribute read, -2 = extra
    kind: String,
    src: String,
}

fn snippets(pi: usize, expr: &str, names: &[String], args: &[String], extras: &[(String, String)]) -> Vec<Snip> {
    let mut v = Vec::new();
    for n in names {
        v.push(Snip { path: pi, name: n.clone(), arg: -1, kind: "attr".to_owned(), src: format!("emit(({}).{})", expr, n) });
        for (ai, a) in args.iter().enumerate() {
            v.push(Snip { path: pi, name: n.clone(), arg: ai as i64, kind: "call".to_owned(), src: format!("emit(({}).{}({}))", expr, n, a) });
        }
    }
    for (k, s) in extras {
        v.push(Snip { path: pi, name: k.clone(), arg: -2, kind: k.clone(), src: s.clone() });
    }
    v
}

fn snip_key(s: &Snip) -> String {
    if s.arg == -2 { format!("x\u{0}{}\u{0}{}", s.kind, s.src) } else { format!("m\u{0}{}\u{0}{}", s.name, s.arg) }
}

fn same_or(a: &J, b: &J) -> J {
    if a == b { json!("same") } else { a.clone() }
}

fn run_case(g: &Globals, c: &J) -> J {
    let chunk = c["opts"]["chunk"].as_u64().unwrap_or(80) as usize;
    // (a) dependencies
    let mut deps: Vec<(String, FrozenModule)> = Vec::new();
    if let Some(ds) = c["deps"].as_array() {
        for d in ds {
            let name = d["name"].as_str().unwrap_or("");
            let src = d["src"].as_str().unwrap_or("");
            let mods: Vec<(String, &FrozenModule)> = deps.iter().map(|(n, m)| (n.clone(), m)).collect();
            match eval_and_freeze(g, &mods, name, src) {
                Ok(f) => deps.push((name.to_owned(), f)),
                Err(e) => return json!({"fatal": format!("dependency: {}", e)}),
            }
        }
    }
    let mname = c["mod"]["name"].as_str().unwrap_or("m.star").to_owned();
    let msrc = c["mod"]["src"].as_str().unwrap_or("").to_owned();
    let cx = Cx { g, deps: &deps, mname: &mname, msrc: &msrc, chunk };
    struct Path {
        id: i64,
        expr: String,
        args: Vec<String>,
        extras: Vec<(String, String)>,
    }
    let mut paths: Vec<Path> = Vec::new();
    for p in c["paths"].as_array().cloned().unwrap_or_default() {
        paths.push(Path {
            id: p["id"].as_i64().unwrap_or(-1),
            expr: p["expr"].as_str().unwrap_or("").to_owned(),
            args: p["args"].as_array().map(|a| a.iter().map(|x| x.as_str().unwrap_or("").to_owned()).collect()).unwrap_or_default(),
            extras: Vec::new(),
        });
    }
    let index_of: HashMap<i64, usize> = paths.iter().enumerate().map(|(i, p)| (p.id, i)).collect();
    for x in c["extra"].as_array().cloned().unwrap_or_default() {
        if let Some(&pi) = index_of.get(&x["path"].as_i64().unwrap_or(-1)) {
            paths[pi].extras.push((x["kind"].as_str().unwrap_or("extra").to_owned(), x["src"].as_str().unwrap_or("").to_owned()));
        }
    }
    // all path expressions, re-evaluated after every snippet: inline form and as a function defined once per module instance
    let probe_src: String = paths.iter().map(|p| format!("emit({})\n", p.expr)).collect();
    let probe_def: String = format!(
        "def _probe():\n{}    pass\n",
        paths.iter().map(|p| format!("    emit({})\n", p.expr)).collect::<String>()
    );
    let mut rebuilds = 0u64;

    // (b) unfrozen reference
    let s0 = {
        let map: HashMap<&str, &FrozenModule> = deps.iter().map(|(n, m)| (n.as_str(), m)).collect();
        let loader = ReturnFileLoader { modules: &map };
        let r: Result<J, String> = Module::with_temp_heap(|a| {
            let mut eval = Evaluator::new(&a);
            eval.set_loader(&loader);
            let o = run_src(&mut eval, g, &mname, &msrc);
            if o.err.is_some() {
                return Err(format!("module does not evaluate: {}", o.text()));
            }
            Ok(snapshot_module(&a))
        });
        match r {
            Ok(s) => s,
            Err(e) => return json!({"fatal": e}),
        }
    };
    let public: Vec<String> = s0["vals"].as_array().unwrap().iter().map(|v| v["name"].as_str().unwrap().to_owned()).collect();
    if public.is_empty() {
        return json!({"fatal": "module exports nothing"});
    }
    let s0_encs: Vec<String> = s0["vals"].as_array().unwrap().iter().map(|v| v["enc"].as_str().unwrap_or("").to_owned()).collect();
    // probe of all path expressions in the initial state
    let p0 = match run_unfrozen(&cx, Some(&s0), "", None, &[probe_src.clone()], &mut rebuilds) {
        Ok(mut r) => r.remove(0),
        Err(e) => return json!({"fatal": e}),
    };
    if p0.out.err.is_some() || p0.mutated || p0.out.tr.len() != paths.len() {
        return json!({"fatal": format!("path expressions invalid or mutating in the initial state: {}", p0.out.text())});
    }
    let p0 = p0.out;
    // dir() and type() of every path, unfrozen
    let info_items: Vec<String> =
        paths.iter().map(|p| format!("emit(dir({}))\nemit(type({}))\nemit(same({}, {}))", p.expr, p.expr, p.expr, p.expr)).collect();
    let info_u = match run_unfrozen(&cx, Some(&s0), &probe_def, Some(&p0), &info_items, &mut rebuilds) {
        Ok(r) => r,
        Err(e) => return json!({"fatal": e}),
    };
    let parse_names = |o: &Outcome| -> Option<(Vec<String>, String, bool)> {
        if o.err.is_some() || o.tr.len() != 3 {
            return None;
        }
        let names: Vec<String> = serde_json::from_str(&o.tr[0]).ok()?;
        let ty: String = serde_json::from_str(&o.tr[1]).ok()?;
        Some((names, ty, o.tr[2] == "True"))
    };
    // is the value of the path expression the same object at every evaluation (unfrozen, in the module / frozen, from an importer)
    let mut stable_u: Vec<bool> = Vec::new();
    let mut stable_f: Vec<Option<bool>> = vec![None; paths.len()];
    let mut names_u: Vec<Vec<String>> = Vec::new();
    let mut types: Vec<String> = Vec::new();
    for (p, r) in paths.iter().zip(info_u.iter()) {
        match parse_names(&r.out) {
            Some((n, t, st)) if !r.mutated => {
                names_u.push(n);
                types.push(t);
                stable_u.push(st);
            }
            _ => return json!({"fatal": format!("dir/type of path {} failed: {}", p.expr, r.out.text())}),
        }
    }
    let mut usnips: Vec<Snip> = Vec::new();
    let mut ustart: Vec<usize> = Vec::new();
    for (pi, p) in paths.iter().enumerate() {
        ustart.push(usnips.len());
        usnips.extend(snippets(pi, &p.expr, &names_u[pi], &p.args, &p.extras));
    }
    let usrcs: Vec<String> = usnips.iter().map(|s| s.src.clone()).collect();
    let ures = match run_unfrozen(&cx, Some(&s0), &probe_def, Some(&p0), &usrcs, &mut rebuilds) {
        Ok(r) => r,
        Err(e) => return json!({"fatal": e}),
    };
    let mut ukey: HashMap<(usize, String), usize> = HashMap::new();
    for (i, s) in usnips.iter().enumerate() {
        ukey.insert((s.path, snip_key(s)), i);
    }

    // (c) freeze
    let frozen: Result<(J, J, Result<FrozenModule, String>), String> = {
        let map: HashMap<&str, &FrozenModule> = deps.iter().map(|(n, m)| (n.as_str(), m)).collect();
        let loader = ReturnFileLoader { modules: &map };
        Module::with_temp_heap(|b| {
            let pre;
            let ppre;
            {
                let mut eval = Evaluator::new(&b);
                eval.set_loader(&loader);
                let o = run_src(&mut eval, g, &mname, &msrc);
                if o.err.is_some() {
                    return Err(format!("module does not evaluate: {}", o.text()));
                }
                pre = snapshot_module(&b);
                let p = run_src(&mut eval, g, "probe.star", &probe_src);
                ppre = json!(p.text());
            }
            let f = b.freeze().map_err(|e| format!("{:?}", e));
            Ok((pre, ppre, f))
        })
    };
    let (pre, ppre, f) = match frozen {
        Ok(x) => x,
        Err(e) => return json!({"fatal": e}),
    };
    let mut result = json!({
        "s0": s0, "p0": p0.tr, "pre": same_or(&pre, &s0),
        "probe_pre": if ppre == json!(p0.text()) { json!("same") } else { ppre },
    });
    let path_info = |names_f: Option<&Vec<Vec<String>>>, st_f: &Vec<Option<bool>>| -> J {
        J::Array(
            paths
                .iter()
                .enumerate()
                .map(|(i, p)| {
                    let nf = match names_f {
                        None => J::Null,
                        Some(nf) => {
                            if nf[i] == names_u[i] {
                                json!("same")
                            } else {
                                json!(nf[i])
                            }
                        }
                    };
                    json!({"id": p.id, "type": types[i], "enc": p0.tr[i], "names_u": names_u[i], "names_f": nf,
                           "st_u": stable_u[i], "st_f": if names_f.is_some() { json!(st_f[i]) } else { J::Null }})
                })
                .collect(),
        )
    };
    let urec = |i: usize| -> J {
        let s = &usnips[i];
        let r = &ures[i];
        let ea = r.probe.tr.get(s.path).cloned();
        json!({"p": paths[s.path].id, "n": s.name, "a": s.arg, "k": s.kind, "x": if s.arg == -2 { json!(s.src) } else { J::Null },
               "uo": r.out.text(), "um": r.mutated,
               "ua": if ea.as_deref() == Some(p0.tr[s.path].as_str()) { J::Null } else { json!(ea.unwrap_or_else(|| "!".to_owned())) }})
    };
    let f = match f {
        Ok(f) => f,
        Err(e) => {
            result["freeze_err"] = json!(e);
            result["paths"] = path_info(None, &stable_f);
            result["recs"] = J::Array((0..usnips.len()).map(urec).collect());
            result["n_u"] = json!(usnips.len());
            return result;
        }
    };
    let post = snapshot_frozen(&f);
    result["post"] = same_or(&post, &s0);

    // (d) importers
    let k = c["importers"].as_u64().unwrap_or(1).clamp(1, 3) as usize;
    let reexport_imp = c["opts"]["reexport_imp"].as_i64().unwrap_or(-1);
    let mut all: Vec<(String, &FrozenModule)> = deps.iter().map(|(n, m)| (n.clone(), m)).collect();
    all.push((mname.clone(), &f));
    let re_src = format!(
        "load({}, {})\n{}\n",
        serde_json::to_string(&mname).unwrap(),
        public.iter().map(|n| format!("_re_{}={}", n, serde_json::to_string(n).unwrap())).collect::<Vec<_>>().join(", "),
        public.iter().map(|n| format!("{} = _re_{}", n, n)).collect::<Vec<_>>().join("\n")
    );
    let re = match eval_and_freeze(g, &all, "re.star", &re_src) {
        Ok(m) => m,
        Err(e) => return json!({"fatal": format!("re-exporting module: {}", e)}),
    };
    let post_re = snapshot_frozen(&re);
    result["post_reexport"] = same_or(&post_re, &s0);
    all.push(("re.star".to_owned(), &re));
    let map: HashMap<&str, &FrozenModule> = all.iter().map(|(n, m)| (n.as_str(), *m)).collect();
    let loader = ReturnFileLoader { modules: &map };
    let load_src = |i: usize| -> String {
        let target = if i as i64 == reexport_imp { "re.star" } else { mname.as_str() };
        format!(
            "load({}, {})\n{}",
            serde_json::to_string(target).unwrap(),
            public.iter().map(|n| serde_json::to_string(n).unwrap()).collect::<Vec<_>>().join(", "),
            public.iter().map(|n| format!("emit({})\n", n)).collect::<String>()
        )
    };
    // dir() of every attempted path on the frozen module, from an importer
    let mut names_f: Vec<Vec<String>> = names_u.clone();
    let mut imp_obs: Vec<J> = Vec::new();
    // the path expressions as first seen from an importer: reference for "unchanged after every attempt"
    let mut pf0: Option<Outcome> = None;
    {
        let mut i = 0;
        while i < paths.len() {
            let r: Result<(), String> = Module::with_temp_heap(|m| {
                let mut eval = Evaluator::new(&m);
                eval.set_loader(&loader);
                let o = run_src(&mut eval, g, "imp.star", &load_src(0));
                if o.err.is_some() {
                    return Err(format!("importer cannot load: {}", o.text()));
                }
                if pf0.is_none() {
                    pf0 = Some(run_src(&mut eval, g, "probe.star", &probe_src));
                }
                let mut n = 0;
                while i < paths.len() && n < chunk {
                    let o = run_src(&mut eval, g, "snip.star", &info_items[i]);
                    match parse_names(&o) {
                        Some((nm, ty, st)) => {
                            stable_f[i] = Some(st);
                            names_f[i] = nm;
                            if ty != types[i] {
                                names_f[i].push(format!("<type:{}>", ty));
                            }
                        }
                        None => names_f[i] = vec![format!("<dir failed: {}>", o.text())],
                    }
                    i += 1;
                    n += 1;
                }
                Ok(())
            });
            if let Err(e) = r {
                return json!({"fatal": e});
            }
        }
    }
    result["paths"] = path_info(Some(&names_f), &stable_f);
    let pf0 = pf0.unwrap_or_else(|| p0.clone());
    result["probe_post"] = if pf0 == p0 { json!("same") } else { json!(pf0.text()) };
    if pf0 != p0 {
        // per path: what an importer of the frozen module sees (the list stops at the first path expression that fails)
        result["probe_post_tr"] = json!(pf0.tr);
        result["probe_post_err"] = json!(pf0.err);
    }
    // flatten the attempts
    struct Flat {
        imp: usize,
        snip: Snip,
    }
    let mut flat: Vec<Flat> = Vec::new();
    for a in c["attempts"].as_array().cloned().unwrap_or_default() {
        let Some(&pi) = index_of.get(&a["path"].as_i64().unwrap_or(-1)) else { continue };
        let imp = (a["imp"].as_u64().unwrap_or(0) as usize).min(k - 1);
        let names: Vec<String> = names_f[pi].iter().filter(|n| !n.starts_with('<')).cloned().collect();
        for s in snippets(pi, &paths[pi].expr, &names, &paths[pi].args, &paths[pi].extras) {
            flat.push(Flat { imp, snip: s });
        }
    }
    if let Some(mut seed) = c["opts"]["shuffle_seed"].as_u64() {
        seed |= 1;
        for i in (1..flat.len()).rev() {
            seed ^= seed << 13;
            seed ^= seed >> 7;
            seed ^= seed << 17;
            let j = (seed % (i as u64 + 1)) as usize;
            flat.swap(i, j);
        }
    }
    let mut fres: Vec<FRes> = Vec::new();
    let mut fatal: Option<String> = None;
    while fres.len() < flat.len() && fatal.is_none() {
        Module::with_temp_heap(|m0| {
            Module::with_temp_heap(|m1| {
                Module::with_temp_heap(|m2| {
                    let mut e0 = Evaluator::new(&m0);
                    let mut e1 = Evaluator::new(&m1);
                    let mut e2 = Evaluator::new(&m2);
                    e0.set_loader(&loader);
                    e1.set_loader(&loader);
                    e2.set_loader(&loader);
                    for i in 0..k {
                        let src = load_src(i);
                        let o = match i {
                            0 => run_src(&mut e0, g, "imp0.star", &src),
                            1 => run_src(&mut e1, g, "imp1.star", &src),
                            _ => run_src(&mut e2, g, "imp2.star", &src),
                        };
                        if o.err.is_some() {
                            fatal = Some(format!("importer {} cannot load: {}", i, o.text()));
                            return;
                        }
                        if o.tr != s0_encs {
                            imp_obs.push(json!({"imp": i, "encs": o.tr}));
                        }
                        let d = match i {
                            0 => run_src(&mut e0, g, "probedef.star", &probe_def),
                            1 => run_src(&mut e1, g, "probedef.star", &probe_def),
                            _ => run_src(&mut e2, g, "probedef.star", &probe_def),
                        };
                        if d.err.is_some() {
                            fatal = Some(format!("probe definition failed in importer {}: {}", i, d.text()));
                            return;
                        }
                    }
                    let mut n = 0;
                    while fres.len() < flat.len() && n < chunk {
                        let fl = &flat[fres.len()];
                        let r = match fl.imp {
                            0 => frozen_step(&mut e0, &cx, &f, &post, &pf0, &fl.snip.src),
                            1 => frozen_step(&mut e1, &cx, &f, &post, &pf0, &fl.snip.src),
                            _ => frozen_step(&mut e2, &cx, &f, &post, &pf0, &fl.snip.src),
                        };
                        fres.push(r);
                        n += 1;
                    }
                })
            })
        });
    }
    if let Some(e) = fatal {
        return json!({"fatal": e});
    }
    // final observation: exports from Rust, through the re-exporting module, and a probe from a fresh importer
    let fin = snapshot_frozen(&f);
    result["final"] = same_or(&fin, &s0);
    let fin_re = snapshot_frozen(&re);
    result["final_reexport"] = same_or(&fin_re, &s0);
    let fin_probe: String = Module::with_temp_heap(|m| {
        let mut eval = Evaluator::new(&m);
        eval.set_loader(&loader);
        let o = run_src(&mut eval, g, "imp.star", &load_src(if reexport_imp >= 0 { reexport_imp as usize } else { 0 }));
        let p = run_src(&mut eval, g, "probe.star", &probe_src);
        if o.err.is_some() || o.tr != s0_encs { format!("load: {}", o.text()) } else { p.text() }
    });
    result["final_probe"] = if fin_probe == p0.text() { json!("same") } else { json!(fin_probe) };
    result["imp_obs"] = J::Array(imp_obs);

    // records: every unfrozen snippet joined with every frozen attempt of it
    let mut recs: Vec<J> = Vec::new();
    let mut attempted = vec![false; usnips.len()];
    for (fl, r) in flat.iter().zip(fres.iter()) {
        let s = &fl.snip;
        let ui = ukey.get(&(s.path, snip_key(s))).copied();
        let mut rec = match ui {
            Some(ui) => {
                attempted[ui] = true;
                urec(ui)
            }
            None => json!({"p": paths[s.path].id, "n": s.name, "a": s.arg, "k": s.kind,
                           "x": if s.arg == -2 { json!(s.src) } else { J::Null }, "uo": J::Null, "um": J::Null, "ua": J::Null}),
        };
        let fo = r.out.text();
        let ea = r.probe.tr.get(s.path).cloned();
        rec["i"] = json!(fl.imp);
        rec["fo"] = if rec["uo"].as_str() == Some(fo.as_str()) { json!("same") } else { json!(fo) };
        rec["fc"] = json!(r.changed);
        rec["fa"] = if ea.as_deref() == pf0.tr.get(s.path).map(|x| x.as_str()) { J::Null } else { json!(ea.unwrap_or_else(|| "!".to_owned())) };
        if r.changed {
            rec["fprobe"] = json!(r.probe.text());
        }
        recs.push(rec);
    }
    // unfrozen-only records (paths never attempted, or names that dir() no longer reports on the frozen value)
    for (ui, a) in attempted.iter().enumerate() {
        if !a {
            recs.push(urec(ui));
        }
    }
    result["recs"] = J::Array(recs);
    result["n_u"] = json!(usnips.len());
    result["n_f"] = json!(flat.len());
    result["rebuilds"] = json!(rebuilds);
    let _ = ustart;
    result
}

fn main() {
    let g = my_globals();
    run_cases(|c| run_case(&g, c));
}
