//! C18: drives the real debug adapter (`prepare_dap_adapter` + `DapAdapterEvalHook`) the way
//! `starlark_bin/bin/dap.rs` wires it: the hook is installed on an `Evaluator` running on its own
//! thread, the client receives `event_stopped`, a controller thread owns the `DapAdapter` and
//! answers every stop (top_frame, stack_trace, variables, optional evaluate) and then continues or steps.
//!
//! A recording `before_stmt` hook is installed *before* the adapter's hook, so the result also
//! carries the real event trace `(line, column, continued, call_stack_count)`.
//!
//! Every interaction is supervised: the main thread waits for progress messages with a timeout;
//! a session that makes no progress is reported as `{"hang": true, ...}` (the stuck threads are
//! abandoned).
//!
//! case = { "src": "...", "bps": [1-based lines], "conds": {"<line>": "expr"},
//!          "mods": [{"name": "lib.star", "src": "...", "bps": [...], "conds": {...}}, ...]  (evaluated WITHOUT hooks, frozen,
//!                  loadable by name; their breakpoints are resolved against their own AST and registered under their name),
//!          "finals": bool (report the module's names and values after the evaluation, ok or failed),
//!          "record": bool (false together with "adapter": false = completely uninstrumented run),
//!          "policy": ["continue" | "into" | "over" | "out", ...]   (command after stop i; last one repeats),
//!          "evals": ["expr", ...] (evaluated through the adapter at every stop), "vars": bool,
//!          "max_stops": n, "timeout_ms": n, "adapter": bool (false: only the recording hook) }

use std::collections::HashMap;
use std::sync::Arc;
use std::sync::Mutex;
use std::sync::mpsc::Sender;
use std::sync::mpsc::channel;
use std::thread;
use std::time::Duration;

use serde_json::Value as J;
use serde_json::json;
use starlark::PrintHandler;
use starlark::debug::DapAdapter;
use starlark::debug::DapAdapterClient;
use starlark::debug::DapAdapterEvalHook;
use starlark::debug::StepKind;
use starlark::debug::prepare_dap_adapter;
use starlark::debug::resolve_breakpoints;
use starlark::environment::FrozenModule;
use starlark::environment::Module;
use starlark::eval::Evaluator;
use starlark::eval::ReturnFileLoader;
use starlark::syntax::AstModule;
use starlark::syntax::Dialect;
use sv_harness::TRANSCRIPT;
use sv_harness::enc;
use sv_harness::err_json;
use sv_harness::globals;
use sv_harness::run_cases;
use sv_harness::take_transcript;

const FILE: &str = "main0.star";

struct Printer;
impl PrintHandler for Printer {
    fn println(&self, text: &str) -> starlark::Result<()> {
        TRANSCRIPT.with(|t| t.borrow_mut().push(format!("print:{}", text)));
        Ok(())
    }
}

enum Msg {
    Stopped,
    Finished(J),
}

#[derive(Debug)]
struct Client {
    tx: Mutex<Sender<Msg>>,
}

impl DapAdapterClient for Client {
    fn event_stopped(&self) -> starlark::Result<()> {
        let _ = self.tx.lock().unwrap().send(Msg::Stopped);
        Ok(())
    }
}

/// Recording hook: one entry per `before_stmt` call.
struct Recorder {
    events: Arc<Mutex<Vec<J>>>,
}

impl<'e> starlark::eval::BeforeStmtFuncDyn<'e> for Recorder {
    fn call<'v>(
        &mut self,
        span: starlark::codemap::FileSpanRef,
        continued: bool,
        eval: &mut Evaluator<'v, '_, 'e>,
    ) -> starlark::Result<()> {
        let mut ev = self.events.lock().unwrap();
        if ev.len() < 20000 {
            let r = span.resolve_span();
            ev.push(json!([r.begin.line + 1, r.begin.column, continued, eval.call_stack_count(), r.end.line + 1, r.end.column, span.filename()]));
        }
        Ok(())
    }
}

fn bp_args_for(file: &str, lines: &[i64], conds: &J) -> J {
    let mut j = bp_args(lines, conds);
    j["source"]["path"] = json!(file);
    j
}

fn bp_args(lines: &[i64], conds: &J) -> J {
    let bps: Vec<J> = lines
        .iter()
        .map(|l| match conds.get(l.to_string()).and_then(|c| c.as_str()) {
            Some(c) => json!({"line": l, "condition": c}),
            None => json!({"line": l}),
        })
        .collect();
    json!({"source": {"path": FILE}, "breakpoints": bps})
}

fn step_kind(s: &str) -> Option<StepKind> {
    match s {
        "into" => Some(StepKind::Into),
        "over" => Some(StepKind::Over),
        "out" => Some(StepKind::Out),
        _ => None,
    }
}

/// The module's variables after the evaluation: [[name, visibility, encoded value or null], ...] sorted by name.
fn module_finals(module: &Module) -> J {
    let mut names: Vec<(String, String)> =
        module.names_and_visibilities().map(|(n, v)| (n.as_str().to_owned(), format!("{:?}", v))).collect();
    names.sort();
    J::Array(
        names
            .into_iter()
            .map(|(n, vis)| {
                let v = std::panic::catch_unwind(std::panic::AssertUnwindSafe(|| module.get(&n).map(enc)));
                match v {
                    Ok(Some(s)) => json!([n, vis, s]),
                    Ok(None) => json!([n, vis, J::Null]),
                    Err(_) => json!([n, vis, "<Module::get panicked>"]),
                }
            })
            .collect(),
    )
}

fn eval_thread(
    src: String,
    mods: Vec<(String, String)>,
    finals: bool,
    hook: Option<Box<dyn DapAdapterEvalHook>>,
    events: Arc<Mutex<Vec<J>>>,
    record: bool,
    tx: Sender<Msg>,
) {
    let out = std::panic::catch_unwind(std::panic::AssertUnwindSafe(|| {
        let g = globals();
        // library modules: evaluated without any hook, frozen, loadable by name
        let mut frozen: Vec<(String, FrozenModule)> = Vec::new();
        for (name, lsrc) in mods {
            let r: Result<FrozenModule, J> = Module::with_temp_heap(|module| {
                let map: HashMap<&str, &FrozenModule> = frozen.iter().map(|(n, m)| (n.as_str(), m)).collect();
                let loader = ReturnFileLoader { modules: &map };
                let ast = AstModule::parse(&name, lsrc, &Dialect::AllOptionsInternal).map_err(|e| json!({"err": err_json(&e)}))?;
                {
                    let mut eval = Evaluator::new(&module);
                    eval.set_loader(&loader);
                    eval.set_print_handler(&Printer);
                    eval.eval_module(ast, &g).map_err(|e| json!({"err": err_json(&e)}))?;
                }
                module.freeze().map_err(|e| json!({"err": {"kind": "Freeze", "msg": format!("{:?}", e)}}))
            });
            match r {
                Ok(fm) => frozen.push((name, fm)),
                Err(j) => return json!({"lib_error": j, "lib": name, "tr": take_transcript()}),
            }
        }
        let map: HashMap<&str, &FrozenModule> = frozen.iter().map(|(n, m)| (n.as_str(), m)).collect();
        let loader = ReturnFileLoader { modules: &map };
        let ast = match AstModule::parse(FILE, src, &Dialect::AllOptionsInternal) {
            Ok(a) => a,
            Err(e) => return json!({"out": {"err": err_json(&e)}, "tr": []}),
        };
        Module::with_temp_heap(|module| {
            let mut eval = Evaluator::new(&module);
            eval.set_loader(&loader);
            eval.set_print_handler(&Printer);
            if record {
                eval.before_stmt_for_dap(starlark::eval::BeforeStmtFunc::from_dyn(Box::new(Recorder { events })));
            }
            if let Some(h) = hook {
                h.add_dap_hooks(&mut eval);
            }
            let res = eval.eval_module(ast, &g);
            let out = match res {
                Ok(v) => json!({"ok": enc(v)}),
                Err(e) => {
                    let mut j = err_json(&e);
                    j["full"] = J::String(format!("{}", e));
                    json!({"err": j})
                }
            };
            let stack_after = eval.call_stack_count();
            drop(eval);
            let mut j = json!({"out": out, "tr": take_transcript(), "stack_after": stack_after});
            if finals {
                j["finals"] = module_finals(&module);
            }
            j
        })
    }));
    let j = match out {
        Ok(j) => j,
        Err(e) => {
            let msg = if let Some(s) = e.downcast_ref::<String>() {
                s.clone()
            } else if let Some(s) = e.downcast_ref::<&str>() {
                s.to_string()
            } else {
                "?".to_owned()
            };
            json!({"panic": msg, "tr": take_transcript()})
        }
    };
    let _ = tx.send(Msg::Finished(j));
}

fn main() {
    run_cases(|c| {
        let src = c["src"].as_str().unwrap_or("").to_owned();
        let lines: Vec<i64> = c["bps"].as_array().map(|a| a.iter().filter_map(|x| x.as_i64()).collect()).unwrap_or_default();
        let conds = c["conds"].clone();
        let policy: Vec<String> = c["policy"]
            .as_array()
            .map(|a| a.iter().filter_map(|x| x.as_str().map(|s| s.to_owned())).collect())
            .unwrap_or_default();
        let evals: Vec<String> = c["evals"]
            .as_array()
            .map(|a| a.iter().filter_map(|x| x.as_str().map(|s| s.to_owned())).collect())
            .unwrap_or_default();
        let mods: Vec<(String, String)> = c["mods"]
            .as_array()
            .map(|a| {
                a.iter()
                    .map(|m| (m["name"].as_str().unwrap_or("lib.star").to_owned(), m["src"].as_str().unwrap_or("").to_owned()))
                    .collect()
            })
            .unwrap_or_default();
        let finals = c["finals"].as_bool().unwrap_or(false);
        let want_vars = c["vars"].as_bool().unwrap_or(true);
        let want_stack = c["stack"].as_bool().unwrap_or(true);
        let use_adapter = c["adapter"].as_bool().unwrap_or(true);
        let record = c["record"].as_bool().unwrap_or(true);
        let max_stops = c["max_stops"].as_u64().unwrap_or(3000) as usize;
        let timeout = Duration::from_millis(c["timeout_ms"].as_u64().unwrap_or(10000));

        let events: Arc<Mutex<Vec<J>>> = Arc::new(Mutex::new(Vec::new()));
        let log: Arc<Mutex<Vec<J>>> = Arc::new(Mutex::new(Vec::new())); // stops so far (shared for hang reports)
        let (ptx, prx) = channel::<Option<J>>(); // progress / final result to the supervisor

        // resolve the breakpoints against the parsed module (as the real binary does)
        let ast = match AstModule::parse(FILE, src.clone(), &Dialect::AllOptionsInternal) {
            Ok(a) => a,
            Err(e) => return json!({"parse_error": err_json(&e)}),
        };
        let stmt_locs: Vec<J> = ast
            .stmt_locations()
            .iter()
            .map(|s| {
                let r = s.resolve_span();
                json!([r.begin.line + 1, r.begin.column, r.end.line + 1, r.end.column])
            })
            .collect();

        let (tx, rx) = channel::<Msg>();
        let mut verified: Vec<bool> = Vec::new();
        let mut adapter_opt: Option<Box<dyn DapAdapter>> = None;
        let mut hook_opt: Option<Box<dyn DapAdapterEvalHook>> = None;
        if use_adapter {
            let (adapter, hook) = prepare_dap_adapter(Box::new(Client { tx: Mutex::new(tx.clone()) }));
            let args = match serde_json::from_value(bp_args(&lines, &conds)) {
                Ok(a) => a,
                Err(e) => return json!({"harness_error": format!("bp args: {}", e)}),
            };
            let resolved = match resolve_breakpoints(&args, &ast) {
                Ok(r) => r,
                Err(e) => return json!({"resolve_error": format!("{:#}", e)}),
            };
            verified = resolved.to_response().breakpoints.iter().map(|b| b.verified).collect();
            if let Err(e) = adapter.set_breakpoints(FILE, &resolved) {
                return json!({"set_breakpoints_error": format!("{:#}", e)});
            }
            // breakpoints inside the loaded (frozen) modules: resolved against their own source, registered under their name
            if let Some(ms) = c["mods"].as_array() {
                for m in ms {
                    let name = m["name"].as_str().unwrap_or("lib.star");
                    let ls: Vec<i64> = m["bps"].as_array().map(|a| a.iter().filter_map(|x| x.as_i64()).collect()).unwrap_or_default();
                    if ls.is_empty() {
                        continue;
                    }
                    let last = match AstModule::parse(name, m["src"].as_str().unwrap_or("").to_owned(), &Dialect::AllOptionsInternal) {
                        Ok(a) => a,
                        Err(e) => return json!({"parse_error": err_json(&e), "lib": name}),
                    };
                    let args = match serde_json::from_value(bp_args_for(name, &ls, &m["conds"])) {
                        Ok(a) => a,
                        Err(e) => return json!({"harness_error": format!("bp args: {}", e)}),
                    };
                    let resolved = match resolve_breakpoints(&args, &last) {
                        Ok(r) => r,
                        Err(e) => return json!({"resolve_error": format!("{:#}", e)}),
                    };
                    verified.extend(resolved.to_response().breakpoints.iter().map(|b| b.verified));
                    if let Err(e) = adapter.set_breakpoints(name, &resolved) {
                        return json!({"set_breakpoints_error": format!("{:#}", e)});
                    }
                }
            }
            adapter_opt = Some(Box::new(adapter));
            hook_opt = Some(Box::new(hook));
        }
        drop(ast);

        // evaluation thread
        {
            let events = events.clone();
            let tx = tx.clone();
            let src = src.clone();
            thread::spawn(move || eval_thread(src, mods, finals, hook_opt, events, record, tx));
        }
        drop(tx);

        // controller thread: owns the adapter
        {
            let log = log.clone();
            let ptx = ptx.clone();
            let lines = lines.clone();
            thread::spawn(move || {
                let adapter = adapter_opt;
                let mut nstops = 0usize;
                let mut capped = false;
                let fin;
                loop {
                    match rx.recv() {
                        Ok(Msg::Stopped) => {
                            let a = adapter.as_ref().unwrap();
                            let mut stop = json!({"i": nstops});
                            match a.top_frame() {
                                Ok(Some(f)) => {
                                    stop["line"] = json!(f.line);
                                    stop["col"] = json!(f.column);
                                    stop["name"] = json!(f.name);
                                    stop["file"] = json!(f.source.as_ref().and_then(|s| s.path.clone()));
                                }
                                Ok(None) => stop["line"] = J::Null,
                                Err(e) => stop["top_frame_error"] = json!(format!("{:#}", e)),
                            }
                            if want_stack {
                                match serde_json::from_value(json!({"threadId": 0})) {
                                    Ok(args) => match a.stack_trace(args) {
                                        Ok(st) => {
                                            stop["frames"] = J::Array(
                                                st.stack_frames.iter().map(|f| json!([f.name, f.line])).collect(),
                                            )
                                        }
                                        Err(e) => stop["stack_error"] = json!(format!("{:#}", e)),
                                    },
                                    Err(e) => stop["stack_error"] = json!(format!("args: {}", e)),
                                }
                            }
                            if want_vars {
                                match a.variables(0) {
                                    Ok(v) => {
                                        stop["vars"] = J::Array(
                                            v.locals
                                                .into_iter()
                                                .map(|x| json!([x.name.to_string(), x.value, x.type_, x.has_children]))
                                                .collect(),
                                        )
                                    }
                                    Err(e) => stop["vars_error"] = json!(format!("{:#}", e)),
                                }
                            }
                            if !evals.is_empty() {
                                let mut rs = Vec::new();
                                for e in &evals {
                                    rs.push(match a.evaluate(e) {
                                        Ok(r) => json!({"ok": r.result, "type": r.type_}),
                                        Err(er) => json!({"err": format!("{:#}", er).lines().next().unwrap_or("").to_owned()}),
                                    });
                                }
                                stop["evals"] = J::Array(rs);
                            }
                            let cmd = if policy.is_empty() {
                                "continue".to_owned()
                            } else {
                                policy[nstops.min(policy.len() - 1)].clone()
                            };
                            stop["cmd"] = json!(cmd);
                            log.lock().unwrap().push(stop);
                            nstops += 1;
                            if nstops >= max_stops && !capped {
                                // runaway protection: drop all breakpoints and just continue from now on
                                capped = true;
                                if let Ok(args) = serde_json::from_value(bp_args(&[], &J::Null)) {
                                    if let Ok(ast) = AstModule::parse(FILE, String::new(), &Dialect::AllOptionsInternal) {
                                        if let Ok(r) = resolve_breakpoints(&args, &ast) {
                                            let _ = a.set_breakpoints(FILE, &r);
                                        }
                                    }
                                }
                            }
                            let r = if capped {
                                a.continue_()
                            } else {
                                match step_kind(&cmd) {
                                    Some(k) => a.step(k),
                                    None => a.continue_(),
                                }
                            };
                            if let Err(e) = r {
                                log.lock().unwrap().push(json!({"resume_error": format!("{:#}", e)}));
                            }
                            let _ = ptx.send(None);
                        }
                        Ok(Msg::Finished(j)) => {
                            fin = j;
                            break;
                        }
                        Err(_) => {
                            fin = json!({"lost": true});
                            break;
                        }
                    }
                }
                let _ = lines;
                let mut r = fin;
                r["capped"] = json!(capped);
                let _ = ptx.send(Some(r));
            });
        }
        drop(ptx);

        // supervisor
        let mut result;
        loop {
            match prx.recv_timeout(timeout) {
                Ok(None) => continue,
                Ok(Some(r)) => {
                    result = r;
                    break;
                }
                Err(_) => {
                    result = json!({"hang": true});
                    break;
                }
            }
        }
        result["stops"] = J::Array(log.lock().unwrap().clone());
        result["events"] = J::Array(events.lock().unwrap().clone());
        result["verified"] = json!(verified);
        result["stmt_locs"] = J::Array(stmt_locs);
        result
    });
}
