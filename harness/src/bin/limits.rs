//! C15 driver for the entry points `eval.rs` does not reach: `Evaluator::eval_function` and
//! `Evaluator::check_tick_count_limit`.
//!
//! case = { "mods": [{"name","src"}...], "steps": [ {"src": "..."} | {"call": "name", "args": [int...]} ... ],
//!          "opts": {"max_callstack": n, "max_ticks": n, "cancel_after_checks": n} }
//! All steps run on ONE evaluator over one module. Per step: transcript, outcome, `call_stack_count()`,
//! `get_total_tick_count()` and the class of `check_tick_count_limit()` afterwards.

use std::cell::Cell;
use std::collections::HashMap;
use std::rc::Rc;

use serde_json::Value as J;
use serde_json::json;
use starlark::environment::FrozenModule;
use starlark::environment::Module;
use starlark::eval::Evaluator;
use starlark::eval::ReturnFileLoader;
use starlark::syntax::AstModule;
use starlark::values::Value;
use sv_harness::dialect;
use sv_harness::enc;
use sv_harness::err_json;
use sv_harness::globals;
use sv_harness::run_cases;
use sv_harness::take_transcript;

fn outcome(res: Result<Value, starlark::Error>) -> J {
    match res {
        Ok(v) => json!({"ok": enc(v)}),
        Err(e) => json!({"err": err_json(&e)}),
    }
}

fn main() {
    run_cases(|c| {
        let opts = &c["opts"];
        let g = globals();
        let d = dialect();
        let mut frozen: Vec<(String, FrozenModule)> = Vec::new();
        let mut lib_out = Vec::new();
        if let Some(mods) = c["mods"].as_array() {
            for m in mods {
                let name = m["name"].as_str().unwrap().to_owned();
                let src = m["src"].as_str().unwrap().to_owned();
                let r: Result<FrozenModule, J> = Module::with_temp_heap(|module| {
                    let ast = AstModule::parse(&name, src, &d).map_err(|e| json!({"err": err_json(&e)}))?;
                    {
                        let mut eval = Evaluator::new(&module);
                        eval.eval_module(ast, &g).map_err(|e| json!({"err": err_json(&e)}))?;
                    }
                    module
                        .freeze()
                        .map_err(|e| json!({"err": {"kind": "Freeze", "msg": format!("{:?}", e)}}))
                });
                match r {
                    Ok(fm) => {
                        lib_out.push(json!({"ok": name}));
                        frozen.push((name, fm));
                    }
                    Err(j) => lib_out.push(j),
                }
            }
        }
        let _ = take_transcript();
        let map: HashMap<&str, &FrozenModule> = frozen.iter().map(|(n, m)| (n.as_str(), m)).collect();
        let loader = ReturnFileLoader { modules: &map };
        let seen = Rc::new(Cell::new(0u64));
        let mut r = Module::with_temp_heap(|module| {
            let mut eval = Evaluator::new(&module);
            eval.set_loader(&loader);
            if let Some(n) = opts["max_callstack"].as_u64() {
                let _ = eval.set_max_callstack_size(n as usize);
            }
            if let Some(n) = opts["max_ticks"].as_u64() {
                let _ = eval.set_max_tick_count(n);
            }
            if let Some(n) = opts["cancel_after_checks"].as_u64() {
                let seen = seen.clone();
                eval.set_check_cancelled(Box::new(move || {
                    seen.set(seen.get() + 1);
                    seen.get() > n
                }));
            }
            let mut steps = Vec::new();
            for (i, st) in c["steps"].as_array().cloned().unwrap_or_default().into_iter().enumerate() {
                let out = if let Some(src) = st["src"].as_str() {
                    match AstModule::parse(&format!("main{}.star", i), src.to_owned(), &d) {
                        Err(e) => outcome(Err(e)),
                        Ok(ast) => outcome(eval.eval_module(ast, &g)),
                    }
                } else {
                    let name = st["call"].as_str().unwrap_or("");
                    match module.get(name) {
                        None => json!({"err": {"kind": "Harness", "msg": format!("no such function {}", name)}}),
                        Some(f) => {
                            let args: Vec<Value> = st["args"]
                                .as_array()
                                .cloned()
                                .unwrap_or_default()
                                .iter()
                                .map(|a| module.heap().alloc(a.as_i64().unwrap_or(0) as i32))
                                .collect();
                            outcome(eval.eval_function(f, &args, &[]))
                        }
                    }
                };
                // ResourceCheckResult {Ok, Warn{..}, Exceeded(..)} is public but not nameable from outside the crate:
                // classify by discriminant (declaration order).
                let check = match eval.check_tick_count_limit() {
                    None => "none".to_owned(),
                    Some(x) => {
                        let dbg = format!("{:?}", std::mem::discriminant(&x));
                        match dbg.as_str() {
                            "Discriminant(0)" => "ok".to_owned(),
                            "Discriminant(1)" => "warn".to_owned(),
                            "Discriminant(2)" => "exceeded".to_owned(),
                            other => other.to_owned(),
                        }
                    }
                };
                steps.push(json!({
                    "tr": take_transcript(), "out": out,
                    "stack_after": eval.call_stack_count(),
                    "ticks": eval.get_total_tick_count(),
                    "check": check,
                }));
            }
            drop(eval);
            json!({"steps": steps})
        });
        r["lib"] = J::Array(lib_out);
        r["cancel_calls"] = json!(seen.get());
        r
    });
}
