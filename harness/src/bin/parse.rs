//! C06: observations on the real parser and printer.
//!
//! case   : {"src": "<text>", "d": "S"|"E"|"A" (Dialect::Standard / Extended / AllOptionsInternal, default A),
//!           "tokens": bool (dump the token stream of the real lexer), "rt": bool (print / re-parse / print again)}
//! result : {"ok": bool, "err": {...}            when the parser rejects,
//!           "sx": canonical S-expression of the AST (own walker over the public AST types, spans dropped;
//!                 nested `Statements` flattened), "sxd": the same with f-strings desugared to `.format(...)`
//!                 (only when it differs), "display": Display text,
//!           "tokens": [[variant, payload], ...] | {"lexerr": msg},
//!           "re": {"ok": bool, "err"?, "same": bool (tree of the re-parsed Display text == desugared tree),
//!                  "sx"? (when different), "fix": bool (Display of the re-parsed tree == Display text),
//!                  "display2"? (when different), "tokens": tokens of the Display text}}

use serde_json::Value as J;
use serde_json::json;
use starlark_syntax::codemap::CodeMap;
use starlark_syntax::lexer::Lexer;
use starlark_syntax::lexer::Token;
use starlark_syntax::syntax::AstModule;
use starlark_syntax::syntax::Dialect;
use starlark_syntax::syntax::ast::*;
use sv_harness::run_cases;

fn jstr(s: &str) -> String {
    serde_json::to_string(s).unwrap()
}

struct W {
    out: String,
    desugar: bool,
}

impl W {
    fn a(&mut self, s: &str) {
        self.out.push_str(s);
    }

    fn lit(&mut self, l: &AstLiteral) {
        match l {
            AstLiteral::Int(i) => {
                self.a("(int ");
                self.a(&format!("{}", i.node));
                self.a(")");
            }
            AstLiteral::Float(f) => {
                self.a("(float ");
                self.a(&format!("{:?}", f.node));
                self.a(")");
            }
            AstLiteral::String(s) => {
                self.a("(str ");
                self.a(&jstr(&s.node));
                self.a(")");
            }
            AstLiteral::Bytes(b) => {
                self.a("(bytes ");
                for x in &b.node {
                    self.a(&format!("{:02x}", x));
                }
                self.a(")");
            }
            AstLiteral::Ellipsis => self.a("(ellipsis)"),
        }
    }

    fn exprs(&mut self, name: &str, v: &[&AstExpr]) {
        self.a("(");
        self.a(name);
        for e in v {
            self.a(" ");
            self.expr(e);
        }
        self.a(")");
    }

    fn opt(&mut self, e: &Option<Box<AstExpr>>) {
        match e {
            None => self.a(" _"),
            Some(e) => {
                self.a(" ");
                self.expr(e);
            }
        }
    }

    fn clause_for(&mut self, f: &ForClause) {
        self.a("(for ");
        self.target(&f.var);
        self.a(" ");
        self.expr(&f.over);
        self.a(")");
    }

    fn clauses(&mut self, f: &ForClause, cs: &[Clause]) {
        self.a(" ");
        self.clause_for(f);
        for c in cs {
            self.a(" ");
            match c {
                Clause::For(f) => self.clause_for(f),
                Clause::If(e) => {
                    self.a("(cif ");
                    self.expr(e);
                    self.a(")");
                }
            }
        }
    }

    fn param(&mut self, p: &AstParameter) {
        match &p.node {
            Parameter::Slash => self.a("(slash)"),
            Parameter::NoArgs => self.a("(star)"),
            Parameter::Normal(n, ty, d) => {
                self.a(if ty.is_some() { "(pt " } else { "(p " });
                self.a(&n.node.ident);
                if let Some(t) = ty {
                    self.a(" ");
                    self.expr(&t.node.expr);
                }
                if let Some(d) = d {
                    self.a(" ");
                    self.expr(d);
                }
                self.a(")");
            }
            Parameter::Args(n, ty) => {
                self.a(if ty.is_some() { "(argst " } else { "(args " });
                self.a(&n.node.ident);
                if let Some(t) = ty {
                    self.a(" ");
                    self.expr(&t.node.expr);
                }
                self.a(")");
            }
            Parameter::KwArgs(n, ty) => {
                self.a(if ty.is_some() { "(kwargst " } else { "(kwargs " });
                self.a(&n.node.ident);
                if let Some(t) = ty {
                    self.a(" ");
                    self.expr(&t.node.expr);
                }
                self.a(")");
            }
        }
    }

    fn params(&mut self, ps: &[AstParameter]) {
        self.a("(");
        for (i, p) in ps.iter().enumerate() {
            if i > 0 {
                self.a(" ");
            }
            self.param(p);
        }
        self.a(")");
    }

    fn expr(&mut self, e: &AstExpr) {
        match &e.node {
            Expr::Tuple(v) => self.exprs("tuple", &v.iter().collect::<Vec<_>>()),
            Expr::List(v) => self.exprs("list", &v.iter().collect::<Vec<_>>()),
            Expr::Dict(v) => {
                self.a("(dict");
                for (k, x) in v {
                    self.a(" (");
                    self.expr(k);
                    self.a(" ");
                    self.expr(x);
                    self.a(")");
                }
                self.a(")");
            }
            Expr::Dot(x, n) => {
                self.a("(dot ");
                self.expr(x);
                self.a(" ");
                self.a(&n.node);
                self.a(")");
            }
            Expr::Call(f, args) => {
                self.a("(call ");
                self.expr(f);
                for a in &args.args {
                    self.a(" ");
                    match &a.node {
                        Argument::Positional(x) => {
                            self.a("(pos ");
                            self.expr(x);
                        }
                        Argument::Named(n, x) => {
                            self.a("(named ");
                            self.a(&n.node);
                            self.a(" ");
                            self.expr(x);
                        }
                        Argument::Args(x) => {
                            self.a("(star ");
                            self.expr(x);
                        }
                        Argument::KwArgs(x) => {
                            self.a("(starstar ");
                            self.expr(x);
                        }
                    }
                    self.a(")");
                }
                self.a(")");
            }
            Expr::Index(b) => self.exprs("index", &[&b.0, &b.1]),
            Expr::Index2(b) => self.exprs("index2", &[&b.0, &b.1, &b.2]),
            Expr::Slice(x, a, b, c) => {
                self.a("(slice ");
                self.expr(x);
                self.opt(a);
                self.opt(b);
                self.opt(c);
                self.a(")");
            }
            Expr::Identifier(i) => {
                self.a("(id ");
                self.a(&i.node.ident);
                self.a(")");
            }
            Expr::Lambda(l) => {
                self.a("(lambda ");
                self.params(&l.params);
                self.a(" ");
                self.expr(&l.body);
                self.a(")");
            }
            Expr::Literal(l) => self.lit(l),
            Expr::Not(x) => self.exprs("not", &[x]),
            Expr::Minus(x) => self.exprs("uminus", &[x]),
            Expr::Plus(x) => self.exprs("uplus", &[x]),
            Expr::BitNot(x) => self.exprs("invert", &[x]),
            Expr::Op(l, op, r) => {
                self.a("(op ");
                self.a(&format!("{:?} ", op));
                self.expr(l);
                self.a(" ");
                self.expr(r);
                self.a(")");
            }
            Expr::If(b) => self.exprs("if", &[&b.0, &b.1, &b.2]),
            Expr::ListComprehension(x, f, cs) => {
                self.a("(listcomp ");
                self.expr(x);
                self.clauses(f, cs);
                self.a(")");
            }
            Expr::DictComprehension(kv, f, cs) => {
                self.a("(dictcomp ");
                self.expr(&kv.0);
                self.a(" ");
                self.expr(&kv.1);
                self.clauses(f, cs);
                self.a(")");
            }
            Expr::FString(f) => {
                if self.desugar {
                    self.a("(call (dot (str ");
                    self.a(&jstr(&f.node.format.node));
                    self.a(") format)");
                    for x in &f.node.expressions {
                        self.a(" (pos ");
                        self.expr(x);
                        self.a(")");
                    }
                    self.a(")");
                } else {
                    self.a("(fstring ");
                    self.a(&jstr(&f.node.format.node));
                    for x in &f.node.expressions {
                        self.a(" ");
                        self.expr(x);
                    }
                    self.a(")");
                }
            }
        }
    }

    fn target(&mut self, t: &AstAssignTarget) {
        match &t.node {
            AssignTarget::Tuple(v) => {
                self.a("(tuple");
                for x in v {
                    self.a(" ");
                    self.target(x);
                }
                self.a(")");
            }
            AssignTarget::Index(b) => self.exprs("index", &[&b.0, &b.1]),
            AssignTarget::Dot(x, n) => {
                self.a("(dot ");
                self.expr(x);
                self.a(" ");
                self.a(&n.node);
                self.a(")");
            }
            AssignTarget::Identifier(i) => {
                self.a("(id ");
                self.a(&i.node.ident);
                self.a(")");
            }
        }
    }

    /// statements of a suite, nested `Statements` flattened
    fn flat(&mut self, s: &AstStmt) {
        match &s.node {
            Stmt::Statements(v) => {
                for x in v {
                    self.flat(x);
                }
            }
            _ => {
                self.a(" ");
                self.stmt(s);
            }
        }
    }

    fn block(&mut self, s: &AstStmt) {
        self.a("(block");
        self.flat(s);
        self.a(")");
    }

    fn stmt(&mut self, s: &AstStmt) {
        match &s.node {
            Stmt::Break => self.a("(break)"),
            Stmt::Continue => self.a("(continue)"),
            Stmt::Pass => self.a("(pass)"),
            Stmt::Return(None) => self.a("(return)"),
            Stmt::Return(Some(e)) => self.exprs("return", &[e]),
            Stmt::Expression(e) => self.exprs("expr", &[e]),
            Stmt::Assign(a) => {
                self.a(if a.ty.is_some() { "(annassign " } else { "(assign " });
                self.target(&a.lhs);
                if let Some(t) = &a.ty {
                    self.a(" ");
                    self.expr(&t.node.expr);
                }
                self.a(" ");
                self.expr(&a.rhs);
                self.a(")");
            }
            Stmt::AssignModify(t, op, e) => {
                self.a(&format!("(augassign {:?} ", op));
                self.target(t);
                self.a(" ");
                self.expr(e);
                self.a(")");
            }
            Stmt::Statements(_) => self.block(s),
            Stmt::If(c, b) => {
                self.a("(if ");
                self.expr(c);
                self.a(" ");
                self.block(b);
                self.a(")");
            }
            Stmt::IfElse(c, b) => {
                self.a("(ifelse ");
                self.expr(c);
                self.a(" ");
                self.block(&b.0);
                self.a(" ");
                self.block(&b.1);
                self.a(")");
            }
            Stmt::For(f) => {
                self.a("(for ");
                self.target(&f.var);
                self.a(" ");
                self.expr(&f.over);
                self.a(" ");
                self.block(&f.body);
                self.a(")");
            }
            Stmt::Def(d) => {
                self.a("(def ");
                self.a(&d.name.node.ident);
                self.a(" ");
                self.params(&d.params);
                if let Some(t) = &d.return_type {
                    self.a(" -> ");
                    self.expr(&t.node.expr);
                }
                self.a(" ");
                self.block(&d.body);
                self.a(")");
            }
            Stmt::Load(l) => {
                self.a("(load ");
                self.a(&jstr(&l.module.node));
                for a in &l.args {
                    self.a(" (");
                    self.a(&a.local.node.ident);
                    self.a(" ");
                    self.a(&jstr(&a.their.node));
                    self.a(")");
                }
                self.a(")");
            }
        }
    }
}

fn sx_of(m: &AstModule, desugar: bool) -> String {
    let mut w = W { out: String::new(), desugar };
    w.a("(module");
    w.flat(m.statement());
    w.a(")");
    w.out
}

fn dialect_of(c: &J) -> Dialect {
    match c["d"].as_str().unwrap_or("A") {
        "S" => Dialect::Standard,
        "E" => Dialect::Extended,
        _ => Dialect::AllOptionsInternal,
    }
}

fn tokens_of(src: &str, d: &Dialect) -> J {
    let cm = CodeMap::new("case.star".to_owned(), src.to_owned());
    let mut v = Vec::new();
    for lx in Lexer::new(src, d, cm) {
        match lx {
            Ok((_, tok, _)) => {
                let dbg = format!("{:?}", tok);
                let name = dbg.split(|c| c == '(' || c == ' ' || c == '{').next().unwrap_or("").to_owned();
                let payload = match &tok {
                    Token::Comment(_) => continue,
                    Token::Identifier(s) => s.clone(),
                    Token::Int(i) => format!("{}", i),
                    Token::Float(f) => format!("{:?}", f),
                    Token::String(s) => jstr(s),
                    Token::FStringText(s) => jstr(s),
                    _ => String::new(),
                };
                v.push(json!([name, payload]));
            }
            Err(e) => {
                return json!({"lexerr": format!("{}", e.into_error().without_diagnostic()), "before": v});
            }
        }
    }
    J::Array(v)
}

fn err_of(e: &starlark_syntax::Error) -> J {
    let msg = format!("{}", e.without_diagnostic());
    let span = e.span().map(|s| json!([s.span.begin().get(), s.span.end().get()]));
    json!({"msg": msg, "span": span})
}

fn main() {
    run_cases(|c| {
        let src = c["src"].as_str().unwrap();
        let d = dialect_of(c);
        let mut out = serde_json::Map::new();
        if c["tokens"].as_bool().unwrap_or(false) {
            out.insert("tokens".to_owned(), tokens_of(src, &d));
        }
        match AstModule::parse("case.star", src.to_owned(), &d) {
            Err(e) => {
                out.insert("ok".to_owned(), json!(false));
                out.insert("err".to_owned(), err_of(&e));
            }
            Ok(m) => {
                out.insert("ok".to_owned(), json!(true));
                let sx = sx_of(&m, false);
                let sxd = sx_of(&m, true);
                let display = format!("{}", m.statement().node);
                if c["rt"].as_bool().unwrap_or(false) {
                    let mut re = serde_json::Map::new();
                    match AstModule::parse("printed.star", display.clone(), &d) {
                        Err(e) => {
                            re.insert("ok".to_owned(), json!(false));
                            re.insert("err".to_owned(), err_of(&e));
                        }
                        Ok(m2) => {
                            re.insert("ok".to_owned(), json!(true));
                            let sx2 = sx_of(&m2, false);
                            let display2 = format!("{}", m2.statement().node);
                            re.insert("same".to_owned(), json!(sx2 == sxd));
                            if sx2 != sxd {
                                re.insert("sx".to_owned(), json!(sx2));
                            }
                            re.insert("fix".to_owned(), json!(display2 == display));
                            if display2 != display {
                                re.insert("display2".to_owned(), json!(display2));
                            }
                        }
                    }
                    if c["tokens"].as_bool().unwrap_or(false) {
                        re.insert("tokens".to_owned(), tokens_of(&display, &d));
                    }
                    out.insert("re".to_owned(), J::Object(re));
                }
                if sxd != sx {
                    out.insert("sxd".to_owned(), json!(sxd));
                }
                out.insert("sx".to_owned(), json!(sx));
                out.insert("display".to_owned(), json!(display));
            }
        }
        J::Object(out)
    })
}
