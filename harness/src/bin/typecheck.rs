//! C17: the static type checker (`AstModuleTypecheck::typecheck`) observed on one module source.
//!
//! case   : {"src": "...", "run": bool}
//! result : {"parse_err": "..."}                      the source does not parse (not a C17 input)
//!          {"timeout": true}                         a typecheck run did not finish within the watchdog limit
//!          {"panic": "..."}                          (from run_cases) a run panicked
//!          {"runs_equal": bool, "tc": {...}, "tc_other": {...}?, "run": {...}?}
//!   tc  = {"errors": [{"msg","span"}], "interface": [[name, ty]...], "typemap": [[name, ty]...],
//!          "typemap_text": "...", "approx": ["..."]}
//!   run = {"outcome": "ok" | {"err": ...},
//!          "exported": [{"name","ty","checkable","ok","value","coarse"?}],   isinstance(value, <rendered interface type>);
//!                      a function type (`def(..) -> ..`, `function`, unions of them) is not a type expression: such an
//!                      exported binding is tested against `typing.Callable` instead ("coarse": true)
//!          "probes":   [{"name","tys","n","bad": [value...]}]}         isinstance(value of a local binding, <rendered TypeMap type>)
//!
//! The program may call `probe("name", value)` (a native function of this harness): the value is tested, at the
//! moment of the call, against the rendered types the checker assigned to the bindings called `name`
//! (TypeMap); a value that belongs to none of them is recorded.  This is the DIRECT ORACLE of the property on
//! the real code: the rendered type is evaluated back with `eval_type` and `TypeCompiled::new(..).matches(v)`
//! (the same path as `isinstance`).

use std::cell::RefCell;
use std::collections::BTreeMap;
use std::collections::HashMap;
use std::sync::mpsc;
use std::time::Duration;

use serde_json::Value as J;
use serde_json::json;
use starlark::environment::FrozenModule;
use starlark::environment::Globals;
use starlark::environment::GlobalsBuilder;
use starlark::environment::Module;
use starlark::eval::Evaluator;
use starlark::starlark_module;
use starlark::syntax::AstModule;
use starlark::typing::AstModuleTypecheck;
use starlark::values::Value;
use starlark::values::none::NoneType;
use starlark::values::typing::TypeCompiled;
use starlark_syntax::syntax::ast::AssignTargetP;
use starlark_syntax::syntax::ast::AstStmt;
use starlark_syntax::syntax::ast::StmtP;
use sv_harness::dialect;
use sv_harness::enc;
use sv_harness::err_json;
use sv_harness::run_cases;

struct ProbeTy {
    text: String,
    /// index of the compiled type inside the frozen type module (None: the rendered type is not a type expression)
    slot: Option<usize>,
}

#[derive(Default)]
struct ProbeState {
    types: HashMap<String, Vec<ProbeTy>>,
    /// name -> (number of probes, failing values)
    seen: BTreeMap<String, (u64, Vec<String>)>,
    tymod: Option<FrozenModule>,
}

thread_local! {
    static PROBE: RefCell<ProbeState> = RefCell::new(ProbeState::default());
}

fn matches_slot<'v>(tymod: &FrozenModule, slot: usize, v: Value<'v>, eval: &Evaluator<'v, '_, '_>) -> Option<bool> {
    let t = tymod.get_owned(&format!("T{}", slot)).ok()?;
    let tv = t.add_to_heap(eval.heap());
    let tc = TypeCompiled::new(tv, eval.heap()).ok()?;
    Some(tc.matches(v))
}

#[starlark_module]
fn probe_globals(builder: &mut GlobalsBuilder) {
    /// Test a value against the checker's types of the bindings with this name.
    fn probe<'v>(
        #[starlark(require = pos)] name: &str,
        #[starlark(require = pos)] x: Value<'v>,
        eval: &mut Evaluator<'v, '_, '_>,
    ) -> anyhow::Result<NoneType> {
        PROBE.with(|p| {
            let mut p = p.borrow_mut();
            let p = &mut *p;
            let mut any_checkable = false;
            let mut ok = false;
            if let (Some(tys), Some(tymod)) = (p.types.get(name), p.tymod.as_ref()) {
                for t in tys {
                    match t.slot {
                        None => {
                            // not renderable as a type expression: cannot refute
                            ok = true;
                        }
                        Some(s) => {
                            any_checkable = true;
                            if matches_slot(tymod, s, x, eval).unwrap_or(true) {
                                ok = true;
                            }
                        }
                    }
                }
            } else {
                ok = true;
            }
            let e = p.seen.entry(name.to_owned()).or_insert((0, Vec::new()));
            e.0 += 1;
            if any_checkable && !ok && e.1.len() < 3 {
                e.1.push(enc(x));
            }
        });
        Ok(NoneType)
    }
}

fn all_globals() -> Globals {
    use starlark::environment::LibraryExtension::*;
    let mut b = GlobalsBuilder::extended_by(&[
        StructType, RecordType, EnumType, NamespaceType, Map, Filter, Partial, Debug, Print, Pprint, Pstr, Prepr, Json, Typing,
        Internal, CallStack, SetType,
    ]);
    sv_harness::harness_globals(&mut b);
    probe_globals(&mut b);
    b.build()
}

/// Names assigned at module level (in order of first appearance).
fn top_names(stmt: &AstStmt, out: &mut Vec<String>) {
    fn target(t: &AssignTargetP<starlark_syntax::syntax::ast::AstNoPayload>, out: &mut Vec<String>) {
        match t {
            AssignTargetP::Identifier(i) => {
                if !out.contains(&i.ident) {
                    out.push(i.ident.clone())
                }
            }
            AssignTargetP::Tuple(xs) => {
                for x in xs {
                    target(&x.node, out)
                }
            }
            _ => {}
        }
    }
    match &stmt.node {
        StmtP::Statements(xs) => {
            for x in xs {
                top_names(x, out)
            }
        }
        StmtP::Assign(a) => target(&a.lhs.node, out),
        StmtP::AssignModify(l, _, _) => target(&l.node, out),
        StmtP::Def(d) => {
            if !out.contains(&d.name.ident) {
                out.push(d.name.ident.clone())
            }
        }
        StmtP::For(f) => {
            target(&f.var.node, out);
            top_names(&f.body, out)
        }
        StmtP::If(_, b) => top_names(b, out),
        StmtP::IfElse(_, bs) => {
            top_names(&bs.0, out);
            top_names(&bs.1, out)
        }
        _ => {}
    }
}

/// `name (file:span) = ty` lines of `TypeMap`'s Display.
fn parse_typemap(text: &str) -> Vec<(String, String)> {
    let mut out = Vec::new();
    for line in text.lines() {
        if let Some(p) = line.find(" (") {
            if let Some(q) = line[p..].find(") = ") {
                out.push((line[..p].to_owned(), line[p + q + 4..].to_owned()));
            }
        }
    }
    out
}

fn typecheck_once(src: &str, g: &Globals) -> Result<J, String> {
    let ast = AstModule::parse("case.star", src.to_owned(), &dialect()).map_err(|e| format!("{}", e.without_diagnostic()))?;
    let mut names = Vec::new();
    top_names(ast.statement(), &mut names);
    let (errors, typemap, interface, approx) = ast.typecheck(g, &HashMap::new());
    let errors: Vec<J> = errors.iter().map(err_json).collect();
    let tm_text = typemap.to_string();
    let tm: Vec<J> = parse_typemap(&tm_text).into_iter().map(|(n, t)| json!([n, t])).collect();
    let iface: Vec<J> = names
        .iter()
        .filter_map(|n| interface.get(n).map(|t| json!([n, t.to_string()])))
        .collect();
    let approx: Vec<J> = approx.iter().map(|a| J::String(a.to_string())).collect();
    Ok(json!({"errors": errors, "interface": iface, "typemap": tm, "typemap_text": tm_text, "approx": approx}))
}

/// One typecheck run on its own thread (large stack) with a watchdog.
fn typecheck_guarded(src: &str) -> Result<Result<J, String>, &'static str> {
    let (tx, rx) = mpsc::channel();
    let s = src.to_owned();
    let h = std::thread::Builder::new()
        .stack_size(256 << 20)
        .spawn(move || {
            let g = all_globals();
            let r = std::panic::catch_unwind(std::panic::AssertUnwindSafe(|| typecheck_once(&s, &g)));
            let _ = tx.send(r);
        })
        .expect("spawn");
    match rx.recv_timeout(Duration::from_secs(60)) {
        Ok(Ok(r)) => {
            let _ = h.join();
            Ok(r)
        }
        Ok(Err(e)) => {
            let msg = if let Some(s) = e.downcast_ref::<String>() {
                s.clone()
            } else if let Some(s) = e.downcast_ref::<&str>() {
                s.to_string()
            } else {
                "?".to_owned()
            };
            std::panic::resume_unwind(Box::new(format!("typecheck panicked: {}", msg)))
        }
        Err(mpsc::RecvTimeoutError::Timeout) => Err("timeout"),
        Err(mpsc::RecvTimeoutError::Disconnected) => {
            std::panic::resume_unwind(Box::new("typecheck thread died (stack overflow / abort?)".to_owned()))
        }
    }
}

/// A rendered type with function alternatives (`def(..) -> ..`, `function`) is not a type expression.  When it is
/// unambiguous - no plain alternative FOLLOWS a function alternative (`def() -> R | S` could be the return type
/// `R | S` or the union of a function and `S`) - return the type expression in which every function alternative is
/// replaced by `typing.Callable`: the value of such a binding must at least be callable (or one of the other alternatives).
fn coarse_type_expr(t: &str) -> Option<String> {
    if !t.is_ascii() {
        return None;
    }
    // split at ` | ` outside brackets
    let mut depth = 0i32;
    let mut parts: Vec<String> = Vec::new();
    let mut cur = String::new();
    let b = t.as_bytes();
    let mut i = 0;
    while i < b.len() {
        let c = b[i] as char;
        match c {
            '(' | '[' | '{' => depth += 1,
            ')' | ']' | '}' => depth -= 1,
            _ => {}
        }
        if depth == 0 && t[i..].starts_with(" | ") {
            parts.push(std::mem::take(&mut cur));
            i += 3;
            continue;
        }
        cur.push(c);
        i += 1;
    }
    parts.push(cur);
    let is_fn = |p: &str| p.trim().starts_with("def(") || p.trim() == "function";
    let mut out: Vec<String> = Vec::new();
    let mut seen_fn = false;
    for p in &parts {
        if is_fn(p) {
            if !seen_fn {
                out.push("typing.Callable".to_owned());
            }
            seen_fn = true;
        } else if seen_fn {
            return None;
        } else {
            out.push(p.trim().to_owned());
        }
    }
    if seen_fn { Some(out.join(" | ")) } else { None }
}

/// Compile the rendered types into a frozen module `T0..Tn`; a text that is not a type expression gets no slot.
fn build_type_module(g: &Globals, texts: &[String]) -> (Option<FrozenModule>, Vec<bool>) {
    // each type is evaluated separately first so that one unrenderable type does not spoil the others
    let mut good = Vec::new();
    for t in texts {
        let t = &coarse_text(t);
        let ok = Module::with_temp_heap(|m| {
            match AstModule::parse("t.star", format!("T = eval_type({})\n", t), &dialect()) {
                Err(_) => false,
                Ok(ast) => {
                    let mut eval = Evaluator::new(&m);
                    eval.eval_module(ast, g).is_ok()
                }
            }
        });
        good.push(ok);
    }
    let mut src = String::new();
    for (i, t) in texts.iter().enumerate() {
        if good[i] {
            src.push_str(&format!("T{} = eval_type({})\n", i, coarse_text(t)));
        }
    }
    let fm = Module::with_temp_heap(|m| {
        {
            let ast = AstModule::parse("t.star", src.clone(), &dialect()).ok()?;
            let mut eval = Evaluator::new(&m);
            eval.eval_module(ast, g).ok()?;
        }
        m.freeze().ok()
    });
    (fm, good)
}

/// Marker prefix of an interface type that is tested coarsely (never a rendered type: starts with a space).
const COARSE: &str = " coarse:";

/// The type expression actually compiled for a text.
fn coarse_text(t: &str) -> String {
    match t.strip_prefix(COARSE) {
        Some(e) => e.to_owned(),
        None => t.to_owned(),
    }
}

fn run_module(src: &str, g: &Globals, tc: &J) -> J {
    // rendered types to compile: interface + typemap
    let mut texts: Vec<String> = Vec::new();
    let idx = |t: &str, texts: &mut Vec<String>| -> usize {
        if let Some(i) = texts.iter().position(|x| x == t) {
            i
        } else {
            texts.push(t.to_owned());
            texts.len() - 1
        }
    };
    let mut iface: Vec<(String, String, usize)> = Vec::new();
    for e in tc["interface"].as_array().unwrap() {
        let (n, t) = (e[0].as_str().unwrap(), e[1].as_str().unwrap());
        // exported bindings only: a function type is tested as `typing.Callable`
        let i = match coarse_type_expr(t) {
            Some(e) => idx(&format!("{}{}", COARSE, e), &mut texts),
            None => idx(t, &mut texts),
        };
        iface.push((n.to_owned(), t.to_owned(), i));
    }
    let mut tmap: Vec<(String, String, usize)> = Vec::new();
    for e in tc["typemap"].as_array().unwrap() {
        let (n, t) = (e[0].as_str().unwrap(), e[1].as_str().unwrap());
        let i = idx(t, &mut texts);
        tmap.push((n.to_owned(), t.to_owned(), i));
    }
    let (tymod, good) = build_type_module(g, &texts);
    PROBE.with(|p| {
        let mut p = p.borrow_mut();
        p.types.clear();
        p.seen.clear();
        for (n, t, i) in &tmap {
            p.types.entry(n.clone()).or_default().push(ProbeTy {
                text: t.clone(),
                slot: if good[*i] { Some(*i) } else { None },
            });
        }
        p.tymod = tymod.clone();
    });
    let _ = sv_harness::take_transcript();
    let out = Module::with_temp_heap(|module| {
        let ast = match AstModule::parse("case.star", src.to_owned(), &dialect()) {
            Ok(a) => a,
            Err(e) => return json!({"outcome": {"err": err_json(&e)}}),
        };
        let mut eval = Evaluator::new(&module);
        let res = eval.eval_module(ast, g);
        let outcome = match &res {
            Ok(_) => json!("ok"),
            Err(e) => json!({"err": err_json(e)}),
        };
        let mut exported = Vec::new();
        for (n, t, i) in &iface {
            let Some(v) = module.get(n) else {
                exported.push(json!({"name": n, "ty": t, "checkable": false, "unset": true}));
                continue;
            };
            let r = match (&tymod, good[*i]) {
                (Some(tm), true) => matches_slot(tm, *i, v, &eval),
                _ => None,
            };
            let mut val = enc(v);
            val.truncate(300);
            exported.push(json!({"name": n, "ty": t, "checkable": r.is_some(), "ok": r.unwrap_or(true), "value": val,
                                 "coarse": texts[*i].starts_with(COARSE)}));
        }
        json!({"outcome": outcome, "exported": exported})
    });
    let probes: Vec<J> = PROBE.with(|p| {
        let p = p.borrow();
        p.seen
            .iter()
            .map(|(n, (cnt, bad))| {
                let tys: Vec<J> = p
                    .types
                    .get(n)
                    .map(|v| v.iter().map(|t| json!([t.text, t.slot.is_some()])).collect())
                    .unwrap_or_default();
                json!({"name": n, "tys": tys, "n": cnt, "bad": bad})
            })
            .collect()
    });
    PROBE.with(|p| {
        let mut p = p.borrow_mut();
        p.tymod = None;
        p.types.clear();
        p.seen.clear();
    });
    let _ = sv_harness::take_transcript();
    let mut out = out;
    out["probes"] = J::Array(probes);
    out
}

fn main() {
    let g = all_globals();
    run_cases(|c| {
        let src = c["src"].as_str().unwrap();
        let want_run = c["run"].as_bool().unwrap_or(false);
        let mut runs = Vec::new();
        for _ in 0..3 {
            match typecheck_guarded(src) {
                Err(_) => return json!({"timeout": true}),
                Ok(Err(e)) => return json!({"parse_err": e}),
                Ok(Ok(j)) => runs.push(j),
            }
        }
        let equal = runs[0] == runs[1] && runs[1] == runs[2];
        let mut out = json!({"runs_equal": equal, "tc": runs[0]});
        if !equal {
            out["tc_other"] = if runs[0] != runs[1] { runs[1].clone() } else { runs[2].clone() };
        }
        if want_run {
            out["run"] = run_module(src, &g, &runs[0]);
        }
        out
    });
}
