//! C08: argument binding through every call path of the real library.
//!
//! case   : {"id", "def_src", "natives": [names], "calls": [{"src", "src_opaque", "pos", "named", "star", "kw"}]}
//! result : {"id", "results": [{"<path>": {"ok": neutral} | {"err": class, "msg": first line}, ...}, ...]}
//!          or {"id", "setup_err": msg} when the signature itself cannot be set up.
//!
//! Paths (see the agent guide of C08): direct, opaque_fn, opaque_args, in_def, in_def_opaque,
//! struct_attr, host, loaded, loaded_in_def, loaded_in_def_const, host_frozen and, for each native
//! `N` of the case, native:N, native_opaque:N, native_in_def:N, method:N, bound_method:N.

use std::cell::Cell;
use std::fmt;
use std::panic::AssertUnwindSafe;
use std::panic::catch_unwind;
use std::sync::OnceLock;

use allocative::Allocative;
use dupe::Dupe;
use serde_json::Map;
use serde_json::Value as J;
use serde_json::json;
use starlark::any::ProvidesStaticType;
use starlark::environment::FrozenModule;
use starlark::environment::Globals;
use starlark::environment::GlobalsBuilder;
use starlark::environment::Methods;
use starlark::environment::MethodsBuilder;
use starlark::environment::Module;
use starlark::eval::Evaluator;
use starlark::eval::FileLoader;
use starlark::starlark_module;
use starlark::starlark_simple_value;
use starlark::syntax::AstModule;
use starlark::values::Heap;
use starlark::values::NoSerialize;
use starlark::values::StarlarkPagable;
use starlark::values::StarlarkValue;
use starlark::values::Value;
use starlark::values::dict::DictRef;
use starlark::values::list::ListRef;
use starlark::values::starlark_value;
use starlark::values::tuple::AllocTuple;
use starlark::values::tuple::TupleRef;
use sv_harness::dialect;
use sv_harness::run_cases;

// ---------------------------------------------------------------------------------------------
// Natives
// ---------------------------------------------------------------------------------------------

fn tup<'v>(heap: Heap<'v>, xs: &[Value<'v>]) -> Value<'v> {
    heap.alloc(AllocTuple(xs.to_vec()))
}


#[starlark_module]
fn bind_natives(builder: &mut GlobalsBuilder) {
    fn n1<'v>(a: Value<'v>, heap: Heap<'v>) -> anyhow::Result<Value<'v>> {
        Ok(tup(heap, &[a]))
    }
    fn n2<'v>(a: Value<'v>, b: Value<'v>, heap: Heap<'v>) -> anyhow::Result<Value<'v>> {
        Ok(tup(heap, &[a, b]))
    }
    fn n3<'v>(a: Value<'v>, #[starlark(default = 101)] b: i32, heap: Heap<'v>) -> anyhow::Result<Value<'v>> {
        Ok(tup(heap, &[a, heap.alloc(b)]))
    }
    fn n4<'v>(a: Value<'v>, #[starlark(default = 101)] b: Value<'v>, heap: Heap<'v>) -> anyhow::Result<Value<'v>> {
        Ok(tup(heap, &[a, b]))
    }
    fn n5<'v>(#[starlark(require = pos)] a: Value<'v>, heap: Heap<'v>) -> anyhow::Result<Value<'v>> {
        Ok(tup(heap, &[a]))
    }
    fn n6<'v>(
        #[starlark(require = pos)] a: Value<'v>,
        #[starlark(require = pos, default = 101)] b: i32,
        heap: Heap<'v>,
    ) -> anyhow::Result<Value<'v>> {
        Ok(tup(heap, &[a, heap.alloc(b)]))
    }
    fn n7<'v>(
        #[starlark(require = pos)] a: Value<'v>,
        #[starlark(kwargs)] b: Value<'v>,
        heap: Heap<'v>,
    ) -> anyhow::Result<Value<'v>> {
        Ok(tup(heap, &[a, b]))
    }
    fn n8<'v>(a: Value<'v>, #[starlark(args)] b: Value<'v>, heap: Heap<'v>) -> anyhow::Result<Value<'v>> {
        Ok(tup(heap, &[a, b]))
    }
    fn n9<'v>(a: Value<'v>, #[starlark(kwargs)] b: Value<'v>, heap: Heap<'v>) -> anyhow::Result<Value<'v>> {
        Ok(tup(heap, &[a, b]))
    }
    fn n10<'v>(#[starlark(args)] a: Value<'v>, heap: Heap<'v>) -> anyhow::Result<Value<'v>> {
        Ok(tup(heap, &[a]))
    }
    fn n11<'v>(#[starlark(kwargs)] a: Value<'v>, heap: Heap<'v>) -> anyhow::Result<Value<'v>> {
        Ok(tup(heap, &[a]))
    }
    fn n12<'v>(
        #[starlark(args)] a: Value<'v>,
        #[starlark(kwargs)] b: Value<'v>,
        heap: Heap<'v>,
    ) -> anyhow::Result<Value<'v>> {
        Ok(tup(heap, &[a, b]))
    }
    fn n13<'v>(a: Value<'v>, #[starlark(require = named)] b: Value<'v>, heap: Heap<'v>) -> anyhow::Result<Value<'v>> {
        Ok(tup(heap, &[a, b]))
    }
    fn n14<'v>(
        a: Value<'v>,
        #[starlark(require = named)] b: Value<'v>,
        #[starlark(require = named, default = 102)] c: i32,
        heap: Heap<'v>,
    ) -> anyhow::Result<Value<'v>> {
        Ok(tup(heap, &[a, b, heap.alloc(c)]))
    }
    fn n15<'v>(#[starlark(require = pos)] a: Value<'v>, b: Value<'v>, heap: Heap<'v>) -> anyhow::Result<Value<'v>> {
        Ok(tup(heap, &[a, b]))
    }
    fn n16<'v>(
        #[starlark(args)] a: Value<'v>,
        #[starlark(require = named)] b: Value<'v>,
        heap: Heap<'v>,
    ) -> anyhow::Result<Value<'v>> {
        Ok(tup(heap, &[a, b]))
    }
    fn n17<'v>(
        #[starlark(require = pos)] a: Value<'v>,
        #[starlark(default = 101)] b: Value<'v>,
        #[starlark(args)] c: Value<'v>,
        #[starlark(require = named)] d: Value<'v>,
        #[starlark(kwargs)] e: Value<'v>,
        heap: Heap<'v>,
    ) -> anyhow::Result<Value<'v>> {
        Ok(tup(heap, &[a, b, c, d, e]))
    }
    fn n18<'v>(a: Value<'v>, b: Value<'v>, c: Value<'v>, heap: Heap<'v>) -> anyhow::Result<Value<'v>> {
        Ok(tup(heap, &[a, b, c]))
    }
    fn n19<'v>(
        a: Value<'v>,
        #[starlark(default = 101)] b: Value<'v>,
        #[starlark(default = 102)] c: Value<'v>,
        heap: Heap<'v>,
    ) -> anyhow::Result<Value<'v>> {
        Ok(tup(heap, &[a, b, c]))
    }
}

/// Which natives have a method twin (`nK` -> `mK`).
const METHOD_TWINS: &[&str] = &["n2", "n4", "n8", "n9", "n13", "n17"];

#[starlark_module]
fn bind_methods(builder: &mut MethodsBuilder) {
    fn m2<'v>(this: Value<'v>, a: Value<'v>, b: Value<'v>, heap: Heap<'v>) -> anyhow::Result<Value<'v>> {
        let _ = this;
        Ok(tup(heap, &[a, b]))
    }
    fn m4<'v>(
        this: Value<'v>,
        a: Value<'v>,
        #[starlark(default = 101)] b: Value<'v>,
        heap: Heap<'v>,
    ) -> anyhow::Result<Value<'v>> {
        let _ = this;
        Ok(tup(heap, &[a, b]))
    }
    fn m8<'v>(
        this: Value<'v>,
        a: Value<'v>,
        #[starlark(args)] b: Value<'v>,
        heap: Heap<'v>,
    ) -> anyhow::Result<Value<'v>> {
        let _ = this;
        Ok(tup(heap, &[a, b]))
    }
    fn m9<'v>(
        this: Value<'v>,
        a: Value<'v>,
        #[starlark(kwargs)] b: Value<'v>,
        heap: Heap<'v>,
    ) -> anyhow::Result<Value<'v>> {
        let _ = this;
        Ok(tup(heap, &[a, b]))
    }
    fn m13<'v>(
        this: Value<'v>,
        a: Value<'v>,
        #[starlark(require = named)] b: Value<'v>,
        heap: Heap<'v>,
    ) -> anyhow::Result<Value<'v>> {
        let _ = this;
        Ok(tup(heap, &[a, b]))
    }
    fn m17<'v>(
        this: Value<'v>,
        #[starlark(require = pos)] a: Value<'v>,
        #[starlark(default = 101)] b: Value<'v>,
        #[starlark(args)] c: Value<'v>,
        #[starlark(require = named)] d: Value<'v>,
        #[starlark(kwargs)] e: Value<'v>,
        heap: Heap<'v>,
    ) -> anyhow::Result<Value<'v>> {
        let _ = this;
        Ok(tup(heap, &[a, b, c, d, e]))
    }
}

#[derive(Debug, ProvidesStaticType, NoSerialize, Allocative, StarlarkPagable)]
struct BindObj;

impl fmt::Display for BindObj {
    fn fmt(&self, f: &mut fmt::Formatter<'_>) -> fmt::Result {
        f.write_str("bindobj")
    }
}

starlark_simple_value!(BindObj);

starlark::methods_static!(BIND_METHODS = bind_methods);

#[starlark_value(type = "bindobj")]
impl<'v> StarlarkValue<'v> for BindObj {
    fn get_methods() -> Option<&'static Methods> {
        Some(BIND_METHODS.methods())
    }
}

fn globals() -> &'static Globals {
    static G: OnceLock<Globals> = OnceLock::new();
    G.get_or_init(|| {
        use starlark::environment::LibraryExtension::*;
        let mut b = GlobalsBuilder::extended_by(&[
            StructType, RecordType, EnumType, NamespaceType, Map, Filter, Partial, Debug, Print,
            Pprint, Pstr, Prepr, Json, Typing, Internal, CallStack, SetType,
        ]);
        sv_harness::harness_globals(&mut b);
        bind_natives(&mut b);
        b.set("OBJ", BindObj);
        b.build()
    })
}

// ---------------------------------------------------------------------------------------------
// Encoding of results and errors
// ---------------------------------------------------------------------------------------------

fn enc_elem(v: Value, raw_str: bool, depth: usize, out: &mut String) {
    if depth > 16 {
        out.push_str("...");
    } else if starlark::verif_hooks::int_repr(v).is_some() {
        out.push_str(&v.to_str());
    } else if let Some(t) = TupleRef::from_value(v) {
        enc_seq(t.iter(), depth, out);
    } else if let Some(l) = ListRef::from_value(v) {
        enc_seq(l.iter(), depth, out);
    } else if let Some(d) = DictRef::from_value(v) {
        out.push('{');
        for (i, (k, x)) in d.iter().enumerate() {
            if i > 0 {
                out.push(',');
            }
            enc_elem(k, true, depth + 1, out);
            out.push(':');
            enc_elem(x, false, depth + 1, out);
        }
        out.push('}');
    } else if let (true, Some(s)) = (raw_str, v.unpack_str()) {
        out.push_str(s);
    } else {
        out.push('?');
        out.push_str(&v.to_repr());
    }
}

fn enc_seq<'v>(it: impl Iterator<Item = Value<'v>>, depth: usize, out: &mut String) {
    out.push('[');
    for (i, x) in it.enumerate() {
        if i > 0 {
            out.push(',');
        }
        enc_elem(x, false, depth + 1, out);
    }
    out.push(']');
}

/// Neutral encoding of the tuple returned by `f`.
fn neutral(r: Value) -> String {
    match TupleRef::from_value(r) {
        None => format!("!{}", r.to_repr()),
        Some(t) => {
            let mut out = String::new();
            for (i, x) in t.iter().enumerate() {
                if i > 0 {
                    out.push(' ');
                }
                enc_elem(x, false, 0, &mut out);
            }
            out
        }
    }
}

fn clip(s: &str, n: usize) -> String {
    s.chars().take(n).collect()
}

fn between<'a>(s: &'a str, pre: &str, post: &str) -> Option<&'a str> {
    let i = s.find(pre)? + pre.len();
    let j = s[i..].find(post)? + i;
    Some(&s[i..j])
}

fn classify(msg: &str, is_parser: bool) -> String {
    if let Some(x) = between(msg, "Argument `", "` occurs more than once") {
        return format!("repeated:{}", x);
    }
    if msg.contains("The argument provided for *args is not an identifier") {
        return "notstring".to_owned();
    }
    if let Some(x) = between(msg, "Missing positional-only parameter `", "` for call to") {
        return format!("missing:po:{}", x);
    }
    if let Some(x) = between(msg, "Missing named-only parameter `", "` for call to") {
        return format!("missing:ko:{}", x);
    }
    if let Some(x) = between(msg, "Missing parameter `", "` for call to") {
        return format!("missing:pk:{}", x);
    }
    if let Some(x) = between(msg, "Found ", " extra positional argument(s)") {
        return format!("extrapos:{}", x);
    }
    if let Some(x) = between(msg, "Found `", "` extra named parameter(s)") {
        return format!("extranamed:{}", x.split("` `").collect::<Vec<_>>().join(","));
    }
    if msg.contains("Wrong number of positional arguments, expected") {
        if let Some(i) = msg.find(", got ") {
            let n: String = msg[i + 6..].chars().take_while(|c| c.is_ascii_digit()).collect();
            return format!("wrongcount:{}", n);
        }
    }
    if is_parser {
        return format!("parse:{}", clip(msg, 80));
    }
    format!("other:{}", clip(msg, 80))
}

fn err_out(e: &starlark::Error) -> J {
    let full = format!("{}", e.without_diagnostic());
    let line = full.lines().next().unwrap_or("");
    let is_parser = matches!(e.kind(), starlark::ErrorKind::Parser(_));
    json!({"err": classify(line, is_parser), "msg": clip(line, 160)})
}

fn out_of(r: Result<Value, starlark::Error>) -> J {
    match r {
        Ok(v) => json!({"ok": neutral(v)}),
        Err(e) => err_out(&e),
    }
}

thread_local! {
    /// Set when a path panicked. A panic that unwinds out of an allocation of the shared module's
    /// frozen heap leaves that heap unusable (see `run_case`), so the module is abandoned.
    static PANICKED: Cell<bool> = const { Cell::new(false) };
}

/// Run one path; a panic is reported for that path only.
fn guarded(f: impl FnOnce() -> J) -> J {
    match catch_unwind(AssertUnwindSafe(f)) {
        Ok(j) => j,
        Err(e) => {
            PANICKED.with(|p| p.set(true));
            let msg = if let Some(s) = e.downcast_ref::<String>() {
                s.clone()
            } else if let Some(s) = e.downcast_ref::<&str>() {
                s.to_string()
            } else {
                "?".to_owned()
            };
            json!({"err": "panic", "msg": clip(msg.lines().next().unwrap_or(""), 160)})
        }
    }
}

// ---------------------------------------------------------------------------------------------
// Evaluation helpers
// ---------------------------------------------------------------------------------------------

struct OneLoader(FrozenModule);

impl FileLoader for OneLoader {
    fn load(&self, path: &str) -> starlark::Result<FrozenModule> {
        if path == "lib.star" {
            Ok(self.0.dupe())
        } else {
            Err(starlark::Error::new_other(anyhow::anyhow!("unknown module `{}`", path)))
        }
    }
}

/// Evaluate `src` in `m` (on top of whatever it already contains) and read `R`.
fn snippet<'v>(m: &Module<'v>, src: String, loader: Option<&OneLoader>) -> J {
    guarded(|| {
        let ast = match AstModule::parse("call.star", src, &dialect()) {
            Ok(a) => a,
            Err(e) => return err_out(&e),
        };
        let res = {
            let mut eval = Evaluator::new(m);
            if let Some(l) = loader {
                eval.set_loader(l);
            }
            eval.eval_module(ast, globals())
        };
        match res {
            Err(e) => err_out(&e),
            Ok(_) => match m.get("R") {
                Some(v) => json!({"ok": neutral(v)}),
                None => json!({"err": "other:no R", "msg": ""}),
            },
        }
    })
}

/// `snippet` in a fresh module that can `load("lib.star", ..)`.
fn loaded_snippet(loader: &OneLoader, body: String) -> J {
    guarded(|| {
        Module::with_temp_heap(|m| {
            snippet(&m, format!("load(\"lib.star\", \"f\")\n{}", body), Some(loader))
        })
    })
}

fn jval<'v>(heap: Heap<'v>, j: &J) -> Value<'v> {
    match j {
        J::Null => Value::new_none(),
        J::Bool(b) => Value::new_bool(*b),
        J::Number(n) => match n.as_i64() {
            Some(i) => heap.alloc(i),
            None => match n.to_string().parse::<num_bigint::BigInt>() {
                Ok(b) => heap.alloc(b),
                Err(_) => heap.alloc(n.as_f64().unwrap_or(f64::NAN)),
            },
        },
        J::String(s) => heap.alloc(s.as_str()),
        J::Array(xs) => heap.alloc(xs.iter().map(|x| jval(heap, x)).collect::<Vec<_>>()),
        J::Object(_) => heap.alloc(j.to_string()),
    }
}

/// `eval_function(f, pos, named)` in module `m`.
fn host_call<'v>(m: &Module<'v>, f: Value<'v>, call: &J) -> J {
    guarded(|| {
        let heap = m.heap();
        let empty = Vec::new();
        let pos: Vec<Value<'v>> = call["pos"]
            .as_array()
            .unwrap_or(&empty)
            .iter()
            .map(|x| jval(heap, x))
            .collect();
        let named_j = call["named"].as_array().unwrap_or(&empty);
        let named: Vec<(&str, Value<'v>)> = named_j
            .iter()
            .map(|p| (p[0].as_str().unwrap_or("?"), jval(heap, &p[1])))
            .collect();
        let mut eval = Evaluator::new(m);
        out_of(eval.eval_function(f, &pos, &named))
    })
}

fn def_caller(callee: &str, args: &str) -> String {
    format!("def caller():\n    return {}({})\nR = caller()\n", callee, args)
}

fn eval_setup<'v>(m: &Module<'v>, src: String) -> Result<(), String> {
    let first = |e: starlark::Error| {
        clip(format!("{}", e.without_diagnostic()).lines().next().unwrap_or(""), 160)
    };
    let ast = AstModule::parse("lib.star", src, &dialect()).map_err(first)?;
    let mut eval = Evaluator::new(m);
    eval.eval_module(ast, globals()).map_err(first)?;
    Ok(())
}

fn run_case(case: &J) -> J {
    let id = case["id"].clone();
    let def_src = case["def_src"].as_str().unwrap_or("").to_owned();
    let empty = Vec::new();
    let natives: Vec<&str> = case["natives"]
        .as_array()
        .unwrap_or(&empty)
        .iter()
        .filter_map(|x| x.as_str())
        .collect();
    let calls = case["calls"].as_array().unwrap_or(&empty);

    // The frozen library module.
    let frozen: Result<FrozenModule, String> = Module::with_temp_heap(|m| {
        eval_setup(&m, def_src.clone())?;
        m.freeze().map_err(|e| format!("freeze: {:?}", e))
    });
    let loader = match frozen {
        Ok(f) => OneLoader(f),
        Err(e) => return json!({"id": id, "setup_err": e}),
    };

    // The shared module is replaced every `reset_every` calls, and at once after a panic.
    //
    // Why: every `eval_module` allocates on the module's frozen heap. A frozen heap's arena is a
    // chain of chunk parts, and left-over parts of dropped heaps (the short-lived modules of the
    // load paths) are recycled through a per-thread cache, so the chain of a long-lived module gets
    // deeper by small steps. At depth 32 `next_chunk_size` (heap/allocator/alloc/per_thread.rs)
    // panics on `512u32.checked_shl(32).unwrap()` (and asks for 2 GiB chunks from depth 22 on);
    // the unwind frees the whole chain, and the module's names then dangle (observed as SIGSEGV in
    // `ModuleScopes::enter_module` on the next evaluation).
    let reset_every = reset_every();
    let mut results: Vec<J> = Vec::with_capacity(calls.len());
    let mut idx = 0usize;
    let mut retrying = false;
    while idx < calls.len() {
        let r: Result<(), String> = Module::with_temp_heap(|m| {
            eval_setup(&m, format!("{}S = struct(f = f)\n", def_src))?;
            if m.get("f").is_none() {
                return Err("no f".to_owned());
            }
            let mut done_here = 0usize;
            while idx < calls.len() && done_here < reset_every {
                PANICKED.with(|p| p.set(false));
                let o = run_call(&m, &loader, &natives, &calls[idx], !retrying);
                if PANICKED.with(|p| p.get()) {
                    if !retrying {
                        // once more, on a fresh module
                        retrying = true;
                        return Ok(());
                    }
                    // panicked on a fresh module too: that is the call's result
                    retrying = false;
                    results.push(o);
                    idx += 1;
                    return Ok(());
                }
                retrying = false;
                results.push(o);
                idx += 1;
                done_here += 1;
            }
            Ok(())
        });
        if let Err(e) = r {
            return json!({"id": id, "setup_err": e});
        }
    }
    json!({"id": id, "results": results})
}

fn reset_every() -> usize {
    static N: OnceLock<usize> = OnceLock::new();
    *N.get_or_init(|| {
        std::env::var("BIND_RESET_EVERY")
            .ok()
            .and_then(|s| s.parse::<usize>().ok())
            .filter(|n| *n > 0)
            .unwrap_or(8)
    })
}

/// All paths of one call; `m` already defines `f` and `S`.
///
/// With `stop_on_panic` the paths after a panicking one are not run (the caller repeats the whole
/// call on a fresh module, and `m` may be unusable); without it every path is run regardless.
fn run_call<'v>(
    m: &Module<'v>,
    loader: &OneLoader,
    natives: &[&str],
    call: &J,
    stop_on_panic: bool,
) -> J {
    let src = call["src"].as_str().unwrap_or("");
    let srco = call["src_opaque"].as_str().unwrap_or("");
    let plain = call["star"].is_null() && call["kw"].is_null();
    let mut o = Map::new();
    let mut put = |k: &str, v: &dyn Fn() -> J| {
        if path_enabled(k) && !(stop_on_panic && PANICKED.with(|p| p.get())) {
            o.insert(k.to_owned(), v());
        }
    };
    // paths on the module that defines f
    put("direct", &|| snippet(m, format!("R = f({})\n", src), None));
    put("opaque_fn", &|| snippet(m, format!("R = opaque(f)({})\n", src), None));
    put("opaque_args", &|| snippet(m, format!("R = f({})\n", srco), None));
    put("in_def", &|| snippet(m, def_caller("f", src), None));
    put("in_def_opaque", &|| snippet(m, def_caller("opaque(f)", srco), None));
    put("struct_attr", &|| snippet(m, format!("R = S.f({})\n", srco), None));
    if plain {
        // `f` is looked up afresh: the heap of `m` may be garbage collected (moving) between
        // top-level statements, so no `Value` is kept across evaluations.
        put("host", &|| host_call(m, m.get("f").expect("f vanished"), call));
    }
    // paths through the frozen module
    put("loaded", &|| loaded_snippet(loader, format!("R = f({})\n", src)));
    put("loaded_in_def", &|| loaded_snippet(loader, def_caller("f", srco)));
    put("loaded_in_def_const", &|| loaded_snippet(loader, def_caller("f", src)));
    if plain {
        put("host_frozen", &|| {
            guarded(|| {
                Module::with_temp_heap(|m2| match loader.0.get_owned("f") {
                    Err(e) => {
                        json!({"err": "other:no frozen f", "msg": clip(&e.to_string(), 160)})
                    }
                    Ok(ff) => {
                        let ff = ff.add_to_heap(m2.heap());
                        host_call(&m2, ff, call)
                    }
                })
            })
        });
    }
    // native twins of the signature
    for n in natives {
        put(&format!("native:{}", n), &|| {
            snippet(m, format!("R = {}({})\n", n, src), None)
        });
        put(&format!("native_opaque:{}", n), &|| {
            snippet(m, format!("R = opaque({})({})\n", n, srco), None)
        });
        put(&format!("native_in_def:{}", n), &|| snippet(m, def_caller(n, srco), None));
        if METHOD_TWINS.contains(n) {
            let meth = format!("OBJ.m{}", &n[1..]);
            put(&format!("method:{}", n), &|| {
                snippet(m, format!("R = {}({})\n", meth, srco), None)
            });
            put(&format!("bound_method:{}", n), &|| {
                snippet(m, format!("R = opaque({})({})\n", meth, src), None)
            });
        }
    }
    J::Object(o)
}

/// Debug knob: `BIND_PATHS=direct,host,native` restricts the paths that are run (match on the key
/// up to the first `:`); unset = all paths.
fn path_enabled(key: &str) -> bool {
    static ONLY: OnceLock<Option<Vec<String>>> = OnceLock::new();
    let only = ONLY.get_or_init(|| {
        std::env::var("BIND_PATHS")
            .ok()
            .map(|s| s.split(',').map(|x| x.trim().to_owned()).collect())
    });
    match only {
        None => true,
        Some(xs) => {
            let base = key.split(':').next().unwrap_or(key);
            xs.iter().any(|x| x == base)
        }
    }
}

fn main() {
    // Debug knobs of the instrumented library: collect at every k-th safepoint / poison freed arenas.
    if let Some(k) = std::env::var("BIND_GC_EVERY").ok().and_then(|s| s.parse::<u64>().ok()) {
        starlark::verif_hooks::set_gc_every(k);
    }
    if std::env::var("BIND_POISON").is_ok() {
        starlark::verif_hooks::set_poison(true);
    }
    run_cases(run_case);
}
