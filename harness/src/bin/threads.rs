//! C20: concurrent use of shared frozen modules vs the same workloads run sequentially.
//!
//! `threads <cases.jsonl> <out.jsonl>`: one JSON round per line, one JSON result per line (flushed per round).
//! Arena poisoning is ON for the whole process (a frozen heap freed while still in use reads as 0xDB garbage).
//!
//! round  = {"id", "seed", "libs":[{"name","src"}], "threads":[{"ops":[op..]}], "seq_first":bool,
//!           "share_globals":bool, "stack_mb":n, "jitter_us":n}
//! op     = {"op":"eval","src",..,"gc":k}                    evaluate in a fresh module (loads libs / own modules), drop it
//!        | {"op":"build","name","src","gc":k}               evaluate, freeze, keep as own module `name` (loadable later)
//!        | {"op":"drop","name","send":bool,"sym"}           drop an own module here, or send it to another thread which
//!                                                           re-reads `sym` from it and drops it there
//!        | {"op":"handle","mod","sym","send":bool}          `get_owned(sym)`: read it (call it if it is a function), then
//!                                                           drop the handle here or on another thread (which re-reads first)
//!        | {"op":"globals","kind":"standard"|"extended"|"harness","adopt":bool}   build a Globals, observe its names
//! `"recheck":true` (with `seq_first`): the workloads are run alone a second time after the concurrent phase and must
//! reproduce the first sequential transcripts (`rediff`).  `"kind":"churn"` rounds: see `run_churn`.
//! `"fresh_libs":true` rounds (`run_fresh_round`): the alone transcript of each workload is taken on a FRESH copy of the libraries,
//! and the concurrent phase runs `repeat` times on further fresh copies (thread `"group"`s started together / staggered).
//! (`"inject":"double-drop"` is a self-test knob: every worker drops its clone of the first library once too often.)
//! result = {"id","threads","ops","equal":bool,"diff":{..}|null,"xdrops":n,"xfail":[..],"events":[..],"panic"?}
//!
//! A round that runs longer than `limit_s` (default 60) ends the process: exit status 77 when it is still computing (a
//! generated program that is too expensive; skipped), 78 when all threads are idle (deadlock).
//!
//! Every thread's transcript (per op: the `emit`/`print` output, exported values, outcome) is compared with the
//! transcript of the same op list run alone on one thread (sequential baseline, before or after the concurrent
//! phase).  `events` is the heap-level history (alloc/clone/send/recv/read/drop of frozen modules and handles) in
//! the order of a global sequence counter; Conc/Cases.v replays it on the Coq model.

use std::cell::RefCell;
use std::fs::File;
use std::io::BufRead;
use std::io::BufReader;
use std::io::Write;
use std::panic::AssertUnwindSafe;
use std::panic::catch_unwind;
use std::sync::Arc;
use std::sync::Barrier;
use std::sync::atomic::AtomicU64;
use std::sync::atomic::Ordering;
use std::sync::mpsc::Receiver;
use std::sync::mpsc::Sender;
use std::sync::mpsc::channel;
use std::time::Duration;
use std::time::Instant;

use dupe::Dupe;
use serde_json::Value as J;
use serde_json::json;
use starlark::PrintHandler;
use starlark::environment::FrozenModule;
use starlark::environment::Globals;
use starlark::environment::Module;
use starlark::eval::Evaluator;
use starlark::eval::FileLoader;
use starlark::syntax::AstModule;
use starlark::values::OwnedFrozen;
use starlark::values::Value;
use sv_harness::TRANSCRIPT;
use sv_harness::dialect;
use sv_harness::enc;
use sv_harness::take_transcript;

type Handle = OwnedFrozen<Value<'static>>;
type Chunk = (usize, usize);

static SEQ: AtomicU64 = AtomicU64::new(0);

fn tick() -> u64 {
    SEQ.fetch_add(1, Ordering::SeqCst)
}

struct Rng(u64);
impl Rng {
    fn next(&mut self) -> u64 {
        let mut x = self.0;
        x ^= x >> 12;
        x ^= x << 25;
        x ^= x >> 27;
        self.0 = x;
        x.wrapping_mul(0x2545F4914F6CDD1D)
    }
    fn below(&mut self, n: u64) -> u64 {
        if n == 0 { 0 } else { self.next() % n }
    }
}

struct Printer;
impl PrintHandler for Printer {
    fn println(&self, text: &str) -> starlark::Result<()> {
        TRANSCRIPT.with(|t| t.borrow_mut().push(format!("print:{}", text)));
        Ok(())
    }
}

fn first_line(s: &str) -> String {
    s.lines().next().unwrap_or("").chars().take(300).collect()
}

fn panic_msg(e: &(dyn std::any::Any + Send)) -> String {
    if let Some(s) = e.downcast_ref::<String>() {
        s.clone()
    } else if let Some(s) = e.downcast_ref::<&str>() {
        (*s).to_owned()
    } else {
        "?".to_owned()
    }
}

/// A frozen module held by a thread, with its model name. (References from one frozen heap to another -
/// `add_reference` at `load()` - are internal to the heaps and not part of the recorded history.)
#[derive(Clone)]
struct Held {
    fm: FrozenModule,
    id: Chunk,
}

/// Things that travel to another thread to be re-read and dropped there.
enum Item {
    Module { held: Held, sym: String, expect: String },
    Handle { h: Handle, id: Chunk, expect: String },
}

struct Loader<'a> {
    mods: &'a [(String, Held)],
    loaded: RefCell<Vec<Chunk>>,
}

impl<'a> FileLoader for Loader<'a> {
    fn load(&self, path: &str) -> starlark::Result<FrozenModule> {
        match self.mods.iter().rev().find(|(n, _)| n == path) {
            Some((_, h)) => {
                if !self.loaded.borrow().contains(&h.id) {
                    self.loaded.borrow_mut().push(h.id);
                }
                Ok(h.fm.dupe())
            }
            None => Err(starlark::Error::new_other(anyhow::anyhow!(
                "loader does not know the module `{}`",
                path
            ))),
        }
    }
}

struct Ctx {
    tid: usize,
    conc: bool,
    /// loadable modules: shared libraries first, then own modules in creation order
    mods: Vec<(String, Held)>,
    nlibs: usize,
    next_alloc: usize,
    globals: Globals,
    peers: Vec<Sender<Item>>,
    events: Vec<(u64, String)>,
    rng: Rng,
    xdrops: usize,
    xfail: Vec<String>,
    jitter_us: u64,
}

impl Ctx {
    fn ev(&mut self, s: String) {
        if self.conc {
            self.events.push((tick(), s));
        }
    }

    fn ev_held(&mut self, what: &str, h: &Held) {
        let t = self.tid;
        self.ev(format!("{} {} {} {}", what, t, h.id.0, h.id.1));
    }

    /// Evaluate `src` in a fresh module; optionally freeze it. Returns the transcript.
    fn eval(&mut self, name: &str, src: &str, gc: u64, freeze: bool) -> Vec<String> {
        let _ = take_transcript();
        let loader = Loader { mods: &self.mods, loaded: RefCell::new(Vec::new()) };
        let globals = self.globals.dupe();
        starlark::verif_hooks::set_gc_every(gc);
        let (outcome, frozen): (String, Option<FrozenModule>) = Module::with_temp_heap(|module| {
            let res = match AstModule::parse(name, src.to_owned(), &dialect()) {
                Err(e) => Err(e),
                Ok(ast) => {
                    let mut eval = Evaluator::new(&module);
                    eval.set_loader(&loader);
                    eval.set_print_handler(&Printer);
                    eval.eval_module(ast, &globals).map(|v| enc(v))
                }
            };
            match res {
                Err(e) => {
                    let line = e.span().map(|s| s.resolve_span().begin.line + 1).unwrap_or(0);
                    (format!("ERR@{}:{}", line, first_line(&format!("{}", e.without_diagnostic()))), None)
                }
                Ok(v) => {
                    if freeze {
                        match module.freeze() {
                            Ok(fm) => (format!("ok:{}", v), Some(fm)),
                            Err(e) => (format!("FREEZE-ERR:{}", first_line(&format!("{:?}", e))), None),
                        }
                    } else {
                        (format!("ok:{}", v), None)
                    }
                }
            }
        });
        starlark::verif_hooks::set_gc_every(0);
        let mut tr = take_transcript();
        tr.push(outcome);
        let loaded = loader.loaded.into_inner();
        let t = self.tid;
        match frozen {
            Some(fm) => {
                let id = (t, self.next_alloc);
                self.next_alloc += 1;
                self.ev(format!("A {} 1", t));
                // read every export through the frozen module
                let mut names: Vec<String> = fm.names().map(|s| s.as_str().to_owned()).collect();
                names.sort();
                for n in names {
                    if let Ok(h) = fm.get_owned(&n) {
                        tr.push(format!("{}={}", n, h.by_ref(|v| enc(*v))));
                    }
                }
                self.ev(format!("Rd {} {} {}", t, id.0, id.1));
                self.mods.push((name.to_owned(), Held { fm, id }));
            }
            None => {
                for d in &loaded {
                    self.ev(format!("C {} {} {}", t, d.0, d.1));
                }
                for d in &loaded {
                    self.ev(format!("D {} {} {}", t, d.0, d.1));
                }
            }
        }
        tr
    }

    fn pick_peer(&mut self) -> Option<usize> {
        // index into peers of another worker (peers[i] belongs to worker i+1)
        let n = self.peers.len();
        if !self.conc || n < 2 {
            return None;
        }
        let me = self.tid - 1;
        let k = (me + 1 + self.rng.below((n - 1) as u64) as usize) % n;
        Some(k)
    }

    fn op(&mut self, op: &J) -> Vec<String> {
        let gc = op["gc"].as_u64().unwrap_or(0);
        match op["op"].as_str().unwrap_or("") {
            "eval" => self.eval("main.star", op["src"].as_str().unwrap_or(""), gc, false),
            "build" => {
                let name = op["name"].as_str().unwrap_or("own.star").to_owned();
                self.eval(&name, op["src"].as_str().unwrap_or(""), gc, true)
            }
            "drop" => {
                let name = op["name"].as_str().unwrap_or("");
                let pos = self.mods.iter().skip(self.nlibs).position(|(n, _)| n == name);
                let Some(pos) = pos else {
                    return vec!["no-such-module".to_owned()];
                };
                let (_, held) = self.mods.remove(self.nlibs + pos);
                let sym = op["sym"].as_str().unwrap_or("").to_owned();
                let expect = read_sym(&held.fm, &sym);
                let t = self.tid;
                self.ev(format!("Rd {} {} {}", t, held.id.0, held.id.1));
                let tr = vec![format!("drop:{}={}", sym, expect)];
                let peer = if op["send"].as_bool().unwrap_or(false) { self.pick_peer() } else { None };
                match peer {
                    Some(k) => {
                        self.ev_held("Sd", &held);
                        let _ = self.peers[k].send(Item::Module { held, sym, expect });
                    }
                    None => {
                        // same re-read as a receiving thread would do, then drop here
                        let again = read_sym(&held.fm, &sym);
                        if again != expect {
                            self.xfail.push(format!("local re-read of {} differs: {} vs {}", sym, again, expect));
                        }
                        self.ev_held("D", &held);
                        drop(held);
                    }
                }
                tr
            }
            "handle" => {
                let name = op["mod"].as_str().unwrap_or("");
                let sym = op["sym"].as_str().unwrap_or("");
                let Some((_, held)) = self.mods.iter().rev().find(|(n, _)| n == name) else {
                    return vec!["no-such-module".to_owned()];
                };
                let id = held.id;
                let h = match held.fm.get_owned(sym) {
                    Ok(h) => h,
                    Err(e) => return vec![format!("get_owned-ERR:{}", first_line(&format!("{:#}", e)))],
                };
                let t = self.tid;
                self.ev(format!("C {} {} {}", t, id.0, id.1));
                let expect = observe(&h);
                self.ev(format!("Rd {} {} {}", t, id.0, id.1));
                let tr = vec![format!("handle:{}={}", sym, expect)];
                let peer = if op["send"].as_bool().unwrap_or(false) { self.pick_peer() } else { None };
                match peer {
                    Some(k) => {
                        self.ev(format!("Sd {} {} {}", t, id.0, id.1));
                        let _ = self.peers[k].send(Item::Handle { h, id, expect });
                    }
                    None => {
                        let again = observe(&h);
                        if again != expect {
                            self.xfail.push(format!("local re-read of handle {} differs: {} vs {}", sym, again, expect));
                        }
                        self.ev(format!("D {} {} {}", t, id.0, id.1));
                        drop(h);
                    }
                }
                tr
            }
            "globals" => {
                let g = match op["kind"].as_str().unwrap_or("") {
                    "standard" => Globals::standard(),
                    "extended" => Globals::extended_internal(),
                    _ => sv_harness::globals(),
                };
                let mut names: Vec<String> = g.names().map(|s| s.as_str().to_owned()).collect();
                names.sort();
                let mut tr = vec![format!("globals:{}:{}", names.len(), names.join(","))];
                // values of the non-function members and the documentation-free description length
                let mut vals: Vec<String> = g
                    .iter()
                    .filter(|(_, v)| v.to_value().get_type() != "function")
                    .map(|(n, v)| format!("{}={}", n, enc(v.to_value())))
                    .collect();
                vals.sort();
                tr.push(vals.join(";"));
                if op["adopt"].as_bool().unwrap_or(false) {
                    self.globals = g;
                }
                tr
            }
            other => vec![format!("bad-op:{}", other)],
        }
    }

    fn receive(&mut self, item: Item) {
        let t = self.tid;
        self.xdrops += 1;
        match item {
            Item::Module { held, sym, expect } => {
                self.ev_held("Rv", &held);
                let got = read_sym(&held.fm, &sym);
                self.ev(format!("Rd {} {} {}", t, held.id.0, held.id.1));
                if got != expect {
                    self.xfail.push(format!(
                        "module {:?} sent to thread {}: `{}` reads {} here, {} on the creating thread",
                        held.id, t, sym, trunc(&got), trunc(&expect)
                    ));
                }
                self.ev_held("D", &held);
                drop(held);
            }
            Item::Handle { h, id, expect } => {
                self.ev(format!("Rv {} {} {}", t, id.0, id.1));
                let got = observe(&h);
                self.ev(format!("Rd {} {} {}", t, id.0, id.1));
                if got != expect {
                    self.xfail.push(format!(
                        "handle into {:?} sent to thread {}: reads {} here, {} on the sending thread",
                        id, t, trunc(&got), trunc(&expect)
                    ));
                }
                self.ev(format!("D {} {} {}", t, id.0, id.1));
                drop(h);
            }
        }
    }

    fn pause(&mut self) {
        if !self.conc {
            return;
        }
        match self.rng.below(6) {
            0 | 1 => std::thread::yield_now(),
            2 => {
                let us = self.rng.below(self.jitter_us.max(1));
                std::thread::sleep(Duration::from_micros(us));
            }
            3 => {
                let us = self.rng.below(self.jitter_us.max(1) / 4 + 1);
                let t0 = Instant::now();
                while t0.elapsed() < Duration::from_micros(us) {
                    std::hint::spin_loop();
                }
            }
            _ => {}
        }
    }
}

fn trunc(s: &str) -> String {
    s.chars().take(200).collect()
}

/// Encoding of an exported symbol read through the frozen module (plus a call when it is a function).
fn read_sym(fm: &FrozenModule, sym: &str) -> String {
    match fm.get_owned(sym) {
        Ok(h) => observe(&h),
        Err(e) => format!("get-ERR:{}", first_line(&format!("{:#}", e))),
    }
}

/// Encoding of an owned frozen value; a function is also called with the argument 7 in a temporary module.
fn observe(h: &Handle) -> String {
    let (mut e, is_fn) = h.by_ref(|v| (enc(*v), v.get_type() == "function"));
    if is_fn {
        let s = Module::with_temp_heap(|tm| {
            let f = h.as_ref().add_to_heap(tm.heap());
            let mut ev = Evaluator::new(&tm);
            ev.set_print_handler(&Printer);
            let arg = tm.heap().alloc(7);
            match ev.eval_function(f, &[arg], &[]) {
                Ok(v) => format!("=>{}", enc(v)),
                Err(e) => format!("=>ERR:{}", first_line(&format!("{}", e.without_diagnostic()))),
            }
        });
        let _ = take_transcript();
        e.push_str(&s);
    }
    e
}

struct ThreadOut {
    transcripts: Vec<Vec<String>>,
    events: Vec<(u64, String)>,
    xdrops: usize,
    xfail: Vec<String>,
}

#[allow(clippy::too_many_arguments)]
fn worker(
    tid: usize,
    conc: bool,
    ops: Vec<J>,
    libs: Vec<(String, Held)>,
    globals: Option<Globals>,
    peers: Vec<Sender<Item>>,
    inbox: Option<Receiver<Item>>,
    barrier: Option<Arc<Barrier>>,
    seed: u64,
    jitter_us: u64,
    inject_double_drop: bool,
    delay_us: u64,
) -> ThreadOut {
    let mut rng = Rng(seed | 1);
    if let Some(b) = &barrier {
        b.wait();
        // randomised start: spin for a few microseconds
        let us = rng.below(jitter_us.max(1));
        let t0 = Instant::now();
        while t0.elapsed() < Duration::from_micros(us) {
            std::hint::spin_loop();
        }
        // staggered start (fresh-library rounds): this thread's group starts after the other group
        if delay_us > 0 {
            std::thread::sleep(Duration::from_micros(delay_us));
        }
    }
    let globals = match globals {
        Some(g) => g,
        None => sv_harness::globals(),
    };
    let nlibs = libs.len();
    let mut ctx = Ctx {
        tid,
        conc,
        mods: libs,
        nlibs,
        next_alloc: 0,
        globals,
        peers,
        events: Vec::new(),
        rng,
        xdrops: 0,
        xfail: Vec::new(),
        jitter_us,
    };
    for i in 0..nlibs {
        let id = ctx.mods[i].1.id;
        ctx.ev(format!("Rv {} {} {}", tid, id.0, id.1));
    }
    if inject_double_drop && conc && nlibs > 0 {
        // SELF-TEST KNOB (never set by the check): a drop without a matching holder - the situation of
        // `C20_ex_double_drop_breaks_invariant` - to measure that the harness notices a heap freed while in use.
        unsafe {
            let dup: FrozenModule = std::ptr::read(&ctx.mods[0].1.fm);
            drop(dup);
        }
    }
    let mut transcripts = Vec::with_capacity(ops.len());
    for op in &ops {
        if let Some(rx) = &inbox {
            while let Ok(item) = rx.try_recv() {
                ctx.receive(item);
            }
        }
        transcripts.push(ctx.op(op));
        ctx.pause();
    }
    // no more sends from this thread; then serve the inbox until every other thread is done too
    ctx.peers.clear();
    if let Some(rx) = &inbox {
        for item in rx.iter() {
            ctx.receive(item);
        }
    }
    // drop what is still held: own modules (latest first), then the shared libraries
    while let Some((_, held)) = ctx.mods.pop() {
        ctx.ev_held("D", &held);
        drop(held);
    }
    ThreadOut { transcripts, events: ctx.events, xdrops: ctx.xdrops, xfail: ctx.xfail }
}

fn build_libs(case: &J, events: &mut Vec<(u64, String)>) -> Result<(Vec<(String, Held)>, Option<Globals>), String> {
    let share = case["share_globals"].as_bool().unwrap_or(true);
    let libs_j = case["libs"].as_array().cloned().unwrap_or_default();
    if libs_j.is_empty() && !share {
        return Ok((Vec::new(), None));
    }
    let g = sv_harness::globals();
    let mut libs: Vec<(String, Held)> = Vec::new();
    for (k, m) in libs_j.iter().enumerate() {
        let name = m["name"].as_str().unwrap_or("lib.star").to_owned();
        let src = m["src"].as_str().unwrap_or("").to_owned();
        let loader = Loader { mods: &libs, loaded: RefCell::new(Vec::new()) };
        let r: Result<FrozenModule, String> = Module::with_temp_heap(|module| {
            let ast = AstModule::parse(&name, src, &dialect()).map_err(|e| format!("{}", e))?;
            {
                let mut eval = Evaluator::new(&module);
                eval.set_loader(&loader);
                eval.set_print_handler(&Printer);
                eval.eval_module(ast, &g).map_err(|e| format!("{}", e))?;
            }
            module.freeze().map_err(|e| format!("{:?}", e))
        });
        drop(loader);
        let fm = r.map_err(|e| format!("library {} failed: {}", name, first_line(&e)))?;
        events.push((tick(), "A 0 1".to_owned()));
        libs.push((name, Held { fm, id: (0, k) }));
    }
    let _ = take_transcript();
    Ok((libs, if share { Some(g) } else { None }))
}

fn run_round(case: &J) -> J {
    let t_start = Instant::now();
    let seed = case["seed"].as_u64().unwrap_or(1);
    let jitter_us = case["jitter_us"].as_u64().unwrap_or(200);
    let stack = (case["stack_mb"].as_u64().unwrap_or(16) as usize) << 20;
    let threads_j = case["threads"].as_array().cloned().unwrap_or_default();
    let n = threads_j.len();
    let seq_first = case["seq_first"].as_bool().unwrap_or(false);
    let inject = case["inject"].as_str() == Some("double-drop");
    let mut events: Vec<(u64, String)> = Vec::new();
    let (libs, globals) = match build_libs(case, &mut events) {
        Ok(x) => x,
        Err(e) => return json!({"id": case["id"], "setup_error": e}),
    };
    let ops_of = |i: usize| -> Vec<J> { threads_j[i]["ops"].as_array().cloned().unwrap_or_default() };

    // sequential baseline: each workload alone, one after the other, each on a fresh thread of the same stack size
    let run_seq = |libs: &Vec<(String, Held)>, globals: &Option<Globals>| -> Result<Vec<ThreadOut>, String> {
        let mut outs = Vec::new();
        for i in 0..n {
            let (ops, l, g) = (ops_of(i), libs.clone(), globals.clone());
            let h = std::thread::Builder::new()
                .stack_size(stack)
                .spawn(move || worker(i + 1, false, ops, l, g, Vec::new(), None, None, seed, 0, false, 0))
                .map_err(|e| format!("spawn: {}", e))?;
            outs.push(h.join().map_err(|e| format!("sequential workload {} panicked: {}", i, panic_msg(&*e)))?);
        }
        Ok(outs)
    };

    let mut seq_out: Option<Vec<ThreadOut>> = None;
    if seq_first {
        match run_seq(&libs, &globals) {
            Ok(o) => seq_out = Some(o),
            Err(e) => return json!({"id": case["id"], "panic": e, "phase": "sequential"}),
        }
    }

    // concurrent phase
    let barrier = Arc::new(Barrier::new(n));
    let mut txs: Vec<Sender<Item>> = Vec::new();
    let mut rxs: Vec<Option<Receiver<Item>>> = Vec::new();
    for _ in 0..n {
        let (tx, rx) = channel::<Item>();
        txs.push(tx);
        rxs.push(Some(rx));
    }
    let mut handles = Vec::new();
    for i in 0..n {
        let l = libs.clone();
        for (_, h) in &l {
            events.push((tick(), format!("C 0 {} {}", h.id.0, h.id.1)));
            events.push((tick(), format!("Sd 0 {} {}", h.id.0, h.id.1)));
        }
        let (ops, g, peers, rx, b) = (ops_of(i), globals.clone(), txs.clone(), rxs[i].take(), barrier.clone());
        let s = seed.wrapping_mul(6364136223846793005).wrapping_add(i as u64 + 1);
        let h = std::thread::Builder::new()
            .stack_size(stack)
            .spawn(move || worker(i + 1, true, ops, l, g, peers, rx, Some(b), s, jitter_us, inject, 0));
        match h {
            Ok(h) => handles.push(h),
            Err(e) => return json!({"id": case["id"], "setup_error": format!("spawn: {}", e)}),
        }
    }
    drop(txs);
    let mut conc_out = Vec::new();
    let mut panics = Vec::new();
    for (i, h) in handles.into_iter().enumerate() {
        match h.join() {
            Ok(o) => conc_out.push(Some(o)),
            Err(e) => {
                panics.push(format!("thread {}: {}", i, panic_msg(&*e)));
                conc_out.push(None);
            }
        }
    }
    if !panics.is_empty() {
        return json!({"id": case["id"], "panic": panics.join(" | "), "phase": "concurrent", "threads": n});
    }
    if seq_out.is_none() {
        match run_seq(&libs, &globals) {
            Ok(o) => seq_out = Some(o),
            Err(e) => return json!({"id": case["id"], "panic": e, "phase": "sequential"}),
        }
    }
    // `recheck`: the same workloads alone once more AFTER the concurrent phase; their transcripts must equal those of the
    // sequential run taken BEFORE it (per-thread / process-wide state that stays corrupted after the threads are gone)
    let mut rediff = J::Null;
    if case["recheck"].as_bool().unwrap_or(false) && seq_first {
        match run_seq(&libs, &globals) {
            Ok(again) => {
                'outer: for (i, (a, b)) in again.iter().zip(seq_out.as_ref().unwrap().iter()).enumerate() {
                    for (k, (x, y)) in a.transcripts.iter().zip(b.transcripts.iter()).enumerate() {
                        if x != y {
                            let j = x.iter().zip(y.iter()).position(|(p, q)| p != q).unwrap_or(x.len().min(y.len()));
                            rediff = json!({"thread": i, "op": k, "item": j,
                                            "after": x.get(j).map(|s| trunc(s)), "before": y.get(j).map(|s| trunc(s))});
                            break 'outer;
                        }
                    }
                }
            }
            Err(e) => return json!({"id": case["id"], "panic": e, "phase": "sequential-after"}),
        }
    }
    for (_, h) in libs.iter().rev() {
        events.push((tick(), format!("D 0 {} {}", h.id.0, h.id.1)));
    }
    drop(libs);
    let seq_out = seq_out.unwrap();
    // compare
    let mut diff = J::Null;
    let mut nops = 0usize;
    let mut items = 0usize;
    let mut xdrops = 0usize;
    let mut xfail: Vec<String> = Vec::new();
    for i in 0..n {
        let c = conc_out[i].as_ref().unwrap();
        let s = &seq_out[i];
        xdrops += c.xdrops;
        xfail.extend(c.xfail.iter().cloned());
        xfail.extend(s.xfail.iter().map(|x| format!("(sequential) {}", x)));
        nops += c.transcripts.len();
        for (k, (a, b)) in c.transcripts.iter().zip(s.transcripts.iter()).enumerate() {
            items += a.len();
            if a != b && diff.is_null() {
                let j = a.iter().zip(b.iter()).position(|(x, y)| x != y).unwrap_or(a.len().min(b.len()));
                diff = json!({"thread": i, "op": k, "item": j,
                              "concurrent": a.get(j).map(|x| trunc(x)), "sequential": b.get(j).map(|x| trunc(x)),
                              "len_concurrent": a.len(), "len_sequential": b.len()});
            }
        }
    }
    for c in conc_out.iter().flatten() {
        events.extend(c.events.iter().cloned());
    }
    events.sort();
    let evs: Vec<&str> = events.iter().map(|(_, s)| s.as_str()).collect();
    // outcome statistics of the operations (how many ended in an error) and, on request, the transcripts themselves
    let mut errs = 0usize;
    for c in conc_out.iter().flatten() {
        for t in &c.transcripts {
            if t.last().map(|x| x.starts_with("ERR@") || x.contains("-ERR")).unwrap_or(false) {
                errs += 1;
            }
        }
    }
    let dump = if case["dump"].as_bool().unwrap_or(false) {
        json!(conc_out.iter().flatten().map(|c| c.transcripts.clone()).collect::<Vec<_>>())
    } else {
        J::Null
    };
    json!({"id": case["id"], "threads": n, "ops": nops, "items": items, "equal": diff.is_null(), "diff": diff,
           "xdrops": xdrops, "xfail": xfail, "events": evs, "op_errors": errs, "ms": t_start.elapsed().as_millis() as u64,
           "rediff": rediff, "dump": dump})
}

/// First difference between two lists of per-op transcripts.
fn first_diff(a: &[Vec<String>], b: &[Vec<String>]) -> Option<(usize, usize)> {
    for (k, (x, y)) in a.iter().zip(b.iter()).enumerate() {
        if x != y {
            let j = x.iter().zip(y.iter()).position(|(p, q)| p != q).unwrap_or(x.len().min(y.len()));
            return Some((k, j));
        }
    }
    if a.len() != b.len() { Some((a.len().min(b.len()), 0)) } else { None }
}

// ---------------------------------------------------------------------------------------------------------------
// fresh-library rounds (`"fresh_libs":true`): state that is written into a FROZEN shared value after freeze, on first
// use (a lazily computed name / type / cache), is invisible when every run uses the same library object - the first
// run fills it for all later ones.  Here the reference transcript of each workload is taken ALONE on a FRESH copy of
// the libraries (built from source for that workload only), and the concurrent phase is repeated `repeat` times, each
// time on another fresh copy shared by all threads.  Threads carry a `"group"` (0 / 1); repetition r runs in mode
// r % 3: 0 = all threads race from the barrier, 1 = group 0 first (group 1 starts `stagger_us` later), 2 = group 1
// first.  Every thread's transcript in every repetition must equal its alone transcript.  With `recheck` the alone
// runs are repeated (fresh copies again) after the concurrent phase.  `events` is the history of repetition 0.
fn run_fresh_round(case: &J) -> J {
    let t_start = Instant::now();
    let seed = case["seed"].as_u64().unwrap_or(1);
    let jitter_us = case["jitter_us"].as_u64().unwrap_or(50);
    let stagger_us = case["stagger_us"].as_u64().unwrap_or(2000);
    let repeat = case["repeat"].as_u64().unwrap_or(3).max(1) as usize;
    let stack = (case["stack_mb"].as_u64().unwrap_or(16) as usize) << 20;
    let threads_j = case["threads"].as_array().cloned().unwrap_or_default();
    let n = threads_j.len();
    let seq_first = case["seq_first"].as_bool().unwrap_or(false);
    let groups: Vec<u64> = threads_j.iter().map(|t| t["group"].as_u64().unwrap_or(0)).collect();
    let ops_of = |i: usize| -> Vec<J> { threads_j[i]["ops"].as_array().cloned().unwrap_or_default() };

    // each workload alone, on its own fresh copy of the libraries, on a fresh thread
    let run_alone = || -> Result<Vec<ThreadOut>, J> {
        let mut outs = Vec::new();
        for i in 0..n {
            let mut scratch = Vec::new();
            let (libs, globals) =
                build_libs(case, &mut scratch).map_err(|e| json!({"id": case["id"], "setup_error": e}))?;
            let ops = ops_of(i);
            let h = std::thread::Builder::new()
                .stack_size(stack)
                .spawn(move || worker(i + 1, false, ops, libs, globals, Vec::new(), None, None, seed, 0, false, 0))
                .map_err(|e| json!({"id": case["id"], "setup_error": format!("spawn: {}", e)}))?;
            outs.push(h.join().map_err(|e| {
                json!({"id": case["id"], "panic": format!("workload {} alone panicked: {}", i, panic_msg(&*e)), "phase": "sequential"})
            })?);
        }
        Ok(outs)
    };

    let mut seq_out: Option<Vec<ThreadOut>> = None;
    if seq_first {
        match run_alone() {
            Ok(o) => seq_out = Some(o),
            Err(j) => return j,
        }
    }
    let mut reps: Vec<(u64, Vec<ThreadOut>)> = Vec::new();
    let mut events: Vec<(u64, String)> = Vec::new();
    for rep in 0..repeat {
        let mode = match case["modes"].as_array() {
            Some(m) if !m.is_empty() => m[rep % m.len()].as_u64().unwrap_or(0),
            _ => (rep % 3) as u64,
        };
        let mut evs: Vec<(u64, String)> = Vec::new();
        let (libs, globals) = match build_libs(case, &mut evs) {
            Ok(x) => x,
            Err(e) => return json!({"id": case["id"], "setup_error": e}),
        };
        let barrier = Arc::new(Barrier::new(n));
        let mut txs: Vec<Sender<Item>> = Vec::new();
        let mut rxs: Vec<Option<Receiver<Item>>> = Vec::new();
        for _ in 0..n {
            let (tx, rx) = channel::<Item>();
            txs.push(tx);
            rxs.push(Some(rx));
        }
        let mut handles = Vec::new();
        for i in 0..n {
            let l = libs.clone();
            for (_, h) in &l {
                evs.push((tick(), format!("C 0 {} {}", h.id.0, h.id.1)));
                evs.push((tick(), format!("Sd 0 {} {}", h.id.0, h.id.1)));
            }
            let (ops, g, peers, rx, b) = (ops_of(i), globals.clone(), txs.clone(), rxs[i].take(), barrier.clone());
            let s = seed.wrapping_mul(6364136223846793005).wrapping_add((i + 1 + 1000 * rep) as u64);
            let delay = match (mode, groups[i]) {
                (1, g) if g != 0 => stagger_us,
                (2, 0) => stagger_us,
                _ => 0,
            };
            let h = std::thread::Builder::new()
                .stack_size(stack)
                .spawn(move || worker(i + 1, true, ops, l, g, peers, rx, Some(b), s, jitter_us, false, delay));
            match h {
                Ok(h) => handles.push(h),
                Err(e) => return json!({"id": case["id"], "setup_error": format!("spawn: {}", e)}),
            }
        }
        drop(txs);
        let mut outs = Vec::new();
        let mut panics = Vec::new();
        for (i, h) in handles.into_iter().enumerate() {
            match h.join() {
                Ok(o) => outs.push(o),
                Err(e) => panics.push(format!("thread {}: {}", i, panic_msg(&*e))),
            }
        }
        if !panics.is_empty() {
            return json!({"id": case["id"], "panic": panics.join(" | "), "phase": "concurrent", "threads": n, "rep": rep});
        }
        for (_, h) in libs.iter().rev() {
            evs.push((tick(), format!("D 0 {} {}", h.id.0, h.id.1)));
        }
        drop(libs);
        if rep == 0 {
            for o in &outs {
                evs.extend(o.events.iter().cloned());
            }
            events = evs;
        }
        reps.push((mode, outs));
    }
    if seq_out.is_none() {
        match run_alone() {
            Ok(o) => seq_out = Some(o),
            Err(j) => return j,
        }
    }
    let seq_out = seq_out.unwrap();
    let mut rediff = J::Null;
    if case["recheck"].as_bool().unwrap_or(false) {
        match run_alone() {
            Ok(again) => {
                for (i, (a, b)) in again.iter().zip(seq_out.iter()).enumerate() {
                    if let Some((k, j)) = first_diff(&a.transcripts, &b.transcripts) {
                        rediff = json!({"thread": i, "op": k, "item": j,
                                        "after": a.transcripts.get(k).and_then(|t| t.get(j)).map(|s| trunc(s)),
                                        "before": b.transcripts.get(k).and_then(|t| t.get(j)).map(|s| trunc(s))});
                        break;
                    }
                }
            }
            Err(j) => return j,
        }
    }
    let mut diff = J::Null;
    let mut ndiff = 0usize;
    let mut nops = 0usize;
    let mut items = 0usize;
    let mut xdrops = 0usize;
    let mut xfail: Vec<String> = Vec::new();
    let mut errs = 0usize;
    for (rep, (mode, outs)) in reps.iter().enumerate() {
        for (i, c) in outs.iter().enumerate() {
            let s = &seq_out[i];
            xdrops += c.xdrops;
            xfail.extend(c.xfail.iter().cloned());
            nops += c.transcripts.len();
            items += c.transcripts.iter().map(|t| t.len()).sum::<usize>();
            errs += c.transcripts.iter().filter(|t| t.last().map(|x| x.starts_with("ERR@")).unwrap_or(false)).count();
            if let Some((k, j)) = first_diff(&c.transcripts, &s.transcripts) {
                ndiff += 1;
                if diff.is_null() {
                    let (a, b) = (c.transcripts.get(k), s.transcripts.get(k));
                    diff = json!({"thread": i, "op": k, "item": j, "rep": rep, "mode": mode, "group": groups[i],
                                  "concurrent": a.and_then(|t| t.get(j)).map(|x| trunc(x)),
                                  "sequential": b.and_then(|t| t.get(j)).map(|x| trunc(x)),
                                  "len_concurrent": a.map(|t| t.len()), "len_sequential": b.map(|t| t.len())});
                }
            }
        }
    }
    for s in &seq_out {
        xfail.extend(s.xfail.iter().map(|x| format!("(sequential) {}", x)));
    }
    events.sort();
    let evs: Vec<&str> = events.iter().map(|(_, s)| s.as_str()).collect();
    let dump = if case["dump"].as_bool().unwrap_or(false) {
        json!({"alone": seq_out.iter().map(|c| c.transcripts.clone()).collect::<Vec<_>>(),
               "concurrent": reps.iter().map(|(_, o)| o.iter().map(|c| c.transcripts.clone()).collect::<Vec<_>>()).collect::<Vec<_>>()})
    } else {
        J::Null
    };
    json!({"id": case["id"], "threads": n, "ops": nops, "items": items, "equal": diff.is_null(), "diff": diff,
           "threads_differing": ndiff, "reps": repeat, "xdrops": xdrops, "xfail": xfail, "events": evs, "op_errors": errs,
           "ms": t_start.elapsed().as_millis() as u64, "rediff": rediff, "dump": dump})
}

// ---------------------------------------------------------------------------------------------------------------
// churn rounds: producers build thousands of TINY frozen heaps / frozen modules back to back (consecutive heaps of
// one thread are carved out of the same reference-counted chunk: the unused tail of a chunk stays in the per-thread
// chunk cache, `Chunk::clone` = fetch_add), consumers on other threads read the value, compare it with the
// expected encoding and drop the heap there (`Chunk::drop` = fetch_sub).  This is the protocol of `C20_rc_inv`
// (count = holders) at a high rate: a lost increment/decrement frees a chunk under a live heap.
//
// round  = {"id","kind":"churn","seed","producers":P,"consumers":C,"iters":N,"max_ms":ms,"shapes":[..],
//           "big_first":bytes,"chan_cap":k,"hold":h,"ev_n":e,"route":"rr"|"rand"|"block"}
// result = {"id","kind":"churn","ops":heaps built,"items":values checked,"equal":bool,"nbad":n,"bad":[..],
//           "xdrops":n,"events":[..],"seq_checked":n,"ms":..}

fn mix64(mut z: u64) -> u64 {
    z = z.wrapping_add(0x9E3779B97F4A7C15);
    z = (z ^ (z >> 30)).wrapping_mul(0xBF58476D1CE4E5B9);
    z = (z ^ (z >> 27)).wrapping_mul(0x94D049BB133111EB);
    z ^ (z >> 31)
}

fn churn_text(pid: usize, i: usize) -> String {
    format!("p{}-{:08}-{}", pid, i, "x".repeat(i % 23))
}

/// The specification of a churn round: which shape producer `pid` builds as its `i`-th heap and the encoding
/// (`sv_harness::enc`) every reader must see.  Pure string formatting, independent of the library.
fn churn_expected(seed: u64, pid: usize, i: usize, shapes: &[String]) -> (String, String) {
    let k = mix64(seed ^ ((pid as u64) << 40) ^ i as u64) as usize % shapes.len().max(1);
    let shape = shapes.get(k).cloned().unwrap_or_else(|| "str".to_owned());
    let s = churn_text(pid, i);
    let js = serde_json::to_string(&s).unwrap();
    let e = match shape.as_str() {
        "tuple" | "module" | "owned" => format!("(i{},{})", i, js),
        "list" => {
            let items: Vec<String> = (0..i % 7).map(|j| format!("i{}", i + j)).collect();
            format!("[{}]", items.join(","))
        }
        "big" => format!("i{}", (1i64 << 40) + i as i64),
        "nested" => format!("({},[i{},i7])", js, i),
        "strs" => {
            let items: Vec<String> =
                (0..8 + i % 40).map(|j| serde_json::to_string(&format!("{}/{}", s, j)).unwrap()).collect();
            format!("[{}]", items.join(","))
        }
        "eval" => format!("[i{},{},{{\"k\":(i{})}}]", i, js, pid),
        _ => js,
    };
    (shape, e)
}

enum Parcel {
    Heap {
        #[allow(dead_code)]
        heap: starlark::values::FrozenHeapRef,
        v: starlark::values::FrozenValue,
    },
    Module { fm: FrozenModule },
    Owned { h: Handle },
}

struct Sent {
    pid: usize,
    i: usize,
    rec: bool,
    parcel: Parcel,
}

fn churn_build(pid: usize, i: usize, shape: &str, globals: &Globals) -> Result<Parcel, String> {
    use starlark::values::FrozenHeap;
    let s = churn_text(pid, i);
    let mk_mod = || -> Result<FrozenModule, String> {
        Module::with_temp_heap(|m| {
            m.set("v", m.heap().alloc((i as i32, s.as_str())));
            m.freeze().map_err(|e| format!("{:?}", e))
        })
    };
    match shape {
        "module" => Ok(Parcel::Module { fm: mk_mod()? }),
        "owned" => {
            let fm = mk_mod()?;
            let h = fm.get_owned("v").map_err(|e| format!("{:#}", e))?;
            drop(fm);
            Ok(Parcel::Owned { h })
        }
        "eval" => {
            let src = format!("v = [{}, {}, {{\"k\": ({},)}}]\n", i, serde_json::to_string(&s).unwrap(), pid);
            let fm: Result<FrozenModule, String> = Module::with_temp_heap(|m| {
                let ast = AstModule::parse("tiny.star", src, &dialect()).map_err(|e| format!("{}", e))?;
                {
                    let mut eval = Evaluator::new(&m);
                    eval.eval_module(ast, globals).map_err(|e| format!("{}", e))?;
                }
                m.freeze().map_err(|e| format!("{:?}", e))
            });
            Ok(Parcel::Module { fm: fm? })
        }
        _ => {
            let heap = FrozenHeap::new();
            let v = match shape {
                "tuple" => heap.alloc((i as i32, s.as_str())),
                "list" => heap.alloc((0..i % 7).map(|j| (i + j) as i32).collect::<Vec<i32>>()),
                "big" => heap.alloc((1i64 << 40) + i as i64),
                "nested" => heap.alloc((s.as_str(), vec![i as i32, 7])),
                "strs" => heap.alloc((0..8 + i % 40).map(|j| format!("{}/{}", s, j)).collect::<Vec<String>>()),
                _ => heap.alloc(s.as_str()),
            };
            Ok(Parcel::Heap { heap: heap.into_ref(), v })
        }
    }
}

fn churn_read(p: &Parcel) -> String {
    match p {
        Parcel::Heap { v, .. } => enc(v.to_value()),
        Parcel::Module { fm } => match fm.get_owned("v") {
            Ok(h) => h.by_ref(|v| enc(*v)),
            Err(e) => format!("get-ERR:{}", first_line(&format!("{:#}", e))),
        },
        Parcel::Owned { h } => h.by_ref(|v| enc(*v)),
    }
}

struct ChurnOut {
    built: usize,
    checked: usize,
    nbad: usize,
    bad: Vec<String>,
    events: Vec<(u64, String)>,
}

fn run_churn(case: &J) -> J {
    use std::collections::VecDeque;
    use std::sync::mpsc::SyncSender;
    use std::sync::mpsc::sync_channel;
    let t_start = Instant::now();
    let seed = case["seed"].as_u64().unwrap_or(1);
    let np = (case["producers"].as_u64().unwrap_or(1) as usize).max(1);
    let nc = (case["consumers"].as_u64().unwrap_or(3) as usize).max(1);
    let iters = case["iters"].as_u64().unwrap_or(10000) as usize;
    let max_ms = case["max_ms"].as_u64().unwrap_or(10000);
    let big_first = case["big_first"].as_u64().unwrap_or(0) as usize;
    let cap = (case["chan_cap"].as_u64().unwrap_or(2) as usize).max(1);
    let hold = case["hold"].as_u64().unwrap_or(0) as usize;
    let ev_n = case["ev_n"].as_u64().unwrap_or(0) as usize;
    let route = case["route"].as_str().unwrap_or("rr").to_owned();
    let stack = (case["stack_mb"].as_u64().unwrap_or(16) as usize) << 20;
    let shapes: Arc<Vec<String>> = Arc::new(
        case["shapes"].as_array().map(|a| a.iter().filter_map(|x| x.as_str().map(|s| s.to_owned())).collect()).unwrap_or_default(),
    );
    let globals = sv_harness::globals();

    // the same workload on one thread: build, read, drop (the reference behaviour)
    let mut seq_checked = 0usize;
    let mut seq_bad: Vec<String> = Vec::new();
    for i in 0..iters.min(1500) {
        let (shape, want) = churn_expected(seed, 1, i, &shapes);
        match churn_build(1, i, &shape, &globals) {
            Ok(p) => {
                let got = churn_read(&p);
                seq_checked += 1;
                if got != want && seq_bad.len() < 3 {
                    seq_bad.push(format!("{} #{}: reads {} expected {}", shape, i, trunc(&got), trunc(&want)));
                }
            }
            Err(e) => return json!({"id": case["id"], "kind": "churn", "setup_error": format!("{} #{}: {}", shape, i, e)}),
        }
    }
    if !seq_bad.is_empty() {
        return json!({"id": case["id"], "kind": "churn", "seq_bad": seq_bad, "equal": false, "nbad": 0, "bad": []});
    }

    let barrier = Arc::new(Barrier::new(np + nc));
    let mut txs: Vec<SyncSender<Sent>> = Vec::new();
    let mut consumers = Vec::new();
    for c in 0..nc {
        let (tx, rx) = sync_channel::<Sent>(cap);
        txs.push(tx);
        let (b, shapes) = (barrier.clone(), shapes.clone());
        let tid = np + 1 + c;
        let h = std::thread::Builder::new().stack_size(stack).spawn(move || {
            let mut out = ChurnOut { built: 0, checked: 0, nbad: 0, bad: Vec::new(), events: Vec::new() };
            let mut rng = Rng(mix64(seed ^ (tid as u64) << 20) | 1);
            let mut ring: VecDeque<Sent> = VecDeque::new();
            b.wait();
            for sent in rx.iter() {
                if sent.rec {
                    out.events.push((tick(), format!("Rv {} {} {}", tid, sent.pid, sent.i)));
                }
                let (_, want) = churn_expected(seed, sent.pid, sent.i, &shapes);
                let got = churn_read(&sent.parcel);
                if sent.rec {
                    out.events.push((tick(), format!("Rd {} {} {}", tid, sent.pid, sent.i)));
                }
                out.checked += 1;
                if got != want {
                    out.nbad += 1;
                    if out.bad.len() < 3 {
                        out.bad.push(format!(
                            "heap #{} of producer {} read on thread {}: {} expected {}",
                            sent.i, sent.pid, tid, trunc(&got), trunc(&want)
                        ));
                    }
                }
                ring.push_back(sent);
                // drop here, on another thread than the one that built the heap: immediately, or in bursts
                let keep = if hold == 0 { 0 } else { rng.below(hold as u64 + 1) as usize };
                while ring.len() > keep {
                    let s = ring.pop_front().unwrap();
                    if s.rec {
                        out.events.push((tick(), format!("D {} {} {}", tid, s.pid, s.i)));
                    }
                    drop(s);
                }
            }
            while let Some(s) = ring.pop_front() {
                if s.rec {
                    out.events.push((tick(), format!("D {} {} {}", tid, s.pid, s.i)));
                }
                drop(s);
            }
            out
        });
        match h {
            Ok(h) => consumers.push(h),
            Err(e) => return json!({"id": case["id"], "kind": "churn", "setup_error": format!("spawn: {}", e)}),
        }
    }
    let mut producers = Vec::new();
    for p in 0..np {
        let pid = p + 1;
        let (b, shapes, txs, g, route) = (barrier.clone(), shapes.clone(), txs.clone(), globals.dupe(), route.clone());
        let h = std::thread::Builder::new().stack_size(stack).spawn(move || {
            use starlark::values::FrozenHeap;
            let mut out = ChurnOut { built: 0, checked: 0, nbad: 0, bad: Vec::new(), events: Vec::new() };
            let mut rng = Rng(mix64(seed ^ (pid as u64) << 8) | 1);
            b.wait();
            let t0 = Instant::now();
            // optionally a big first heap: the remainder of its (big) chunk goes to this thread's chunk cache and the
            // later tiny heaps are all carved out of it
            let big = if big_first > 0 {
                let heap = FrozenHeap::new();
                let v = heap.alloc("y".repeat(big_first).as_str());
                Some((heap.into_ref(), v))
            } else {
                None
            };
            for i in 0..iters {
                if i % 256 == 0 && t0.elapsed() > Duration::from_millis(max_ms) {
                    break;
                }
                let (shape, _) = churn_expected(seed, pid, i, &shapes);
                let parcel = match churn_build(pid, i, &shape, &g) {
                    Ok(p) => p,
                    Err(e) => {
                        out.nbad += 1;
                        out.bad.push(format!("producer {} could not build {} #{}: {}", pid, shape, i, e));
                        break;
                    }
                };
                out.built += 1;
                let rec = i < ev_n;
                if rec {
                    out.events.push((tick(), format!("A {} 1", pid)));
                    out.events.push((tick(), format!("Sd {} {} {}", pid, pid, i)));
                }
                let k = match route.as_str() {
                    "rand" => rng.below(txs.len() as u64) as usize,
                    "block" => (i / 64) % txs.len(),
                    _ => i % txs.len(),
                };
                if txs[k].send(Sent { pid, i, rec, parcel }).is_err() {
                    out.nbad += 1;
                    out.bad.push(format!("consumer {} is gone (it died while reading/dropping heaps)", k));
                    break;
                }
            }
            if let Some((heap, v)) = big {
                let n = v.to_value().unpack_str().map(|s| s.len());
                if n != Some(big_first) {
                    out.nbad += 1;
                    out.bad.push(format!("the big first heap of producer {} reads length {:?}, expected {}", pid, n, big_first));
                }
                drop(heap);
            }
            out
        });
        match h {
            Ok(h) => producers.push(h),
            Err(e) => return json!({"id": case["id"], "kind": "churn", "setup_error": format!("spawn: {}", e)}),
        }
    }
    drop(txs);
    let mut built = 0usize;
    let mut checked = 0usize;
    let mut nbad = 0usize;
    let mut bad: Vec<String> = Vec::new();
    let mut events: Vec<(u64, String)> = Vec::new();
    let mut panics = Vec::new();
    for (i, h) in producers.into_iter().chain(consumers).enumerate() {
        match h.join() {
            Ok(o) => {
                built += o.built;
                checked += o.checked;
                nbad += o.nbad;
                bad.extend(o.bad);
                events.extend(o.events);
            }
            Err(e) => panics.push(format!("thread {}: {}", i + 1, panic_msg(&*e))),
        }
    }
    if !panics.is_empty() {
        return json!({"id": case["id"], "kind": "churn", "panic": panics.join(" | "), "phase": "churn", "threads": np + nc});
    }
    if checked != built {
        nbad += 1;
        bad.push(format!("{} heaps built, {} received", built, checked));
    }
    events.sort();
    let evs: Vec<&str> = events.iter().map(|(_, s)| s.as_str()).collect();
    bad.truncate(6);
    json!({"id": case["id"], "kind": "churn", "threads": np + nc, "ops": built, "items": checked, "equal": nbad == 0, "nbad": nbad,
           "bad": bad, "xdrops": checked, "events": evs, "seq_checked": seq_checked, "ms": t_start.elapsed().as_millis() as u64})
}

/// CPU time (user + system, in clock ticks) consumed by this process so far.
fn cpu_ticks() -> u64 {
    let s = std::fs::read_to_string("/proc/self/stat").unwrap_or_default();
    // fields after the closing parenthesis of the command name: state is field 3, utime 14, stime 15
    let rest = s.rsplit(')').next().unwrap_or("");
    let f: Vec<&str> = rest.split_whitespace().collect();
    let g = |i: usize| f.get(i).and_then(|x| x.parse::<u64>().ok()).unwrap_or(0);
    g(11) + g(12)
}

/// Watchdog of one round: when the round exceeds `limit_s` the process exits with 77 if it is still consuming CPU
/// (a generated program that computes for too long: not a failure, the round is skipped) or 78 if it is idle
/// (every thread blocked: a deadlock).
fn watchdog(limit_s: u64, round: Arc<AtomicU64>, my_round: u64) {
    let t0 = Instant::now();
    while t0.elapsed() < Duration::from_secs(limit_s) {
        std::thread::sleep(Duration::from_millis(200));
        if round.load(Ordering::SeqCst) != my_round {
            return;
        }
    }
    let c0 = cpu_ticks();
    std::thread::sleep(Duration::from_secs(3));
    if round.load(Ordering::SeqCst) != my_round {
        return;
    }
    let busy = cpu_ticks().saturating_sub(c0) >= 20;
    eprintln!("WATCHDOG round over {} s, {}", limit_s, if busy { "still computing" } else { "idle: deadlock" });
    std::process::exit(if busy { 77 } else { 78 });
}

fn main() {
    let args: Vec<String> = std::env::args().collect();
    if args.len() < 3 {
        eprintln!("usage: {} <cases.jsonl> <out.jsonl>", args[0]);
        std::process::exit(2);
    }
    std::panic::set_hook(Box::new(|_| {}));
    starlark::verif_hooks::set_poison(true);
    let input = BufReader::new(File::open(&args[1]).expect("open cases"));
    let mut out = File::create(&args[2]).expect("create out");
    let round_no = Arc::new(AtomicU64::new(0));
    for line in input.lines() {
        let line = line.expect("read line");
        if line.trim().is_empty() {
            continue;
        }
        let case: J = serde_json::from_str(&line).expect("case json");
        eprintln!("START {}", case["id"]);
        let my_round = round_no.fetch_add(1, Ordering::SeqCst) + 1;
        {
            let (r, limit) = (round_no.clone(), case["limit_s"].as_u64().unwrap_or(60));
            std::thread::spawn(move || watchdog(limit, r, my_round));
        }
        let churn = case["kind"].as_str() == Some("churn");
        let r = match catch_unwind(AssertUnwindSafe(|| if churn {
            run_churn(&case)
        } else if case["fresh_libs"].as_bool().unwrap_or(false) {
            run_fresh_round(&case)
        } else {
            run_round(&case)
        })) {
            Ok(v) => v,
            Err(e) => json!({"id": case["id"], "panic": panic_msg(&*e), "phase": "main"}),
        };
        writeln!(out, "{}", serde_json::to_string(&r).unwrap()).unwrap();
        out.flush().unwrap();
    }
}
