//! C07 driver: totality and recoverability of evaluation.
//!
//! One JSON case per line (argv[1]), one JSON result per line (argv[2]); the result file is flushed after
//! every case so that, when the process dies (abort, stack overflow, watchdog exit), the first missing
//! line identifies the offending case.
//!
//! case kinds
//!   {"kind":"catalog","prelude":src,"exprs":[expr..]}
//!        -> the implementation's own catalogue: global names with types, and for every expression
//!           its type and `dir()` with the type of every attribute
//!   {"kind":"run","files":[{"name","src"}..],"probe":src|null,"probe_each":bool,"timeout_ms":n}
//!        -> all files are evaluated in order on ONE evaluator + module (whether or not earlier ones failed);
//!           per step: outcome (value class or error with validated span / call stack), panic text,
//!           `call_stack_count()` afterwards, and (optionally) the probe program evaluated on the same
//!           evaluator+module compared with the probe on a fresh evaluator+module.
//!
//! Process exit codes: 0 normal; 97 watchdog (a case exceeded its time budget); 98 memory budget exceeded.

use std::collections::HashMap;
use std::fs::File;
use std::io::BufRead;
use std::io::BufReader;
use std::io::Write;
use std::panic::AssertUnwindSafe;
use std::panic::catch_unwind;
use std::sync::Arc;
use std::sync::atomic::AtomicU64;
use std::sync::atomic::Ordering;
use std::time::Duration;
use std::time::Instant;

use serde_json::Value as J;
use serde_json::json;
use starlark::PrintHandler;
use starlark::codemap::FileSpan;
use starlark::environment::Module;
use starlark::eval::Evaluator;
use starlark::syntax::AstModule;
use starlark::syntax::Dialect;
use starlark::values::Value;
use sv_harness::TRANSCRIPT;
use sv_harness::enc;
use sv_harness::globals;
use sv_harness::take_transcript;

struct Printer;
impl PrintHandler for Printer {
    fn println(&self, text: &str) -> starlark::Result<()> {
        let mut t = text.to_owned();
        if t.len() > 200 {
            let mut k = 200;
            while !t.is_char_boundary(k) {
                k -= 1;
            }
            t.truncate(k);
        }
        TRANSCRIPT.with(|tr| tr.borrow_mut().push(format!("print:{}", t)));
        Ok(())
    }
}

fn panic_text(e: Box<dyn std::any::Any + Send>) -> String {
    if let Some(s) = e.downcast_ref::<String>() {
        s.clone()
    } else if let Some(s) = e.downcast_ref::<&str>() {
        s.to_string()
    } else {
        "?".to_owned()
    }
}

fn clip(s: &str, n: usize) -> String {
    if s.len() <= n {
        return s.to_owned();
    }
    let mut k = n;
    while !s.is_char_boundary(k) {
        k -= 1;
    }
    format!("{}...[{} bytes]", &s[..k], s.len())
}

/// Validate a file span against the involved files: known file name, the code map's text is that file's
/// text, byte range inside the text and on character boundaries, resolved line/column range inside the file.
fn check_span(fs: &FileSpan, files: &HashMap<String, String>, allow_native: bool) -> Result<J, String> {
    let name = fs.filename().to_owned();
    let src = fs.file.source();
    let b = fs.span.begin().get() as usize;
    let e = fs.span.end().get() as usize;
    // a frame called from native code carries the location of the Rust call site (NativeCodeMap: text "<native>")
    if allow_native && src == "<native>" && name.ends_with(".rs") && !files.contains_key(&name) {
        if b <= e && e <= src.len() {
            let _ = fs.resolve_span();
            return Ok(json!({"native": name}));
        }
        return Err(format!("native location {}..{} outside the native code map", b, e));
    }
    match files.get(&name) {
        None => return Err(format!("span in unknown file `{}`", clip(&name, 80))),
        Some(text) => {
            if text != src {
                return Err(format!("code map of `{}` does not hold that file's text", name));
            }
        }
    }
    if !(b <= e && e <= src.len()) {
        return Err(format!("byte range {}..{} outside file `{}` of {} bytes", b, e, name, src.len()));
    }
    if !src.is_char_boundary(b) || !src.is_char_boundary(e) {
        return Err(format!("byte range {}..{} of `{}` is not on character boundaries", b, e, name));
    }
    let r = fs.resolve_span();
    let lines: Vec<&str> = src.split('\n').collect();
    let nl = lines.len();
    let col_ok = |line: usize, col: usize| line < nl && col <= lines[line].chars().count();
    if !(col_ok(r.begin.line, r.begin.column) && col_ok(r.end.line, r.end.column))
        || (r.begin.line, r.begin.column) > (r.end.line, r.end.column)
    {
        return Err(format!(
            "resolved range {}:{}-{}:{} outside file `{}` ({} lines)",
            r.begin.line, r.begin.column, r.end.line, r.end.column, name, nl
        ));
    }
    Ok(json!({"file": name, "bl": r.begin.line, "bc": r.begin.column, "el": r.end.line, "ec": r.end.column}))
}

fn kind_name(e: &starlark::Error) -> &'static str {
    match e.kind() {
        starlark::ErrorKind::Fail(_) => "Fail",
        starlark::ErrorKind::StackOverflow(_) => "StackOverflow",
        starlark::ErrorKind::Value(_) => "Value",
        starlark::ErrorKind::Function(_) => "Function",
        starlark::ErrorKind::Scope(_) => "Scope",
        starlark::ErrorKind::Parser(_) => "Parser",
        starlark::ErrorKind::Internal(_) => "Internal",
        starlark::ErrorKind::Native(_) => "Native",
        starlark::ErrorKind::Other(_) => "Other",
        _ => "Unknown",
    }
}

/// Error -> JSON with all the located-error checks; `bad` lists every violated requirement.
fn err_report(e: &starlark::Error, files: &HashMap<String, String>) -> J {
    let mut bad: Vec<String> = Vec::new();
    let msg = match catch_unwind(AssertUnwindSafe(|| format!("{}", e.without_diagnostic()))) {
        Ok(s) => s,
        Err(p) => {
            bad.push(format!("panic while rendering the message: {}", clip(&panic_text(p), 200)));
            String::new()
        }
    };
    // the full rendering resolves the span, prints the source excerpt and the call stack
    let full = match catch_unwind(AssertUnwindSafe(|| (format!("{}", e), format!("{:?}", e).len()))) {
        Ok((s, _)) => s,
        Err(p) => {
            bad.push(format!("panic while rendering the diagnostic: {}", clip(&panic_text(p), 200)));
            String::new()
        }
    };
    let span = match e.span() {
        None => {
            bad.push("error has no span".to_owned());
            J::Null
        }
        Some(fs) => match catch_unwind(AssertUnwindSafe(|| check_span(fs, files, false))) {
            Ok(Ok(j)) => j,
            Ok(Err(m)) => {
                bad.push(m);
                J::Null
            }
            Err(p) => {
                bad.push(format!("panic while resolving the span: {}", clip(&panic_text(p), 200)));
                J::Null
            }
        },
    };
    let mut frames = Vec::new();
    for (i, fr) in e.call_stack().frames.iter().enumerate() {
        let loc = match &fr.location {
            None => J::Null,
            Some(fs) => match catch_unwind(AssertUnwindSafe(|| check_span(fs, files, true))) {
                Ok(Ok(j)) => j,
                Ok(Err(m)) => {
                    bad.push(format!("call stack frame {} ({}): {}", i, clip(&fr.name, 40), m));
                    J::Null
                }
                Err(p) => {
                    bad.push(format!("call stack frame {}: panic while resolving: {}", i, clip(&panic_text(p), 200)));
                    J::Null
                }
            },
        };
        if frames.len() < 60 {
            frames.push(json!({"name": clip(&fr.name, 60), "loc": loc}));
        }
    }
    json!({"kind": kind_name(e), "msg": clip(&msg, 300), "span": span, "nframes": e.call_stack().frames.len(),
           "frames": frames, "full": clip(&full, 600), "bad": bad})
}

fn value_class(v: Value) -> J {
    // type and a bounded structural rendering (a rendering failure here would be a panic -> caught by the caller)
    let ty = v.get_type().to_owned();
    json!({"type": ty})
}

struct Watch {
    deadline_ms: AtomicU64, // 0 = idle
    case: AtomicU64,
    mem_limit_kb: AtomicU64,
}

fn rss_kb() -> u64 {
    if let Ok(s) = std::fs::read_to_string("/proc/self/statm") {
        let mut it = s.split_whitespace();
        let _size = it.next();
        if let Some(r) = it.next() {
            if let Ok(p) = r.parse::<u64>() {
                return p * 4;
            }
        }
    }
    0
}

struct ProbeOut {
    tr: Vec<String>,
    out: String,
}

fn run_probe_on<'v>(eval: &mut Evaluator<'v, '_, '_>, src: &str, g: &starlark::environment::Globals, name: &str) -> ProbeOut {
    let _ = take_transcript();
    let res = match AstModule::parse(name, src.to_owned(), &Dialect::AllOptionsInternal) {
        Err(e) => Err(e),
        Ok(ast) => eval.eval_module(ast, g),
    };
    let out = match res {
        Ok(v) => format!("ok:{}", enc(v)),
        Err(e) => format!("err:{}", clip(&format!("{}", e.without_diagnostic()), 300)),
    };
    ProbeOut { tr: take_transcript(), out }
}

fn fresh_probe(src: &str, g: &starlark::environment::Globals) -> ProbeOut {
    Module::with_temp_heap(|module| {
        let mut eval = Evaluator::new(&module);
        eval.set_print_handler(&Printer);
        run_probe_on(&mut eval, src, g, "probe.star")
    })
}

fn catalog(c: &J, g: &starlark::environment::Globals) -> J {
    let mut gl = Vec::new();
    for (n, v) in g.iter() {
        gl.push(json!([n, v.to_value().get_type()]));
    }
    let prelude = c["prelude"].as_str().unwrap_or("").to_owned();
    let exprs: Vec<String> = c["exprs"].as_array().map(|a| a.iter().map(|x| x.as_str().unwrap_or("").to_owned()).collect()).unwrap_or_default();
    let vals = Module::with_temp_heap(|module| {
        let mut eval = Evaluator::new(&module);
        eval.set_print_handler(&Printer);
        let mut out = Vec::new();
        match AstModule::parse("prelude.star", prelude, &Dialect::AllOptionsInternal) {
            Err(e) => return vec![json!({"prelude_error": format!("{}", e)})],
            Ok(ast) => {
                if let Err(e) = eval.eval_module(ast, g) {
                    return vec![json!({"prelude_error": format!("{}", e)})];
                }
            }
        }
        for (i, ex) in exprs.iter().enumerate() {
            let src = format!("c07_c = ({})\nc07_t = type(c07_c)\nc07_d = [(n, type(getattr(c07_c, n, None)), hasattr(c07_c, n)) for n in dir(c07_c)]\n", ex);
            let r = match AstModule::parse(&format!("cat{}.star", i), src, &Dialect::AllOptionsInternal) {
                Err(e) => Err(e),
                Ok(ast) => eval.eval_module(ast, g),
            };
            match r {
                Err(e) => out.push(json!({"expr": ex, "error": format!("{}", e.without_diagnostic())})),
                Ok(_) => {
                    let t = module.get("c07_t").map(|v| v.to_str()).unwrap_or_default();
                    let mut attrs = Vec::new();
                    if let Some(d) = module.get("c07_d") {
                        if let Some(l) = starlark::values::list::ListRef::from_value(d) {
                            for it in l.iter() {
                                if let Some(tp) = starlark::values::tuple::TupleRef::from_value(it) {
                                    let c = tp.content();
                                    attrs.push(json!([c[0].to_str(), c[1].to_str(), c[2].unpack_bool().unwrap_or(false)]));
                                }
                            }
                        }
                    }
                    out.push(json!({"expr": ex, "type": t, "attrs": attrs}));
                }
            }
        }
        out
    });
    let _ = take_transcript();
    json!({"globals": gl, "values": vals})
}

fn run_case(c: &J, g: &starlark::environment::Globals, probes: &mut HashMap<String, (Vec<String>, String)>) -> J {
    let mut files: HashMap<String, String> = HashMap::new();
    let mut order: Vec<(String, String)> = Vec::new();
    if let Some(fs) = c["files"].as_array() {
        for f in fs {
            let n = f["name"].as_str().unwrap_or("main.star").to_owned();
            let s = f["src"].as_str().unwrap_or("").to_owned();
            files.insert(n.clone(), s.clone());
            order.push((n, s));
        }
    }
    let probe: Option<String> = c["probe"].as_str().map(|s| s.to_owned());
    let probe_each = c["probe_each"].as_bool().unwrap_or(false);
    let want_tr = c["transcript"].as_bool().unwrap_or(false);
    let interleave = c["interleave_fresh"].as_bool().unwrap_or(false);
    if let Some(p) = &probe {
        if !probes.contains_key(p) {
            let f = fresh_probe(p, g);
            probes.insert(p.clone(), (f.tr, f.out));
        }
    }
    let _ = take_transcript();
    let n_steps = order.len();
    Module::with_temp_heap(|module| {
        let mut eval = Evaluator::new(&module);
        eval.set_print_handler(&Printer);
        if c["disable_gc"].as_bool().unwrap_or(false) {
            eval.disable_gc();
        }
        if let Some(n) = c["max_callstack"].as_u64() {
            let _ = eval.set_max_callstack_size(n as usize);
        }
        let mut steps = Vec::new();
        for (i, (name, src)) in order.iter().enumerate() {
            let t0 = Instant::now();
            let r = catch_unwind(AssertUnwindSafe(|| {
                let res = match AstModule::parse(name, src.clone(), &Dialect::AllOptionsInternal) {
                    Err(e) => Err(e),
                    Ok(ast) => eval.eval_module(ast, g),
                };
                match res {
                    Ok(v) => json!({"ok": value_class(v)}),
                    Err(e) => json!({"err": err_report(&e, &files)}),
                }
            }));
            let mut step = match r {
                Ok(j) => j,
                Err(p) => json!({"panic": clip(&panic_text(p), 400)}),
            };
            let tr = take_transcript();
            step["ntr"] = json!(tr.len());
            if want_tr {
                step["tr"] = json!(tr);
            }
            step["ms"] = json!(t0.elapsed().as_millis() as u64);
            step["stack_after"] = json!(eval.call_stack_count());
            if interleave {
                // short-lived modules on the same thread between the evaluations of the long-lived one
                if let Some(p) = &probe {
                    let _ = fresh_probe(p, g);
                }
            }
            let last = i + 1 == n_steps;
            if let Some(p) = &probe {
                if probe_each || last {
                    let pr = catch_unwind(AssertUnwindSafe(|| run_probe_on(&mut eval, p, g, "probe.star")));
                    match pr {
                        Err(pp) => step["probe"] = json!({"panic": clip(&panic_text(pp), 400)}),
                        Ok(po) => {
                            let (ftr, fout) = probes.get(p).unwrap();
                            if &po.tr == ftr && &po.out == fout {
                                step["probe"] = json!({"same": true, "n": po.tr.len()});
                            } else {
                                let mut k = 0;
                                while k < po.tr.len().min(ftr.len()) && po.tr[k] == ftr[k] {
                                    k += 1;
                                }
                                step["probe"] = json!({"same": false, "first_diff": k,
                                    "here": po.tr.get(k).map(|s| clip(s, 200)), "fresh": ftr.get(k).map(|s| clip(s, 200)),
                                    "out_here": clip(&po.out, 300), "out_fresh": clip(fout, 300)});
                            }
                            step["probe"]["stack_after"] = json!(eval.call_stack_count());
                        }
                    }
                }
            }
            steps.push(step);
        }
        let mut extra = json!({});
        if c["api_idle_call_stack"].as_bool().unwrap_or(false) {
            // public embedder API on an idle evaluator (count == 0)
            extra = match catch_unwind(AssertUnwindSafe(|| eval.call_stack().frames.len())) {
                Ok(n) => json!({"idle_call_stack": n}),
                Err(p) => json!({"idle_call_stack_panic": clip(&panic_text(p), 300)}),
            };
        }
        if let Some(name) = c["api_module_get"].as_str() {
            // host API on the module after the evaluations
            match catch_unwind(AssertUnwindSafe(|| module.get(name).map(|v| v.get_type().to_owned()))) {
                Ok(t) => extra["module_get"] = json!(t),
                Err(p) => extra["module_get_panic"] = json!(clip(&panic_text(p), 300)),
            }
        }
        drop(eval);
        json!({"steps": steps, "api": extra})
    })
}

fn main() {
    let args: Vec<String> = std::env::args().collect();
    if args.len() < 3 {
        eprintln!("usage: {} <cases.jsonl> <out.jsonl>", args[0]);
        std::process::exit(2);
    }
    if std::env::var("C07_PANIC_TRACE").is_ok() {
        std::panic::set_hook(Box::new(|info| eprintln!("PANIC {}", info)));
    } else {
        // one short line per panic on stderr: when the process dies afterwards the parent can name the last panic site
        std::panic::set_hook(Box::new(|info| {
            if let Some(l) = info.location() {
                eprintln!("PANIC at {}:{}", l.file().rsplit('/').next().unwrap_or("?"), l.line());
            }
        }));
    }
    let watch = Arc::new(Watch { deadline_ms: AtomicU64::new(0), case: AtomicU64::new(0), mem_limit_kb: AtomicU64::new(3_000_000) });
    let start = Instant::now();
    {
        let w = watch.clone();
        std::thread::spawn(move || {
            loop {
                std::thread::sleep(Duration::from_millis(50));
                let d = w.deadline_ms.load(Ordering::SeqCst);
                let now = start.elapsed().as_millis() as u64;
                if d != 0 && now > d {
                    eprintln!("WATCHDOG case {} exceeded its time budget", w.case.load(Ordering::SeqCst));
                    std::process::exit(97);
                }
                if d != 0 && rss_kb() > w.mem_limit_kb.load(Ordering::SeqCst) {
                    eprintln!("WATCHDOG case {} exceeded the memory budget", w.case.load(Ordering::SeqCst));
                    std::process::exit(98);
                }
            }
        });
    }
    let a1 = args[1].clone();
    let a2 = args[2].clone();
    let w = watch.clone();
    // the evaluations run on a thread with a fixed 16 MiB stack (twice the usual main-thread stack)
    let worker = std::thread::Builder::new()
        .stack_size(16 << 20)
        .spawn(move || {
            let input = BufReader::new(File::open(&a1).expect("open cases"));
            let mut out = File::create(&a2).expect("create out");
            let g = globals();
            let mut probes: HashMap<String, (Vec<String>, String)> = HashMap::new();
            for (idx, line) in input.lines().enumerate() {
                let line = line.expect("read line");
                if line.trim().is_empty() {
                    continue;
                }
                let case: J = serde_json::from_str(&line).expect("case json");
                let budget = case["timeout_ms"].as_u64().unwrap_or(20_000);
                if let Some(m) = case["mem_limit_kb"].as_u64() {
                    w.mem_limit_kb.store(m, Ordering::SeqCst);
                }
                w.case.store(idx as u64, Ordering::SeqCst);
                w.deadline_ms.store(start.elapsed().as_millis() as u64 + budget, Ordering::SeqCst);
                let r = match catch_unwind(AssertUnwindSafe(|| match case["kind"].as_str() {
                    Some("catalog") => catalog(&case, &g),
                    _ => run_case(&case, &g, &mut probes),
                })) {
                    Ok(v) => v,
                    Err(e) => json!({"panic": clip(&panic_text(e), 400)}),
                };
                w.deadline_ms.store(0, Ordering::SeqCst);
                let _ = take_transcript();
                let mut s = serde_json::to_string(&r).unwrap();
                s.push('\n');
                out.write_all(s.as_bytes()).unwrap();
                out.flush().unwrap();
            }
        })
        .expect("spawn worker");
    if worker.join().is_err() {
        std::process::exit(3);
    }
}
