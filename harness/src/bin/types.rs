//! C16: one type expression x many value expressions, answered through every run-time check path
//! of the real library, before and after the type and the values are frozen.
//!
//! case   : {"ty": "<type in annotation syntax>", "tyx": "<the same type as an ordinary expression>", "vals": ["<value expression>", ...]}
//! result : {"show": "<Display of the compiled type>", "rows": ["<one char per path>", ...]}
//!          or {"err": "..."} when the type expression itself is rejected.
//! Path characters: '1' accepted, '0' rejected by the type check, 'E' any other error.
//! Path order (PATHS below) is fixed; tools/props/C16.py has the same table.
//!
//! live   (module A, nothing frozen):   isinstance(v, <ty>) | isinstance(v, T) | def p(x: <ty>) | def p(x) -> <ty>
//!                                      | y: <ty> = x inside a def | x: <ty> = <val> at module level | TypeCompiled::new(T).matches(v)
//! frozen (A frozen, loaded into B; values = A's frozen values):
//!                                      A's four defs | B's defs annotated with the loaded T (isinstance, param, return, assignment)
//!                                      | x: T = VALS[i] at B's module level | A's p_param(VALS[i]) called from B's module level and from a def of B
//!                                      | host API on the frozen T
//! mixed  (frozen type, values built freshly in B): the same nine without the module-level assignment.

use std::collections::HashMap;

use serde_json::Value as J;
use serde_json::json;
use starlark::environment::FrozenModule;
use starlark::environment::Globals;
use starlark::environment::Module;
use starlark::eval::Evaluator;
use starlark::eval::ReturnFileLoader;
use starlark::syntax::AstModule;
use starlark::values::Value;
use starlark::values::list::ListRef;
use starlark::values::typing::TypeCompiled;
use sv_harness::dialect;
use sv_harness::globals;
use sv_harness::run_cases;

const PRELUDE: &str = "R1 = record(a = int)\nR2 = record(a = int)\nE1 = enum(\"a\", \"b\")\nE2 = enum(\"a\", \"b\")\ndef fn(x = 1):\n    return x\n";

fn is_mismatch(e: &starlark::Error) -> bool {
    let msg = format!("{}", e.without_diagnostic());
    msg.contains("does not match the type annotation")
}

fn call_check<'v>(eval: &mut Evaluator<'v, '_, '_>, f: Value<'v>, v: Value<'v>) -> char {
    match eval.eval_function(f, &[v], &[]) {
        Ok(_) => '1',
        Err(e) => {
            if is_mismatch(&e) {
                '0'
            } else {
                'E'
            }
        }
    }
}

fn call_bool<'v>(eval: &mut Evaluator<'v, '_, '_>, f: Value<'v>, v: Value<'v>) -> char {
    match eval.eval_function(f, &[v], &[]) {
        Ok(r) => match r.unpack_bool() {
            Some(true) => '1',
            Some(false) => '0',
            None => 'E',
        },
        Err(_) => 'E',
    }
}

fn host<'v>(eval: &mut Evaluator<'v, '_, '_>, t: Value<'v>, v: Value<'v>) -> char {
    match TypeCompiled::new(t, eval.heap()) {
        Ok(tc) => {
            if tc.matches(v) {
                '1'
            } else {
                '0'
            }
        }
        Err(_) => 'E',
    }
}

/// Evaluate a whole module whose last statement is a module-level annotated assignment.
fn module_assign(g: &Globals, src: &str, frozen: Option<&FrozenModule>) -> char {
    Module::with_temp_heap(|module| {
        let ast = match AstModule::parse("m.star", src.to_owned(), &dialect()) {
            Ok(a) => a,
            Err(_) => return 'E',
        };
        let mut modules = HashMap::new();
        if let Some(f) = frozen {
            modules.insert("a.star", f);
        }
        let loader = ReturnFileLoader { modules: &modules };
        let mut eval = Evaluator::new(&module);
        eval.set_loader(&loader);
        match eval.eval_module(ast, g) {
            Ok(_) => '1',
            Err(e) => {
                if is_mismatch(&e) {
                    '0'
                } else {
                    'E'
                }
            }
        }
    })
}

fn defs(prefix: &str, ty: &str, tyx: &str) -> String {
    format!(
        "def {p}_isi(x):\n    return isinstance(x, {tx})\ndef {p}_param(x: {t}):\n    pass\ndef {p}_ret(x) -> {t}:\n    return x\ndef {p}_asg(x):\n    y: {t} = x\n    return None\n",
        p = prefix,
        t = ty,
        tx = tyx
    )
}

struct PhaseA {
    show: String,
    rows: Vec<String>,
    frozen: FrozenModule,
}

fn phase_a(g: &Globals, ty: &str, tyx: &str, vals: &[String]) -> Result<PhaseA, String> {
    let src = format!(
        "{PRELUDE}T = {tyx}\n{d}def p_isv(x):\n    return isinstance(x, T)\nVALS = [{vs}]\n",
        d = defs("p", ty, tyx),
        vs = vals.join(", ")
    );
    Module::with_temp_heap(|module| {
        let mut rows = Vec::new();
        let show;
        {
            let ast = AstModule::parse("a.star", src.clone(), &dialect())
                .map_err(|e| format!("parse: {}", e.without_diagnostic()))?;
            let mut eval = Evaluator::new(&module);
            eval.eval_module(ast, g)
                .map_err(|e| format!("eval: {}", e.without_diagnostic()))?;
            let get = |n: &str| module.get(n).ok_or_else(|| format!("missing {}", n));
            let t = get("T")?;
            show = match TypeCompiled::new(t, eval.heap()) {
                Ok(tc) => tc.to_string(),
                Err(e) => return Err(format!("type: {}", e)),
            };
            let (isi, isv, par, ret, asg) = (
                get("p_isi")?,
                get("p_isv")?,
                get("p_param")?,
                get("p_ret")?,
                get("p_asg")?,
            );
            let vs: Vec<Value> = ListRef::from_value(get("VALS")?)
                .ok_or("VALS not a list")?
                .content()
                .to_vec();
            for (i, v) in vs.iter().enumerate() {
                let mut s = String::new();
                s.push(call_bool(&mut eval, isi, *v));
                s.push(call_bool(&mut eval, isv, *v));
                s.push(call_check(&mut eval, par, *v));
                s.push(call_check(&mut eval, ret, *v));
                s.push(call_check(&mut eval, asg, *v));
                s.push(module_assign(
                    g,
                    &format!("{PRELUDE}x: {ty} = {}\n", vals[i]),
                    None,
                ));
                s.push(host(&mut eval, t, *v));
                rows.push(s);
            }
        }
        let frozen = module.freeze().map_err(|e| format!("freeze: {:?}", e))?;
        Ok(PhaseA { show, rows, frozen })
    })
}

fn phase_b(g: &Globals, a: &FrozenModule, vals: &[String], rows: &mut [String]) -> Result<(), String> {
    let src = format!(
        "load(\"a.star\", \"T\", \"VALS\", \"p_isi\", \"p_param\", \"p_ret\", \"p_asg\", \"R1\", \"R2\", \"E1\", \"E2\", \"fn\")\n{d}VALS2 = [{vs}]\nEXPORT = [T, VALS, p_isi, p_param, p_ret, p_asg]\n",
        d = defs("q", "T", "T"),
        vs = vals.join(", ")
    );
    let mut modules = HashMap::new();
    modules.insert("a.star", a);
    let loader = ReturnFileLoader { modules: &modules };
    Module::with_temp_heap(|module| {
        let ast = AstModule::parse("b.star", src.clone(), &dialect())
            .map_err(|e| format!("parse b: {}", e.without_diagnostic()))?;
        let mut eval = Evaluator::new(&module);
        eval.set_loader(&loader);
        eval.eval_module(ast, g)
            .map_err(|e| format!("eval b: {}", e.without_diagnostic()))?;
        let get = |n: &str| module.get(n).ok_or_else(|| format!("missing {}", n));
        let ex: Vec<Value> = ListRef::from_value(get("EXPORT")?)
            .ok_or("EXPORT")?
            .content()
            .to_vec();
        let (t, fvals) = (ex[0], ex[1]);
        let pf = [ex[2], ex[3], ex[4], ex[5]];
        let qf = [get("q_isi")?, get("q_param")?, get("q_ret")?, get("q_asg")?];
        let fv: Vec<Value> = ListRef::from_value(fvals).ok_or("VALS")?.content().to_vec();
        let lv: Vec<Value> = ListRef::from_value(get("VALS2")?)
            .ok_or("VALS2")?
            .content()
            .to_vec();
        for (i, row) in rows.iter_mut().enumerate() {
            for (k, v) in [(0, fv[i]), (1, lv[i])] {
                row.push('|');
                row.push(call_bool(&mut eval, pf[0], v));
                for f in &pf[1..] {
                    row.push(call_check(&mut eval, *f, v));
                }
                row.push(call_bool(&mut eval, qf[0], v));
                for f in &qf[1..] {
                    row.push(call_check(&mut eval, *f, v));
                }
                if k == 0 {
                    row.push(module_assign(
                        g,
                        &format!("load(\"a.star\", \"T\", \"VALS\")\nx: T = VALS[{}]\n", i),
                        Some(a),
                    ));
                    // A's frozen def with an annotated parameter called from Starlark code of B with a
                    // compile-time constant argument (the shape the call inliner looks at)
                    row.push(module_assign(
                        g,
                        &format!("load(\"a.star\", \"p_param\", \"VALS\")\np_param(VALS[{}])\n", i),
                        Some(a),
                    ));
                    row.push(module_assign(
                        g,
                        &format!("load(\"a.star\", \"p_param\", \"VALS\")\ndef caller():\n    return p_param(VALS[{}])\ncaller()\n", i),
                        Some(a),
                    ));
                }
                row.push(host(&mut eval, t, v));
            }
        }
        Ok(())
    })
}

fn main() {
    let g = globals();
    run_cases(|c| {
        let ty = c["ty"].as_str().unwrap();
        let tyx = c["tyx"].as_str().unwrap_or(ty);
        let vals: Vec<String> = c["vals"]
            .as_array()
            .unwrap()
            .iter()
            .map(|v| v.as_str().unwrap().to_owned())
            .collect();
        let mut a = match phase_a(&g, ty, tyx, &vals) {
            Ok(a) => a,
            Err(e) => return json!({"err": e}),
        };
        if let Err(e) = phase_b(&g, &a.frozen, &vals, &mut a.rows) {
            return json!({"err": e, "show": a.show});
        }
        let rows: Vec<J> = a.rows.into_iter().map(J::String).collect();
        json!({"show": a.show, "rows": rows})
    });
}
