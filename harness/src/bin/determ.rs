//! C14 determinism driver: evaluates ONE program under ONE configuration and prints everything an
//! embedder can observe, as one JSON line.  The Python driver (tools/props/C14.py) runs this binary as a
//! separate PROCESS per (program, configuration) and requires the outputs to be byte-identical.
//!
//! usage:  determ -            case JSON on stdin, result JSON on stdout
//!         determ cases out    (one case per line, as the other harness bins)
//!
//! case = { "src": "...", "then": ["..."],          sources evaluated one after the other on ONE module
//!          "cfg": { "alloc_noise": [seed, n],       allocate n blocks of random size, free about half
//!                   "heap_noise": k,                create and drop k unrelated heaps/modules first
//!                   "pre": ["src", ...],            evaluate (and keep, frozen) unrelated modules first
//!                   "thread": bool, "stack_kb": n,  evaluate on a spawned thread
//!                   "gc_every": k,                  force a (moving) collection every k allocations-checks
//!                   "static_tc": bool } }           enable the evaluator's static type checking
//!
//! observed: per source the emit()/print() transcript, the result (structural encoding, str, repr) or the FULL
//! text of the error (message, did-you-mean suggestion, call stack, source excerpt); after the run every module
//! variable in `names()` order with type/str/repr/dir()/json; the static type checker's diagnostics, the
//! inferred type map and interface entries; the linter's output (with and without the set of globals), in order.

use std::collections::HashMap;
use std::collections::HashSet;
use std::io::Read;

use serde_json::Value as J;
use serde_json::json;
use starlark::PrintHandler;
use starlark::analysis::AstModuleLint;
use starlark::environment::FrozenModule;
use starlark::environment::Module;
use starlark::eval::Evaluator;
use starlark::syntax::AstModule;
use starlark::typing::AstModuleTypecheck;
use sv_harness::TRANSCRIPT;
use sv_harness::dialect;
use sv_harness::enc;
use sv_harness::err_json;
use sv_harness::globals;
use sv_harness::take_transcript;

struct Printer;
impl PrintHandler for Printer {
    fn println(&self, text: &str) -> starlark::Result<()> {
        TRANSCRIPT.with(|t| t.borrow_mut().push(format!("print:{}", text)));
        Ok(())
    }
}

struct Rng(u64);
impl Rng {
    fn next(&mut self) -> u64 {
        // xorshift64*
        let mut x = self.0 | 1;
        x ^= x >> 12;
        x ^= x << 25;
        x ^= x >> 27;
        self.0 = x;
        x.wrapping_mul(0x2545F4914F6CDD1D)
    }
}

/// Allocate `n` blocks of random size and free about half of them (in random order); the survivors are
/// returned and stay alive during the evaluation, so that the allocator state and the addresses handed to the
/// evaluator differ between configurations.
fn alloc_noise(seed: u64, n: usize) -> Vec<Vec<u8>> {
    let mut r = Rng(seed.wrapping_mul(0x9E3779B97F4A7C15) ^ 0xD1B54A32D192ED03);
    let mut blocks: Vec<Vec<u8>> = Vec::new();
    for _ in 0..n {
        let k = r.next();
        let size = match k % 16 {
            0 => 1 << 18,
            1 | 2 => 64 * 1024 + (k >> 8) as usize % 65536,
            3..=6 => 4096 + (k >> 8) as usize % 8192,
            _ => 1 + (k >> 8) as usize % 512,
        };
        let mut b = vec![0u8; size];
        b[size / 2] = k as u8; // touch
        blocks.push(b);
    }
    let mut keep = Vec::new();
    while let Some(b) = blocks.pop() {
        if r.next() % 2 == 0 {
            keep.push(b);
        } else if !blocks.is_empty() {
            let i = (r.next() as usize) % blocks.len();
            blocks.swap_remove(i);
        }
    }
    keep
}

const NOISE_SRC: &str = r#"
def _noise(n):
    d = {}
    for i in range(n):
        d["k%d" % i] = [i, str(i), (i, i)]
    s = struct(a = d, b = [x for x in d], c = set(d.keys()))
    return s
_r = _noise(NOISE_N)
_names = dir(_r)
"#;

/// Create and drop `k` unrelated heaps and modules.
fn heap_noise(k: u64) {
    let g = globals();
    for i in 0..k {
        Module::with_temp_heap(|module| {
            let src = NOISE_SRC.replace("NOISE_N", &format!("{}", 3 + (i * 7) % 40));
            if let Ok(ast) = AstModule::parse("noise.star", src, &dialect()) {
                let mut eval = Evaluator::new(&module);
                let _ = eval.eval_module(ast, &g);
            }
            for j in 0..(i % 5) {
                let _ = module.heap().alloc(format!("noise string {} {}", i, j));
            }
        });
    }
    TRANSCRIPT.with(|t| t.borrow_mut().clear());
}

/// Evaluate unrelated modules first; they are frozen and kept alive.
fn pre_modules(srcs: &[String]) -> Vec<FrozenModule> {
    let g = globals();
    let mut kept = Vec::new();
    for (i, src) in srcs.iter().enumerate() {
        let r: Option<FrozenModule> = Module::with_temp_heap(|module| {
            let ast = AstModule::parse(&format!("pre{}.star", i), src.clone(), &dialect()).ok()?;
            {
                let mut eval = Evaluator::new(&module);
                eval.set_print_handler(&Printer);
                let _ = eval.eval_module(ast, &g);
            }
            module.freeze().ok()
        });
        if let Some(m) = r {
            kept.push(m);
        }
    }
    TRANSCRIPT.with(|t| t.borrow_mut().clear());
    kept
}

fn observe(c: &J) -> J {
    let cfg = &c["cfg"];
    let g = globals();
    let d = dialect();
    let mut srcs: Vec<String> = vec![c["src"].as_str().unwrap_or("").to_owned()];
    if let Some(t) = c["then"].as_array() {
        for s in t {
            srcs.push(s.as_str().unwrap_or("").to_owned());
        }
    }
    TRANSCRIPT.with(|t| t.borrow_mut().clear());
    // ---- evaluation ----------------------------------------------------------------------------
    let (steps, post, names): (Vec<J>, Vec<J>, Vec<String>) = Module::with_temp_heap(|module| {
        let mut steps = Vec::new();
        {
            let mut eval = Evaluator::new(&module);
            eval.set_print_handler(&Printer);
            if cfg["static_tc"].as_bool().unwrap_or(false) {
                eval.enable_static_typechecking(true);
            }
            starlark::verif_hooks::set_gc_every(cfg["gc_every"].as_u64().unwrap_or(0));
            for (i, src) in srcs.iter().enumerate() {
                let res = match AstModule::parse(&format!("main{}.star", i), src.clone(), &d) {
                    Err(e) => Err(e),
                    Ok(ast) => eval.eval_module(ast, &g),
                };
                let out = match res {
                    Ok(v) => json!({"ok": enc(v), "str": v.to_str(), "repr": v.to_repr(), "type": v.get_type()}),
                    Err(e) => {
                        let mut j = err_json(&e);
                        j["full"] = J::String(format!("{}", e));
                        j["alt"] = J::String(format!("{:#}", e));
                        json!({"err": j})
                    }
                };
                steps.push(json!({"tr": take_transcript(), "out": out, "stack_after": eval.call_stack_count()}));
            }
            starlark::verif_hooks::set_gc_every(0);
        }
        // every module variable, in the order `names()` yields them
        let names: Vec<String> = module.names().map(|s| s.as_str().to_owned()).collect();
        let mut post = Vec::new();
        for n in &names {
            // (Module::get panics for a name whose slot was never created - eval_module failed during scope resolution)
            let got = std::panic::catch_unwind(std::panic::AssertUnwindSafe(|| module.get(n)));
            let Ok(got) = got else {
                post.push(json!({"name": n, "panic": true}));
                continue;
            };
            if let Some(v) = got {
                let js = match v.to_json() {
                    Ok(s) => s,
                    Err(e) => format!("error: {:#}", e),
                };
                post.push(json!({
                    "name": n, "type": v.get_type(), "str": v.to_str(), "repr": v.to_repr(),
                    "dir": v.dir_attr(), "json": js, "enc": enc(v),
                }));
            } else {
                post.push(json!({"name": n, "unset": true}));
            }
        }
        (steps, post, names)
    });
    // ---- static type checker -------------------------------------------------------------------
    let mut tc = Vec::new();
    let mut lint = Vec::new();
    let gnames: HashSet<String> = g.names().map(|s| s.as_str().to_owned()).collect();
    for (i, src) in srcs.iter().enumerate() {
        match AstModule::parse(&format!("main{}.star", i), src.clone(), &d) {
            Err(e) => {
                tc.push(json!({"parse_error": format!("{}", e)}));
                lint.push(json!({"parse_error": format!("{}", e)}));
            }
            Ok(ast) => {
                let (errors, typemap, interface, approximations) = ast.typecheck(&g, &HashMap::new());
                let errs: Vec<String> = errors.iter().map(|e| format!("{}", e)).collect();
                let apx: Vec<String> = approximations.iter().map(|a| format!("{}", a)).collect();
                let iface: Vec<J> = names
                    .iter()
                    .map(|n| json!([n, interface.get(n).map(|t| format!("{}", t))]))
                    .collect();
                tc.push(json!({"errors": errs, "typemap": format!("{}", typemap), "approximations": apx, "interface": iface}));
                // the linter, in the order it reports
                let ast2 = AstModule::parse(&format!("main{}.star", i), src.clone(), &d).unwrap();
                let show = |ls: Vec<starlark::analysis::Lint>| -> Vec<J> {
                    ls.iter()
                        .map(|l| json!({"text": format!("{}", l), "name": l.short_name, "sev": format!("{}", l.severity), "orig": l.original}))
                        .collect()
                };
                lint.push(json!({"no_globals": show(ast2.lint(None)), "globals": show(ast2.lint(Some(&gnames)))}));
            }
        }
    }
    json!({"steps": steps, "post": post, "names": names, "tc": tc, "lint": lint})
}

fn run_one(c: &J) -> J {
    let cfg = &c["cfg"];
    let _keep = match cfg["alloc_noise"].as_array() {
        Some(a) if a.len() == 2 => alloc_noise(a[0].as_u64().unwrap_or(1), a[1].as_u64().unwrap_or(0) as usize),
        _ => Vec::new(),
    };
    heap_noise(cfg["heap_noise"].as_u64().unwrap_or(0));
    let pre: Vec<String> = cfg["pre"]
        .as_array()
        .map(|a| a.iter().map(|s| s.as_str().unwrap_or("").to_owned()).collect())
        .unwrap_or_default();
    if cfg["thread"].as_bool().unwrap_or(false) {
        let c2 = c.clone();
        let kb = cfg["stack_kb"].as_u64().unwrap_or(8192) as usize;
        let h = std::thread::Builder::new()
            .stack_size(kb * 1024)
            .spawn(move || {
                // noise that is thread-local in effect (the transcript is thread-local too)
                let _kept = pre_modules(&pre);
                observe(&c2)
            })
            .expect("spawn");
        match h.join() {
            Ok(j) => j,
            Err(_) => json!({"panic": "evaluation thread panicked"}),
        }
    } else {
        let _kept = pre_modules(&pre);
        observe(c)
    }
}

fn main() {
    let args: Vec<String> = std::env::args().collect();
    if args.len() >= 2 && args[1] == "-" {
        let mut s = String::new();
        std::io::stdin().read_to_string(&mut s).expect("stdin");
        let c: J = serde_json::from_str(&s).expect("case json");
        // the panic message and location go to stderr (not compared) and into the result
        std::panic::set_hook(Box::new(|info| eprintln!("panic: {}", info)));
        let r = match std::panic::catch_unwind(std::panic::AssertUnwindSafe(|| run_one(&c))) {
            Ok(v) => v,
            Err(e) => {
                let msg = if let Some(s) = e.downcast_ref::<String>() {
                    s.clone()
                } else if let Some(s) = e.downcast_ref::<&str>() {
                    s.to_string()
                } else {
                    "?".to_owned()
                };
                json!({"panic": msg})
            }
        };
        println!("{}", serde_json::to_string(&r).unwrap());
        return;
    }
    sv_harness::run_cases(|c| run_one(c));
}
