//! C19 driver: talks JSON-RPC to the real `starlark_lsp` server over an in-memory
//! `lsp_server::Connection`, with an `LspContext` backed by an in-memory file map.
//!
//! case = {"op":"session", "files": {"/ws/lib.star": "..."}, "deadline_ms": 4000,
//!         "steps": [ {"do":"open","uri":U,"text":T,"version":1} | {"do":"change","uri":U,"text":T,"version":2}
//!                  | {"do":"close","uri":U} | {"do":"req","method":M,"params":{...}} ]}
//!   -> {"steps":[{"notifs":[...], "resp":{..}|null, "timeout":bool}], "crash": msg|null, "init": {...}}
//! case = {"op":"codemap","text":T,"offsets":[byte offsets]}
//!   -> {"lines": n, "res":[[find_line, bl, bc, source_line_len_bytes]...]}   (CodeMap::find_line / resolve_span)
//! case = {"op":"errspan","src":T,"mods":[{"name","src"}]}
//!   -> {"err": {"msg","begin":byte,"end":byte,"bl","bc","el","ec","text":source_span}} | {"ok":true}
//!
//! Every wait is under the deadline; a missing reply is reported as `timeout`, a panic of the
//! server thread as `crash` (both are violations of the property, decided by tools/props/C19.py).

use std::collections::HashMap;
use std::path::Path;
use std::path::PathBuf;
use std::str::FromStr;
use std::sync::Arc;
use std::sync::Mutex;
use std::sync::RwLock;
use std::sync::mpsc;
use std::time::Duration;
use std::time::Instant;

use lsp_server::Connection;
use lsp_server::Message;
use lsp_server::Notification;
use lsp_server::Request;
use lsp_server::RequestId;
use lsp_types::CompletionItemKind;
use lsp_types::Uri;
use serde_json::Value as J;
use serde_json::json;
use starlark::analysis::AstModuleLint;
use starlark::codemap::CodeMap;
use starlark::codemap::Pos;
use starlark::codemap::Span;
use starlark::docs::DocModule;
use starlark::environment::FrozenModule;
use starlark::environment::Module;
use starlark::errors::EvalMessage;
use starlark::eval::Evaluator;
use starlark::eval::ReturnFileLoader;
use starlark::syntax::AstModule;
use starlark::syntax::Dialect;
use starlark_lsp::completion::StringCompletionResult;
use starlark_lsp::completion::StringCompletionType;
use starlark_lsp::error::eval_message_to_lsp_diagnostic;
use starlark_lsp::server::LspContext;
use starlark_lsp::server::LspEvalResult;
use starlark_lsp::server::LspUri;
use starlark_lsp::server::StringLiteralResult;
use starlark_lsp::server::server_with_connection;
use sv_harness::globals;
use sv_harness::run_cases;

struct MemCtx {
    files: Arc<RwLock<HashMap<PathBuf, String>>>,
    env: DocModule,
}

fn file_uri(p: &Path) -> Result<LspUri, String> {
    let u = Uri::from_str(&format!("file://{}", p.display())).map_err(|e| format!("{e:?}"))?;
    LspUri::try_from(u).map_err(|e| e.to_string())
}

impl LspContext for MemCtx {
    fn parse_file_with_contents(&self, uri: &LspUri, content: String) -> LspEvalResult {
        match uri {
            LspUri::File(path) | LspUri::Starlark(path) => {
                match AstModule::parse(&path.to_string_lossy(), content, &Dialect::AllOptionsInternal) {
                    Ok(ast) => {
                        let diagnostics = ast
                            .lint(None)
                            .into_iter()
                            .map(|l| eval_message_to_lsp_diagnostic(EvalMessage::from(l)))
                            .collect();
                        LspEvalResult { diagnostics, ast: Some(ast) }
                    }
                    Err(e) => LspEvalResult {
                        diagnostics: vec![eval_message_to_lsp_diagnostic(EvalMessage::from_error(path, &e))],
                        ast: None,
                    },
                }
            }
            _ => LspEvalResult::default(),
        }
    }

    fn resolve_load(&self, path: &str, current_file: &LspUri, _root: Option<&Path>) -> Result<LspUri, String> {
        let path = PathBuf::from(path);
        match current_file {
            LspUri::File(cur) => {
                let abs = if path.is_absolute() {
                    path
                } else {
                    match cur.parent() {
                        Some(d) => d.join(&path),
                        None => return Err("no parent".to_owned()),
                    }
                };
                file_uri(&abs)
            }
            _ => Err(format!("URI `{current_file}` was expected to be of type file")),
        }
    }

    fn render_as_load(&self, target: &LspUri, current_file: &LspUri, _root: Option<&Path>) -> Result<String, String> {
        match (target, current_file) {
            (LspUri::File(t), LspUri::File(_)) => match t.file_name() {
                Some(f) => Ok(f.to_string_lossy().into_owned()),
                None => Err("no file name".to_owned()),
            },
            _ => Err("wrong scheme".to_owned()),
        }
    }

    fn resolve_string_literal(
        &self,
        literal: &str,
        current_file: &LspUri,
        root: Option<&Path>,
    ) -> Result<Option<StringLiteralResult>, String> {
        if !literal.ends_with(".star") || literal.contains(char::is_whitespace) {
            return Ok(None);
        }
        let uri = self.resolve_load(literal, current_file, root)?;
        Ok(Some(StringLiteralResult {
            uri,
            // jump to the first statement of the target: exercises span -> range of another document
            location_finder: Some(Box::new(|ast: &AstModule| {
                let mut first = None;
                ast.statement().visit_stmt(|s| {
                    if first.is_none() {
                        first = Some(s.span);
                    }
                });
                Ok(first.or(Some(ast.statement().span)))
            })),
        }))
    }

    fn get_load_contents(&self, uri: &LspUri) -> Result<Option<String>, String> {
        match uri {
            LspUri::File(p) => Ok(self.files.read().unwrap().get(p).cloned()),
            _ => Ok(None),
        }
    }

    fn get_environment(&self, _uri: &LspUri) -> DocModule {
        self.env.clone()
    }

    fn get_uri_for_global_symbol(&self, _cur: &LspUri, _symbol: &str) -> Result<Option<LspUri>, String> {
        Ok(None)
    }

    fn get_string_completion_options(
        &self,
        _document_uri: &LspUri,
        kind: StringCompletionType,
        current_value: &str,
        _root: Option<&Path>,
    ) -> Result<Vec<StringCompletionResult>, String> {
        Ok(vec![StringCompletionResult {
            value: format!("{}x", current_value),
            insert_text: None,
            insert_text_offset: 0,
            kind: if kind == StringCompletionType::LoadPath { CompletionItemKind::FILE } else { CompletionItemKind::TEXT },
        }])
    }
}

fn small_env() -> DocModule {
    let mut d = globals().documentation();
    let keep = ["len", "str", "print", "fail", "range", "emit"];
    d.members.retain(|k, _| keep.contains(&k.as_str()));
    d
}

struct Client {
    conn: Connection,
    next_id: i32,
    deadline: Duration,
}

enum Got {
    Msg(Message),
    Timeout,
    Closed,
}

impl Client {
    fn recv(&self, until: Instant) -> Got {
        let now = Instant::now();
        let left = if until > now { until - now } else { Duration::from_millis(0) };
        match self.conn.receiver.recv_timeout(left) {
            Ok(m) => Got::Msg(m),
            Err(e) => {
                if e.is_timeout() {
                    Got::Timeout
                } else {
                    Got::Closed
                }
            }
        }
    }

    /// Send a request and wait for its response; returns (notifications seen, response json, status).
    fn request(&mut self, method: &str, params: J) -> (Vec<J>, J, &'static str) {
        self.next_id += 1;
        let id = RequestId::from(self.next_id);
        let req = Request { id: id.clone(), method: method.to_owned(), params };
        if self.conn.sender.send(Message::Request(req)).is_err() {
            return (vec![], J::Null, "closed");
        }
        let until = Instant::now() + self.deadline;
        let mut notifs = Vec::new();
        loop {
            match self.recv(until) {
                Got::Msg(Message::Response(r)) if r.id == id => {
                    return (notifs, serde_json::to_value(&r).unwrap_or(J::Null), "ok");
                }
                Got::Msg(Message::Notification(n)) => notifs.push(json!({"method": n.method, "params": n.params})),
                Got::Msg(_) => {}
                Got::Timeout => return (notifs, J::Null, "timeout"),
                Got::Closed => return (notifs, J::Null, "closed"),
            }
        }
    }

    /// Send a notification and wait for the publishDiagnostics (or an error logMessage) it causes.
    fn notify(&mut self, method: &str, params: J, wait: bool) -> (Vec<J>, &'static str) {
        let n = Notification { method: method.to_owned(), params };
        if self.conn.sender.send(Message::Notification(n)).is_err() {
            return (vec![], "closed");
        }
        let mut notifs = Vec::new();
        if !wait {
            return (notifs, "ok");
        }
        let until = Instant::now() + self.deadline;
        loop {
            match self.recv(until) {
                Got::Msg(Message::Notification(n)) => {
                    let done = n.method == "textDocument/publishDiagnostics"
                        || (n.method == "window/logMessage" && n.params["type"].as_i64() == Some(1));
                    notifs.push(json!({"method": n.method, "params": n.params}));
                    if done {
                        return (notifs, "ok");
                    }
                }
                Got::Msg(_) => {}
                Got::Timeout => return (notifs, "timeout"),
                Got::Closed => return (notifs, "closed"),
            }
        }
    }
}

fn session(c: &J) -> J {
    let files: HashMap<PathBuf, String> = c["files"]
        .as_object()
        .map(|m| m.iter().map(|(k, v)| (PathBuf::from(k), v.as_str().unwrap_or("").to_owned())).collect())
        .unwrap_or_default();
    let files = Arc::new(RwLock::new(files));
    let deadline = Duration::from_millis(c["deadline_ms"].as_u64().unwrap_or(4000));
    let (server_conn, client_conn) = Connection::memory();
    let panic_msg: Arc<Mutex<Option<String>>> = Arc::new(Mutex::new(None));
    let (done_tx, done_rx) = mpsc::channel::<()>();
    let ctx_files = files.clone();
    let pm = panic_msg.clone();
    let handle = std::thread::spawn(move || {
        let r = std::panic::catch_unwind(std::panic::AssertUnwindSafe(|| {
            let ctx = MemCtx { files: ctx_files, env: small_env() };
            server_with_connection(server_conn, ctx)
        }));
        match r {
            Ok(Ok(())) => {}
            Ok(Err(e)) => *pm.lock().unwrap() = Some(format!("server error: {e}")),
            Err(e) => {
                let msg = if let Some(s) = e.downcast_ref::<String>() {
                    s.clone()
                } else if let Some(s) = e.downcast_ref::<&str>() {
                    s.to_string()
                } else {
                    "?".to_owned()
                };
                *pm.lock().unwrap() = Some(format!("panic: {msg}"));
            }
        }
        let _ = done_tx.send(());
    });
    let mut cl = Client { conn: client_conn, next_id: 0, deadline };
    let init_params = json!({"capabilities": {}, "workspaceFolders": [{"uri": "file:///ws", "name": "ws"}]});
    let (_, init, st) = cl.request("initialize", init_params);
    let mut out_steps = Vec::new();
    let mut dead = st != "ok";
    if !dead {
        let _ = cl.notify("initialized", json!({}), false);
    }
    if let Some(steps) = c["steps"].as_array() {
        for s in steps {
            if dead {
                out_steps.push(json!({"skipped": true}));
                continue;
            }
            let what = s["do"].as_str().unwrap_or("");
            let r = match what {
                "open" => {
                    files.write().unwrap().insert(
                        PathBuf::from(s["uri"].as_str().unwrap_or("").trim_start_matches("file://")),
                        s["text"].as_str().unwrap_or("").to_owned(),
                    );
                    let (n, st) = cl.notify(
                        "textDocument/didOpen",
                        json!({"textDocument": {"uri": s["uri"], "languageId": "starlark", "version": s["version"], "text": s["text"]}}),
                        true,
                    );
                    json!({"notifs": n, "status": st})
                }
                "change" => {
                    files.write().unwrap().insert(
                        PathBuf::from(s["uri"].as_str().unwrap_or("").trim_start_matches("file://")),
                        s["text"].as_str().unwrap_or("").to_owned(),
                    );
                    let (n, st) = cl.notify(
                        "textDocument/didChange",
                        json!({"textDocument": {"uri": s["uri"], "version": s["version"]}, "contentChanges": [{"text": s["text"]}]}),
                        true,
                    );
                    json!({"notifs": n, "status": st})
                }
                "close" => {
                    let (n, st) = cl.notify("textDocument/didClose", json!({"textDocument": {"uri": s["uri"]}}), true);
                    json!({"notifs": n, "status": st})
                }
                "req" => {
                    let (n, resp, st) = cl.request(s["method"].as_str().unwrap_or(""), s["params"].clone());
                    json!({"notifs": n, "resp": resp, "status": st})
                }
                _ => json!({"status": "bad-step"}),
            };
            if r["status"] != "ok" {
                dead = true;
            }
            out_steps.push(r);
        }
    }
    // orderly shutdown (only when the server is still answering)
    let mut shutdown = "skipped";
    if !dead {
        let (_, _, st) = cl.request("shutdown", J::Null);
        let _ = cl.notify("exit", J::Null, false);
        shutdown = st;
        if done_rx.recv_timeout(deadline).is_ok() {
            let _ = handle.join();
        } else {
            shutdown = "no-exit";
        }
    } else if done_rx.recv_timeout(Duration::from_millis(200)).is_ok() {
        let _ = handle.join();
    }
    let crash = panic_msg.lock().unwrap().clone();
    json!({"steps": out_steps, "crash": crash, "init": init, "init_status": st, "shutdown": shutdown})
}

fn codemap_case(c: &J) -> J {
    let text = c["text"].as_str().unwrap_or("").to_owned();
    let cm = CodeMap::new("t.star".to_owned(), text.clone());
    let mut res = Vec::new();
    if let Some(offs) = c["offsets"].as_array() {
        for o in offs {
            let o = o.as_u64().unwrap_or(0) as u32;
            let line = cm.find_line(Pos::new(o));
            let r = cm.resolve_span(Span::new(Pos::new(o), Pos::new(o)));
            let range: lsp_types::Range = r.into();
            res.push(json!([line, r.begin.line, r.begin.column, range.start.line, range.start.character]));
        }
    }
    let mut nlines = 0usize;
    while cm.line_span_opt(nlines).is_some() {
        nlines += 1;
    }
    json!({"lines": nlines, "res": res})
}

fn errspan_case(c: &J) -> J {
    let g = globals();
    let dialect = Dialect::AllOptionsInternal;
    let mut frozen: Vec<(String, FrozenModule)> = Vec::new();
    if let Some(mods) = c["mods"].as_array() {
        for m in mods {
            let name = m["name"].as_str().unwrap_or("").to_owned();
            let src = m["src"].as_str().unwrap_or("").to_owned();
            let r: Result<FrozenModule, String> = Module::with_temp_heap(|module| {
                let ast = AstModule::parse(&name, src, &dialect).map_err(|e| format!("{e}"))?;
                {
                    let mut eval = Evaluator::new(&module);
                    eval.eval_module(ast, &g).map_err(|e| format!("{e}"))?;
                }
                module.freeze().map_err(|e| format!("{e:?}"))
            });
            match r {
                Ok(fm) => frozen.push((name, fm)),
                Err(e) => return json!({"lib_err": e}),
            }
        }
    }
    let map: HashMap<&str, &FrozenModule> = frozen.iter().map(|(n, m)| (n.as_str(), m)).collect();
    let loader = ReturnFileLoader { modules: &map };
    let src = c["src"].as_str().unwrap_or("").to_owned();
    Module::with_temp_heap(|module| {
        let res = match AstModule::parse("main.star", src, &dialect) {
            Err(e) => Err(e),
            Ok(ast) => {
                let mut eval = Evaluator::new(&module);
                eval.set_loader(&loader);
                eval.eval_module(ast, &g).map(|_| ())
            }
        };
        match res {
            Ok(()) => json!({"ok": true}),
            Err(e) => {
                let msg = format!("{}", e.without_diagnostic());
                match e.span() {
                    None => json!({"err": {"msg": msg, "span": J::Null}}),
                    Some(fs) => {
                        let r = fs.resolve_span();
                        let range: lsp_types::Range = r.into();
                        json!({"err": {"msg": msg, "file": fs.filename(),
                            "begin": fs.span.begin().get(), "end": fs.span.end().get(),
                            "bl": r.begin.line, "bc": r.begin.column, "el": r.end.line, "ec": r.end.column,
                            "range": range, "text": fs.source_span(),
                            "display": format!("{}", fs)}})
                    }
                }
            }
        }
    })
}

fn main() {
    run_cases(|c| match c["op"].as_str() {
        Some("session") => session(c),
        Some("codemap") => codemap_case(c),
        Some("errspan") => errspan_case(c),
        _ => json!({"bad_op": true}),
    });
}
