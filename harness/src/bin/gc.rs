//! C03 object-graph tie.
//!
//! case = { "src": "...", "drop": "...", "then": "...", "opts": {"extra": "var", "set_vars": {...}, "poison": bool, "rounds": n} }
//!
//! 1. `src` is evaluated with the collector disabled (so "before" is the graph the program built);
//!    if `opts.extra` names a module variable its value is stored with `Module::set_extra_value`, then `drop`
//!    is evaluated (still without collections) - typically rebinding variables so that a value stays reachable only
//!    through extra_value / a closure / a container;
//! 2. everything reachable from the module variables (sorted by name) and extra_value is walked through the public API
//!    with pointer identity (`Value::ptr_eq`) into a first-visit-numbered graph;
//! 3. `rounds` collections are forced (a one-statement module with `set_gc_every(1)`; poisoning on: the old arena is
//!    overwritten with 0xDB before it is released);
//! 4. the walk is repeated; 5. `then` is evaluated with a collection at every safepoint and its transcript reported.
//!
//! graph = { "nodes": [ {"t": tag, "f": [ref...]} ], "roots": [[name, ref]...] },  ref = ["p", index] | ["i", encoding]

use serde_json::Value as J;
use serde_json::json;
use starlark::environment::Module;
use starlark::eval::Evaluator;
use starlark::syntax::AstModule;
use starlark::values::Heap;
use starlark::values::Value;
use starlark::values::dict::DictRef;
use starlark::values::list::ListRef;
use starlark::values::tuple::TupleRef;
use sv_harness::dialect;
use sv_harness::enc;
use sv_harness::err_json;
use sv_harness::globals_with_host_api as globals;
use sv_harness::run_cases;
use sv_harness::take_transcript;

struct Walk<'v> {
    seen: Vec<Value<'v>>,
    nodes: Vec<J>,
    heap: Heap<'v>,
}

impl<'v> Walk<'v> {
    fn new(heap: Heap<'v>) -> Walk<'v> {
        Walk { seen: Vec::new(), nodes: Vec::new(), heap }
    }

    fn visit(&mut self, v: Value<'v>, depth: usize) -> J {
        if v.unpack_frozen().is_some() {
            // immediate or frozen: never moved; identified by content
            return json!(["i", enc(v)]);
        }
        if let Some(i) = self.seen.iter().position(|x| x.ptr_eq(v)) {
            return json!(["p", i]);
        }
        let idx = self.seen.len();
        self.seen.push(v);
        self.nodes.push(J::Null);
        if depth > 400 {
            self.nodes[idx] = json!({"t": "<too-deep>", "f": []});
            return json!(["p", idx]);
        }
        let (tag, kids): (String, Vec<Value<'v>>) = if let Some(l) = ListRef::from_value(v) {
            ("list".to_owned(), l.iter().collect())
        } else if let Some(t) = TupleRef::from_value(v) {
            ("tuple".to_owned(), t.iter().collect())
        } else if let Some(d) = DictRef::from_value(v) {
            let mut ks = Vec::new();
            for (k, x) in d.iter() {
                ks.push(k);
                ks.push(x);
            }
            ("dict".to_owned(), ks)
        } else if v.get_type() == "set" {
            let ks: Vec<Value<'v>> = match v.iterate(self.heap) {
                Ok(it) => it.collect(),
                Err(_) => Vec::new(),
            };
            ("set".to_owned(), ks)
        } else if v.get_type() == "struct" || v.get_type() == "record" || v.get_type() == "enum" {
            let mut names = v.dir_attr();
            names.sort();
            let mut ks = Vec::new();
            let mut tag = format!("{}(", v.get_type());
            for n in names {
                if let Ok(Some(x)) = v.get_attr(&n, self.heap) {
                    tag.push_str(&n);
                    tag.push(',');
                    ks.push(x);
                }
            }
            tag.push(')');
            (tag, ks)
        } else {
            // string, big int, float, range, function, bound method, partial ...: a cell without walkable fields
            (format!("<{}:{}>", v.get_type(), v.to_repr()), Vec::new())
        };
        let mut refs = Vec::new();
        for k in kids {
            refs.push(self.visit(k, depth + 1));
        }
        self.nodes[idx] = json!({"t": tag, "f": refs});
        json!(["p", idx])
    }
}

fn graph_of<'v>(module: &Module<'v>) -> J {
    let mut names: Vec<String> = module.names().map(|s| s.as_str().to_owned()).collect();
    names.sort();
    let mut w = Walk::new(module.heap());
    let mut roots = Vec::new();
    for n in names {
        if let Some(v) = module.get(&n) {
            let r = w.visit(v, 0);
            roots.push(json!([n, r]));
        }
    }
    if let Some(v) = module.extra_value() {
        let r = w.visit(v, 0);
        roots.push(json!(["<extra_value>", r]));
    }
    json!({"nodes": w.nodes, "roots": roots})
}

fn run<'v>(eval: &mut Evaluator<'v, '_, '_>, name: &str, src: &str) -> J {
    let g = globals();
    let res = match AstModule::parse(name, src.to_owned(), &dialect()) {
        Err(e) => Err(e),
        Ok(ast) => eval.eval_module(ast, &g),
    };
    match res {
        Ok(_) => json!({"ok": true}),
        Err(e) => json!({"err": err_json(&e)}),
    }
}

fn main() {
    run_cases(|c| {
        let opts = &c["opts"];
        starlark::verif_hooks::set_poison(opts["poison"].as_bool().unwrap_or(true));
        let _ = take_transcript();
        let r = Module::with_temp_heap(|module| {
            if let Some(vars) = opts["set_vars"].as_object() {
                for (k, v) in vars {
                    let hv = match v {
                        J::String(s) => module.heap().alloc(s.as_str()),
                        J::Number(n) => module.heap().alloc(n.as_i64().unwrap_or(0)),
                        J::Array(a) => {
                            let items: Vec<Value> = a
                                .iter()
                                .map(|x| match x {
                                    J::String(s) => module.heap().alloc(s.as_str()),
                                    J::Number(n) => module.heap().alloc(n.as_i64().unwrap_or(0)),
                                    _ => Value::new_none(),
                                })
                                .collect();
                            module.heap().alloc(items)
                        }
                        J::Bool(b) => Value::new_bool(*b),
                        _ => Value::new_none(),
                    };
                    module.set(k, hv);
                }
            }
            let mut eval = Evaluator::new(&module);
            eval.disable_gc();
            starlark::verif_hooks::set_gc_every(0);
            let out_src = run(&mut eval, "main.star", c["src"].as_str().unwrap_or(""));
            if let Some(x) = opts["extra"].as_str() {
                if let Some(v) = module.get(x) {
                    module.set_extra_value(v);
                }
            }
            let out_drop = match c["drop"].as_str() {
                Some(s) if !s.is_empty() => run(&mut eval, "drop.star", s),
                _ => J::Null,
            };
            let tr0 = take_transcript();
            let before = graph_of(&module);
            let bytes_before = module.heap().allocated_bytes();
            let rounds = opts["rounds"].as_u64().unwrap_or(1);
            // a collection can only run inside an evaluation (Evaluator::trace walks the current frame): a fresh
            // evaluator runs `rounds` one-statement modules, each with a forced collection at its only safepoint
            drop(eval);
            let mut eval = Evaluator::new(&module);
            starlark::verif_hooks::set_gc_every(1);
            for _ in 0..rounds {
                let _ = run(&mut eval, "gc.star", "None\n");
            }
            let forced = starlark::verif_hooks::gc_counters().1;
            let bytes_after = module.heap().allocated_bytes();
            let after = graph_of(&module);
            // use the values after the collection, collecting at every safepoint
            starlark::verif_hooks::set_gc_every(1);
            let out_then = match c["then"].as_str() {
                Some(s) if !s.is_empty() => run(&mut eval, "then.star", s),
                _ => J::Null,
            };
            let counters = starlark::verif_hooks::gc_counters();
            starlark::verif_hooks::set_gc_every(0);
            let tr1 = take_transcript();
            let last = graph_of(&module);
            drop(eval);
            json!({"src": out_src, "drop": out_drop, "then": out_then, "tr0": tr0, "tr1": tr1,
                   "before": before, "after": after, "last": last,
                   "bytes": [bytes_before, bytes_after], "gc": [counters.0, counters.1], "rounds": rounds, "forced": forced})
        });
        starlark::verif_hooks::set_poison(false);
        r
    });
}
