"""C18 Profilers, statement hooks and the debugger observe without interfering.

Proof: coq/Debug/{Model,Proofs}.v + Properties/C18.v.  MarkStar = a statement language with lines, calls with depth,
loops, early exits and run-time failures; plain semantics, instrumented semantics threading an arbitrary observer
`hook : H -> event -> H`, the trace, and the debug adapter's decision function (breakpoints, Into/Over/Out).

Tie (this module):
  programs  = MarkStar programs (rendered to Starlark AND to a Gallina term) + tools/gen/progs.py programs whose
              emit statements are turned into markers `emit((id, e))` (the program counts its own marker executions);
  configs   = no instrumentation, each ProfileMode, the no-op statement hook (harness bin `eval`), the real debug adapter
              (harness bin `dap`: prepare_dap_adapter + DapAdapterEvalHook on an evaluator thread, client/controller
              threads, every interaction under a timeout) with no breakpoints / breakpoints on marker lines continuing /
              stepping Into / Over / Out / a random command script / evaluate() at every stop / constant conditions;
  scripts   = family S: nested-call programs x breakpoint subsets (any statement line) x ALL command sequences over
              {Continue, Into, Over, Out} up to a depth (tree pruned with the oracle) + random long scripts;
  shadowing = family C: programs whose parameters/locals are named like module globals and whose loaded frozen functions
              have globals colliding with the running module's, under conditional breakpoints (always false / always true /
              depending on locals / failing) and evaluate requests at stops (+ mixed command scripts).
  checked   = (1) transcript, result, error identical to the uninstrumented run in every configuration; profile generation
              succeeds; no hang; (2) the real sequence of before_stmt events is identical in every debugger configuration
              and, for MarkStar programs, equals the Coq model's trace (and transcript/outcome equal the model's);
              (3) the adapter's stops equal the Coq decision function (Debug/Cases.v, vm_compute) applied to the REAL event
              trace; the number of stops per breakpoint line equals the number of executions counted by the program itself;
              the variables shown at a stop equal the value the program emits at that statement;
              (4) every mixed-command session stops exactly where the decision function (Python oracle AND Coq `stops B (script cs)`,
              a stop of any cause consumes the pending step) says on the real trace;
              (5) debugger-side expression evaluation does not interfere: transcript, result/error and FINAL MODULE VALUES equal
              the completely uninstrumented run; always-false conditions give zero stops; conditions on locals stop exactly at
              the executions where they hold; evaluate(name)/variables() show the local's value, not the shadowed global's;
              (6) at every stop inside a def, top_frame() names that def (= the innermost stack_trace() frame).
The Python functions `py_stops`/`py_exec` below are the specification oracle used for triage."""
import json
import os
import random
import re

import sv
from gen import progs

PROP = "C18"
HARNESS_BINS = ["eval", "dap"]
COQ_TARGETS = ["Properties/C18.vo", "Debug/Cases.vo"]
TRUSTED = ["cases.v route: the model (run_case, dbg_cases of coq/Debug/Cases.v) is evaluated by vm_compute inside coqc",
           "harness bins eval (profilers, statement hook) and dap (adapter driver: client, controller and supervisor threads; "
           "recording before_stmt hook installed before the adapter's hook)",
           "tools/gen/progs.py and the MarkStar generator/renderers in tools/props/C18.py",
           "breakpoints are identified with lines (generated programs hold one statement per line)"]
ASSUMPTIONS = ["observers are modelled as functions of (own state, event): a hook that fails (returns Err) or mutates program state "
               "through the Evaluator it is handed is outside the model; the adapter's expression evaluation (breakpoint conditions, "
               "evaluate requests: Evaluator::eval_statements) is tied differentially only: pure expressions, programs with shadowing "
               "locals/parameters and colliding frozen-module globals, comparison of transcript, outcome and final module values with the "
               "uninstrumented run",
               "agreement of the real compiler/VM instrumentation with the model is established by differential testing",
               "timing / allocation effects of profilers are not observable by programs and are not checked"]

PROFILES = ["heap-summary-allocated", "heap-summary-retained", "heap-flame-allocated", "heap-flame-retained", "heap-allocated",
            "heap-retained", "statement", "coverage", "bytecode", "bytecode-pairs", "time-flame", "typecheck"]
RETAINED = {"heap-summary-retained", "heap-flame-retained", "heap-retained"}   # gen_profile() is by design not available from the Evaluator
KNOWN_TWICE = "before-stmt-twice:module-level-gc-point"
KNOWN_PAREN = "breakpoint-missed:paren-leading-expression-statement"
FUEL = 400
DBG_CHUNK = 150        # configurations per `Eval vm_compute in (dbg_cases ..)` literal
MARK0 = 900000


# ------------------------------------------------------------------------------------------------
# MarkStar: generator, renderers, Python reference (specification oracle)

class MGen:
    def __init__(self, rng, size=14, p_fail=0.25):
        self.rng = rng
        self.budget = size
        self.nvar = 0
        self.funs = []          # list of (params, body)
        self.want_fail = rng.random() < p_fail
        self.failed = False
        self.stats = {}

    def note(self, k):
        self.stats[k] = self.stats.get(k, 0) + 1

    def fresh(self):
        self.nvar += 1
        return self.nvar

    def expr(self, vs, depth=2):
        r = self.rng.random()
        if depth <= 0 or r < 0.35:
            if vs and self.rng.random() < 0.7:
                return ("v", self.rng.choice(vs))
            return ("c", self.rng.choice([0, 1, 2, 3, 5, 7, -1, -4, 10, 100]))
        op = self.rng.choice(["+", "+", "-", "*", "//", "%"])
        a, b = self.expr(vs, depth - 1), self.expr(vs, depth - 1)
        if op in ("//", "%"):
            b = ("+", ("*", b, b), ("c", 1))      # never zero
        return (op, a, b)

    @staticmethod
    def has_var(e):
        return e[0] == "v" or (e[0] not in ("c", "v") and (MGen.has_var(e[1]) or MGen.has_var(e[2])))

    def with_var(self, e, vs):
        """Headers of if/for must not be compile-time constants: the compiler folds such statements away (no statement start)."""
        if vs and not self.has_var(e):
            return ("+", e, ("v", self.rng.choice(vs)))
        return e

    def cond(self, vs):
        return (self.rng.choice(["<", "<=", "==", "!="]), self.with_var(self.expr(vs, 1), vs), self.expr(vs, 1))

    def block(self, vs, n, in_loop, fn, nest, defined):
        """vs: definitely assigned variables (copied); fn: index of the enclosing function or None."""
        vs = list(vs)
        out = []
        for _ in range(n):
            if self.budget <= 0:
                break
            self.budget -= 1
            r = self.rng.random()
            if self.want_fail and not self.failed and vs and self.rng.random() < 0.12:
                self.failed = True
                x = self.rng.choice(vs)
                self.note("planted_failure")
                out.append(("assign", self.fresh(), (self.rng.choice(["//", "%"]), self.expr(vs, 1), ("-", ("v", x), ("v", x)))))
                break
            callable_fs = [j for j in defined if fn is None or j < fn]
            if r < 0.22 or not vs:
                x = self.fresh() if (not vs or self.rng.random() < 0.6) else self.rng.choice(vs)
                e = self.expr(vs)
                if e == ("v", x):
                    e = ("+", e, ("c", 1))       # `x = x` compiles to nothing (no statement start at all)
                out.append(("assign", x, e))
                if x not in vs:
                    vs.append(x)
            elif r < 0.45:
                self.note("marker")
                out.append(("emit", ("v", self.rng.choice(vs))))
            elif r < 0.62 and callable_fs:
                f = self.rng.choice(callable_fs)
                x = self.fresh()
                self.note("call")
                out.append(("call", x, f, [self.expr(vs, 1) for _ in self.funs[f][0]]))
                vs.append(x)
            elif r < 0.76 and nest < 3:
                th = self.block(vs, self.rng.randint(1, 3), in_loop, fn, nest + 1, defined)
                el = self.block(vs, self.rng.randint(1, 2), in_loop, fn, nest + 1, defined) if self.rng.random() < 0.4 else []
                self.note("if")
                out.append(("if", self.cond(vs), th, el))
            elif r < 0.9 and nest < 3:
                x = self.fresh()
                n_e = ("c", self.rng.randint(1, 3)) if (self.rng.random() < 0.6 or not vs) else ("%", self.with_var(self.expr(vs, 1), vs), ("c", 3))
                body = self.block(vs + [x], self.rng.randint(1, 3), True, fn, nest + 1, defined)
                self.note("for")
                out.append(("for", x, n_e, body))
            elif in_loop and self.rng.random() < 0.5:
                self.note("break_continue")
                out.append(("if", self.cond(vs), [(self.rng.choice(["break", "continue"]),)], []))
            elif fn is not None:
                self.note("early_return")
                out.append(("if", self.cond(vs), [("return", self.expr(vs, 1))], []))
            else:
                self.note("marker")
                out.append(("emit", self.expr(vs, 1)))
        if not out:
            out.append(("emit", ("c", 7)))
        return out

    def program(self):
        nf = self.rng.choice([0, 1, 1, 2, 2, 3])
        main = []
        vs = []
        defined = []
        for k in range(nf):
            # a few module-level statements between the defs
            pre = self.block(vs, self.rng.randint(0, 2), False, None, 0, list(defined)) if self.rng.random() < 0.5 else []
            for s in pre:
                main.append(s)
                if s[0] in ("assign", "call") and s[1] not in vs:
                    vs.append(s[1])
            params = [self.fresh() for _ in range(self.rng.randint(1, 2))]
            self.funs.append((params, None))
            saved = self.budget
            self.budget = min(self.budget, 6) + 2
            body = self.block(params, self.rng.randint(1, 4), False, k, 0, list(defined))
            self.budget = saved
            lv = list(params) + [s[1] for s in body if s[0] in ("assign", "call")]
            if not (body and body[-1][0] == "assign" and self.failed and body[-1][2][0] in ("//", "%") and body[-1][2][2][0] == "-"):
                body.append(("return", self.expr(lv, 1)))
            else:
                body.append(("return", ("c", 0)))
            self.funs[k] = (params, body)
            main.append(("def", k))
            defined.append(k)
            self.note("def")
        rest = self.block(vs, 12, False, None, 0, list(defined))
        main += rest
        main.append(("emit", ("c", 424242)))
        return {"funs": self.funs, "main": main}


def m_expr_src(e):
    if e[0] == "c":
        return str(e[1]) if e[1] >= 0 else "(%d)" % e[1]
    if e[0] == "v":
        return "v%d" % e[1]
    return "(%s %s %s)" % (m_expr_src(e[1]), e[0], m_expr_src(e[2]))


COQ_E = {"+": "EAdd", "-": "ESub", "*": "EMul", "//": "EDiv", "%": "EMod"}
COQ_C = {"<": "CLt", "<=": "CLe", "==": "CEq", "!=": "CNe"}


def m_expr_coq(e):
    if e[0] == "c":
        return "(EConst (%d)%%Z)" % e[1]
    if e[0] == "v":
        return "(EVar %d)" % e[1]
    return "(%s %s %s)" % (COQ_E[e[0]], m_expr_coq(e[1]), m_expr_coq(e[2]))


def m_render(p):
    """-> dict(src, coq, markers {line: var or None}, gc_lines set, fun_lines {k: def line}, lines_of: numbered tree)."""
    lines = []
    markers = {}
    gc_lines = set()
    hdr_lines = set()
    coq_funs = {}
    in_def = [0]

    def blk(ss, ind, gc):
        items = []
        for s in ss:
            ln = len(lines) + 1
            pad = "    " * ind
            if gc:
                gc_lines.add(ln)
            k = s[0]
            if k == "assign":
                lines.append("%sv%d = %s" % (pad, s[1], m_expr_src(s[2])))
                items.append("SAssign %d %d %s" % (ln, s[1], m_expr_coq(s[2])))
            elif k == "emit":
                lines.append("%semit(%s)" % (pad, m_expr_src(s[1])))
                markers[ln] = s[1][1] if s[1][0] == "v" else None
                items.append("SEmit %d %s" % (ln, m_expr_coq(s[1])))
            elif k == "call":
                lines.append("%sv%d = f%d(%s)" % (pad, s[1], s[2], ", ".join(m_expr_src(a) for a in s[3])))
                items.append("SCall %d %d %d [%s]" % (ln, s[1], s[2], "; ".join(m_expr_coq(a) for a in s[3])))
            elif k == "if":
                c = s[1]
                if not in_def[0]:
                    hdr_lines.add(ln)
                lines.append("%sif %s %s %s:" % (pad, m_expr_src(c[1]), c[0], m_expr_src(c[2])))
                th = blk(s[2], ind + 1, gc)
                el = ""
                if s[3]:
                    lines.append("%selse:" % pad)
                    el = blk(s[3], ind + 1, gc)
                items.append("SIf %d (%s %s %s) [%s] [%s]" % (ln, COQ_C[c[0]], m_expr_coq(c[1]), m_expr_coq(c[2]), th, el))
            elif k == "for":
                if not in_def[0]:
                    hdr_lines.add(ln)
                lines.append("%sfor v%d in range(%s):" % (pad, s[1], m_expr_src(s[2])))
                body = blk(s[3], ind + 1, False)
                items.append("SFor %d %d %s [%s]" % (ln, s[1], m_expr_coq(s[2]), body))
            elif k == "return":
                lines.append("%sreturn %s" % (pad, m_expr_src(s[1])))
                items.append("SReturn %d %s" % (ln, m_expr_coq(s[1])))
            elif k in ("break", "continue"):
                lines.append(pad + k)
                items.append("%s %d" % ("SBreak" if k == "break" else "SContinue", ln))
            elif k == "def":
                params, body = p["funs"][s[1]]
                lines.append("%sdef f%d(%s):" % (pad, s[1], ", ".join("v%d" % x for x in params)))
                in_def[0] += 1
                b = blk(body, ind + 1, False)
                in_def[0] -= 1
                coq_funs[s[1]] = "{| params := [%s]; body := [%s] |}" % ("; ".join(str(x) for x in params), b)
                items.append("SDef %d %d" % (ln, s[1]))
            else:
                raise ValueError(s)
        return ";\n ".join(items)

    main = blk(p["main"], 0, True)
    coq = "{| funs := [%s];\n main := [%s] |}" % (";\n ".join(coq_funs[k] for k in sorted(coq_funs)), main)
    return {"src": "\n".join(lines) + "\n", "coq": coq, "markers": markers, "gc_lines": gc_lines, "hdr_lines": hdr_lines}


def gen_markstar(seed, size=14, p_fail=0.25):
    g = MGen(random.Random(seed), size=size, p_fail=p_fail)
    p = g.program()
    r = m_render(p)
    r.update({"id": "m%d" % seed, "kind": "markstar", "prog": p, "stats": g.stats, "marker_ids": None})
    r["ref"] = py_exec(p)
    return r


# ---- programs from tools/gen/progs.py with emit statements turned into self-counting markers

def mark_emits(prog, counter):
    out = []
    for s in prog:
        k = s[0]
        if k == "expr" and s[1][0] == "call" and s[1][1] == ("var", "emit") and len(s[1][2]) == 1:
            counter[0] += 1
            out.append(("expr", ("call", ("var", "emit"), [("tuple", [("int", MARK0 + counter[0]), s[1][2][0]])], [], None, None)))
        elif k == "if":
            out.append(("if", s[1], mark_emits(s[2], counter), mark_emits(s[3], counter)))
        elif k == "for":
            out.append(("for", s[1], s[2], mark_emits(s[3], counter)))
        elif k == "def":
            out.append(("def", s[1], s[2], mark_emits(s[3], counter)))
        else:
            out.append(s)
    return out


MARK_RE = re.compile(r"^(\s*)emit\(\((9\d{5}), (.*)\)\)\s*$")
NAME_RE = re.compile(r"^[A-Za-z_]\w*$")


def source_structure(src):
    """markers {line: (id, var or None)}, gc-eligible lines (module-level statements not inside for/def), from the text
    (one statement per line, 4-space indentation)."""
    markers, gc = {}, set()
    stack = []     # (indent, opener kind)
    for i, raw in enumerate(src.split("\n"), 1):
        if not raw.strip():
            continue
        ind = (len(raw) - len(raw.lstrip(" "))) // 4
        while stack and stack[-1][0] >= ind:
            stack.pop()
        txt = raw.strip()
        kind = txt.split("(")[0].split(" ")[0].rstrip(":")
        eligible = all(k in ("if", "else", "elif") for _, k in stack)
        if eligible and kind not in ("else", "elif"):
            gc.add(i)
        if txt.endswith(":") and kind in ("if", "else", "elif", "for", "def"):
            stack.append((ind, kind))
        m = MARK_RE.match(raw)
        if m:
            e = m.group(3)
            markers[i] = (int(m.group(2)), e if NAME_RE.match(e) and e not in ("True", "False", "None") else None)
    return markers, gc


def gen_rich(seed, **kw):
    g = progs.generate(seed, **kw)
    prog = mark_emits(g["prog"], [0])
    if seed % 3 == 0:
        prog = progs.wrap_in_function(prog)
    src, _ = progs.source_of(prog)
    markers, gc = source_structure(src)
    return {"id": "r%d" % seed, "kind": "rich", "src": src, "coq": None, "markers": {l: v for l, (_, v) in markers.items()},
            "marker_ids": {mid: l for l, (mid, _) in markers.items()}, "gc_lines": gc, "stats": g["stats"]}


def corpus_programs():
    d = os.path.join(sv.ROOT, "corpus", "C18")
    out = []
    if os.path.isdir(d):
        for f in sorted(os.listdir(d)):
            if f.endswith(".star"):
                src = open(os.path.join(d, f)).read()
                markers, gc = source_structure(src)
                out.append({"id": "corpus:" + f, "kind": "rich", "src": src, "coq": None,
                            "markers": {l: v for l, (_, v) in markers.items()},
                            "marker_ids": {mid: l for l, (mid, _) in markers.items()}, "gc_lines": gc, "stats": {}})
    return out


# ------------------------------------------------------------------------------------------------
# specification oracle (Python): the adapter's decision function

def py_stops(bps, script, events):
    """events: [(line, depth)]; script: list of 'continue'|'into'|'over'|'out' (last repeats) -> list of (line, depth).
    bps: collection of lines, or a predicate (line, k) -> bool where k counts the earlier events of that line (conditional
    breakpoints: the condition is evaluated at every start event of the line).
    Semantics (DapAdapterEvalHookImpl::call): a stop of ANY cause consumes the pending step request; the command given at the
    stop installs the new one (continue: none)."""
    step = None
    n = 0
    out = []
    pred = bps if callable(bps) else None
    B = set() if pred else set(bps)
    occ = {}
    for (l, d) in events:
        k = occ.get(l, 0)
        occ[l] = k + 1
        stop = pred(l, k) if pred else l in B
        if step is not None:
            kd, saved = step
            stop = stop or kd == "into" or (kd == "over" and d <= saved) or (kd == "out" and d < saved)
        if stop:
            out.append((l, d))
            cmd = script[min(n, len(script) - 1)] if script else "continue"
            step = None if cmd == "continue" else (cmd, d)
            n += 1
    return out


COQ_CMD = {"continue": "Continue", "into": "Step Into", "over": "Step Over", "out": "Step Out"}


def parse_enc(s):
    """Harness structural encoding -> python value (ints, strings, bool, None, lists, tuples, dicts); ('other', text) otherwise."""
    pos = [0]

    def val():
        c = s[pos[0]]
        if s.startswith("None", pos[0]):
            pos[0] += 4
            return None
        if s.startswith("True", pos[0]):
            pos[0] += 4
            return True
        if s.startswith("False", pos[0]):
            pos[0] += 5
            return False
        if c == "i":
            m = re.match(r"i(-?\d+)", s[pos[0]:])
            pos[0] += m.end()
            return int(m.group(1))
        if c == '"':
            v, end = json.JSONDecoder().raw_decode(s, pos[0])
            pos[0] = end
            return v
        if c in "[({":
            close = {"[": "]", "(": ")", "{": "}"}[c]
            pos[0] += 1
            items = []
            while s[pos[0]] != close:
                v = val()
                if c == "{":
                    assert s[pos[0]] == ":"
                    pos[0] += 1
                    v = (v, val())
                items.append(v)
                if s[pos[0]] == ",":
                    pos[0] += 1
            pos[0] += 1
            return {"[": list, "(": tuple, "{": lambda x: ("dict", x)}[c](items)
        raise ValueError(s[pos[0]:pos[0] + 20])

    try:
        v = val()
        return v
    except Exception:  # noqa: BLE001
        return ("other", s)


def dap_summary(v):
    """What DapAdapter::variables shows for a value: (value text, type) or None when not predictable here."""
    if v is None:
        return ("None", "NoneType")
    if v is True or v is False:
        return (str(v), "bool")
    if isinstance(v, int):
        return (str(v), "int")
    if isinstance(v, str):
        return (v, "string")
    if isinstance(v, list):
        return ("<list, size=%d>" % len(v) if v else "[]", "list")
    if isinstance(v, tuple) and len(v) == 2 and v[0] == "dict" and isinstance(v[1], list):
        return ("<dict, size=%d>" % len(v[1]) if v[1] else "{}", "dict")
    if isinstance(v, tuple) and not (len(v) == 2 and v[0] == "other"):
        return ("<tuple, size=%d>" % len(v) if v else "()", "tuple")
    return None


# ------------------------------------------------------------------------------------------------
# configurations

def dap_configs(rng, prog):
    """The debugger configurations of one program; breakpoints only on marker lines (or the first statement for stepping)."""
    marks = sorted(prog["markers"])
    sub = [l for l in marks if rng.random() < 0.5] or marks[:1]
    sub2 = [l for l in marks if rng.random() < 0.4] or marks[-1:]
    script = [rng.choice(["continue", "into", "over", "out", "over", "into"]) for _ in range(rng.randint(2, 7))]
    names = sorted({v for v in prog["markers"].values() if v})[:3]
    first = "first"   # replaced by the line of the first real event
    return [
        {"name": "record-only", "adapter": False, "bps": [], "policy": []},
        {"name": "attached", "bps": [], "policy": ["continue"]},
        {"name": "bp-all", "bps": marks, "policy": ["continue"]},
        {"name": "bp-subset-eval", "bps": sub, "policy": ["continue"], "evals": names + ["1 + 1"]},
        {"name": "step-into", "bps": first, "policy": ["into"]},
        {"name": "step-over", "bps": first, "policy": ["over"]},
        {"name": "step-out", "bps": marks, "policy": ["out"]},
        {"name": "script", "bps": sub2, "policy": script},
        # conditional breakpoints with constant conditions: never stop / stop like unconditional ones; the run is unchanged
        {"name": "cond-false-all", "bps": marks, "policy": ["continue"], "conds": {str(l): rng.choice(["False", "1 == 2", "not True"]) for l in marks},
         "effective": []},
        {"name": "cond-true-subset", "bps": sub, "policy": ["continue"], "conds": {str(l): rng.choice(["True", "1 == 1"]) for l in sub},
         "effective": sub},
    ]


KEY_TOP_NONE = "top-frame:name-always-none"


def top_frame_failure(s):
    """At a stop inside a def (the stack trace has a function frame above "Root") DapAdapter::top_frame() must name that def:
    the name of the innermost stack_trace() frame.  -> None | (key, text)."""
    fr = s.get("frames")
    if not fr or len(fr) < 2 or "name" not in s:
        return None
    inner = fr[0][0]
    if s["name"] == inner:
        return None
    key = KEY_TOP_NONE if s["name"] == "None" else "top-frame:wrong-name"
    return key, "at the stop on line %s inside def %s (stack %s) top_frame() names the frame %r instead of %r" % (
        s.get("line"), inner, [f[0] for f in fr], s["name"], inner)


def norm_out(o):
    """Outcome of a run, comparable across configurations (the call stack text in `full` is kept: it must not change either)."""
    if o is None:
        return None
    if "ok" in o:
        return ("ok", o["ok"])
    e = o.get("err", {})
    sp = e.get("span") or {}
    return ("err", e.get("kind"), e.get("msg"), sp.get("bl"), sp.get("bc"), sp.get("el"), sp.get("ec"))


def run_eval_configs(ctx, programs):
    cases = []
    for p in programs:
        cases.append({"src": p["src"], "opts": {}})
        for m in PROFILES:
            cases.append({"src": p["src"], "opts": {"profile": m}})
        cases.append({"src": p["src"], "opts": {"stmt_hook": True}})
    rc, log, res = sv.run_harness_sharded(ctx, "eval", cases, timeout=900)
    per = 2 + len(PROFILES)
    return [res[i * per:(i + 1) * per] for i in range(len(programs))], rc, log


def run_dap(ctx, cases, tag="dap"):
    """Sessions that made no progress are repeated once, one at a time and with a two-minute allowance, before they count as
    a hang: on an overloaded machine the evaluation thread of a parallel shard may simply not get scheduled."""
    for c in cases:
        c.setdefault("timeout_ms", 30000)
    rc, log, res = sv.run_harness_sharded(ctx, "dap", cases, timeout=1500)
    again = [i for i, r in enumerate(res) if r is None or r.get("hang") or r.get("lost")]
    if again:
        ctx.log("repeating %d debugger session(s) that made no progress, serially" % len(again))
        rc2, log2, res2 = sv.run_harness(ctx, "dap", [dict(cases[i], timeout_ms=120000) for i in again], tag=tag + "_retry", timeout=1500)
        for i, r in zip(again, res2):
            res[i] = r
        if rc != 0 and rc2 == 0 and all(r is not None for r in res):
            rc = 0
    return res, rc, log


NESTED_OFF = 2000    # generated programs have far fewer lines; kept small because the Coq side reads lines as nat


def nested_keys(r):
    """(line, begin column) of the before_stmt events whose span is NOT the outermost span that begins on that line.
    `resolve_breakpoints` maps a line to a statement of the AST; the implicit `return` of a lambda written inside that statement
    also fires before_stmt (with the span of the lambda's body, on the same line, deeper in the call stack) but is no statement of
    the AST: a breakpoint on the line denotes the statement, not the lambda body.  Such events keep their place in the trace
    (stepping sees them) under the line number line + NESTED_OFF, which no breakpoint names; stops are renamed the same way."""
    by = {}
    for e in r.get("events", []):
        by.setdefault(e[0], set()).add((e[1], e[4], e[5]))
    out = set()
    for l, spans in by.items():
        if len(spans) > 1:
            outer = min(spans, key=lambda x: (x[0], -x[1], -x[2]))
            out |= {(l, x[0]) for x in spans if x != outer}
    return out


def real_events(r):
    """non-continued events as (line, depth) with depth = call_stack_count - 1 (the module frame counts as 1); events of a
    nested span (see nested_keys) are renamed to line + NESTED_OFF."""
    nk = nested_keys(r)
    return [((e[0] + NESTED_OFF) if (e[0], e[1]) in nk else e[0], e[3] - 1) for e in r.get("events", []) if not e[2]]


def stop_line(s, nk):
    """line of an adapter stop, renamed like the event it stopped at (top_frame columns are 1-based, event columns 0-based)."""
    l = s.get("line")
    if l is not None and s.get("col") is not None and (l, s["col"] - 1) in nk:
        return l + NESTED_OFF
    return l


def dedupe_gc(events, gc_lines):
    """Remove the second of two adjacent identical module-level events of a gc-eligible statement (such a statement runs at
    most once per module evaluation, so a repetition cannot be a genuine second execution)."""
    out, dropped = [], 0
    seen = set()
    for ev in events:
        if ev[1] == 0 and ev[0] in gc_lines:
            if out and out[-1] == ev and ev in seen:
                dropped += 1
                continue
            seen.add(ev)
        out.append(ev)
    return out, dropped


def run_model(ctx, programs, dbg_jobs):
    """programs: MarkStar programs (Coq terms) -> run_case; dbg_jobs: list of (events, [(bps, script)]) -> dbg_cases."""
    nshard = sv.NPROC
    head = ("From Coq Require Import ZArith NArith List.\nFrom SV Require Import Debug.Model Debug.Cases.\nImport ListNotations.\n")
    items = [("P", "Eval vm_compute in (run_case %d %s)." % (FUEL, p["coq"])) for p in programs]
    chunks = []     # (job index, number of configurations) per emitted D item
    for j, (evs, cfgs) in enumerate(dbg_jobs):
        tr = "[%s]" % "; ".join("(%d, %d)" % e for e in evs)
        for c0 in range(0, max(1, len(cfgs)), DBG_CHUNK):
            part = cfgs[c0:c0 + DBG_CHUNK]
            cf = "[%s]" % "; ".join("([%s], [%s])" % ("; ".join(str(b) for b in bps), "; ".join(COQ_CMD[c] for c in (sc or ["continue"])))
                                   for bps, sc in part)
            items.append(("D", "Eval vm_compute in (dbg_cases %s %s)." % (cf, tr)))
            chunks.append((j, len(part)))
    files = []
    for s in range(nshard):
        part = items[s::nshard]
        if part:
            files.append(("c18_%d" % s, head + "\n".join(t for _, t in part) + "\n"))
    outs = sv.coq_eval_files(ctx, files, timeout=600)
    res = [None] * len(items)
    log = ""
    for s, (rc, out) in enumerate(outs):
        out = re.sub(r"%(Z|N|nat)\b", "", out)
        try:
            vals = sv.coq_values(out)
        except Exception as e:  # noqa: BLE001
            vals = []
            log += "parse error %s " % e
        n = len(items[s::nshard])
        if rc != 0 or len(vals) != n:
            log += out[-400:]
        for j, v in enumerate(vals[:n]):
            res[s + j * nshard] = v
    dres = [[] for _ in dbg_jobs]
    for (j, n), v in zip(chunks, res[len(programs):]):
        if v is None or dres[j] is None or len(v) != n:
            dres[j] = None
        else:
            dres[j] += v
    return res[:len(programs)], dres, log


def model_result(v):
    """parsed run_case value -> (transcript ints, completion, trace)."""
    tr, comp, trace, ok = v
    code, line = comp
    completion = {0: ("done",), 1: ("failed", line), 2: ("nofuel",)}[code]
    return [int(x) for x in tr], completion, [tuple(e) for e in trace], ok == "true"


# ------------------------------------------------------------------------------------------------
# the comparison

def check_programs(ctx, programs, want_model=True, extra_dbg=None):
    """extra_dbg: decision-function jobs of the other families, evaluated in the same coqc batch:
    list of (events, [(bps, script)], callback(list of model stop lists or None, log))."""
    failures = []
    extra_dbg = extra_dbg or []
    st = {"programs": len(programs), "eval_runs": 0, "dap_runs": 0, "stops": 0, "events": 0, "vars_compared": 0, "vars_not_shown": 0,
          "decision_cases": 0, "model_traces": 0, "twice_programs": 0, "failing_programs": 0, "evals": 0, "top_frame_name_none": 0, "top_frames_checked": 0,
          "marker_executions": 0, "configs": {}}
    rng = ctx.rng

    def fail(key, what, replay):
        failures.append({"key": key, "what": what, "replay": replay})

    # ---- (1) profilers and the statement hook
    ev, rc, log = run_eval_configs(ctx, programs)
    ctx.log("evaluator configurations done (%d programs x %d)" % (len(programs), 2 + len(PROFILES)))
    if rc != 0:
        fail("harness-crash:eval", "eval harness exited with %s: %s" % (rc, log[-300:]), {"rc": rc})
    base = []
    for p, rs in zip(programs, ev):
        b = rs[0]
        if b is None or "panic" in b or not b.get("steps"):
            fail("impl-crash:uninstrumented", "the uninstrumented run of %s crashed: %s" % (p["id"], str(b)[:300]), {"src": p["src"], "impl": b})
            base.append(None)
            continue
        b0 = (b["steps"][0]["tr"], norm_out(b["steps"][0]["out"]))
        base.append(b0)
        if b0[1][0] == "err":
            st["failing_programs"] += 1
        for name, r in zip(PROFILES + ["stmt-hook"], rs[1:]):
            st["eval_runs"] += 1
            cfg = ("profile=" + name) if name != "stmt-hook" else "stmt-hook"
            if r is None or "panic" in r or not r.get("steps"):
                fail("impl-crash:" + cfg, "%s crashed under %s: %s" % (p["id"], cfg, str(r)[:300]), {"src": p["src"], "config": cfg, "impl": r})
                continue
            got = (r["steps"][0]["tr"], norm_out(r["steps"][0]["out"]))
            if got != b0:
                k = 0
                while k < min(len(got[0]), len(b0[0])) and got[0][k] == b0[0][k]:
                    k += 1
                fail("outcome-differs:" + cfg,
                     "%s: under %s the program behaves differently: transcript equal for %d items, then %s vs uninstrumented %s; outcome %s vs %s"
                     % (p["id"], cfg, k, got[0][k:k + 1], b0[0][k:k + 1], got[1], b0[1]),
                     {"src": p["src"], "config": cfg, "instrumented": got, "uninstrumented": b0})
            if name != "stmt-hook" and name not in RETAINED and r.get("profile_ok") is not True:
                fail("profile-gen-failed:" + name, "%s: gen_profile under %s did not produce data (%s)" % (p["id"], name, r.get("profile_ok")),
                     {"src": p["src"], "config": cfg})
    # ---- (2),(3) the debug adapter
    cases, index = [], []
    for i, p in enumerate(programs):
        for c in dap_configs(rng, p):
            cases.append((i, c))
    # first pass: record-only runs give the first statement line needed by the stepping configurations
    rec_cases = [{"src": programs[i]["src"], "adapter": False, "bps": [], "policy": []} for i in range(len(programs))]
    rec, rc, log = run_dap(ctx, rec_cases, "rec")
    if rc != 0:
        fail("harness-crash:dap", "dap harness exited with %s: %s" % (rc, log[-300:]), {"rc": rc})
    jobs, meta = [], []
    for i, c in cases:
        if c["name"] == "record-only":
            continue
        r0 = rec[i] or {}
        evs = real_events(r0)
        bps = c["bps"]
        if bps == "first":
            bps = [evs[0][0]] if evs else []
        job = {"src": programs[i]["src"], "bps": bps, "policy": c["policy"], "evals": c.get("evals", []),
               "vars": c["policy"] == ["continue"] or c["name"] == "script"}
        if "conds" in c:
            job["conds"] = c["conds"]
            bps = c["effective"]       # constant conditions: the breakpoints that can stop
        jobs.append(job)
        meta.append((i, c["name"], bps, c["policy"]))
    res, rc, log = run_dap(ctx, jobs, "cfg")
    ctx.log("debugger sessions done (%d)" % len(jobs))
    if rc != 0:
        fail("harness-crash:dap", "dap harness exited with %s: %s" % (rc, log[-300:]), {"rc": rc})
    dbg_jobs, dbg_meta = [], []
    by_prog = {}
    for (i, name, bps, pol), job, r in zip(meta, jobs, res):
        by_prog.setdefault(i, []).append((name, bps, pol, job, r))
    for i, p in enumerate(programs):
        r0 = rec[i]
        b0 = base[i]
        if b0 is None:
            continue
        if r0 is None or "panic" in r0 or r0.get("hang"):
            fail("impl-crash:record-only", "%s: run with only the recording hook: %s" % (p["id"], str(r0)[:200]), {"src": p["src"], "impl": r0})
            continue
        st["dap_runs"] += 1
        got0 = (r0.get("tr"), norm_out(r0.get("out")))
        if got0 != b0:
            fail("outcome-differs:stmt-hook", "%s: with a recording before_stmt hook the program behaves differently: %s vs %s"
                 % (p["id"], str(got0)[:300], str(b0)[:300]), {"src": p["src"], "config": "record-only", "instrumented": got0, "uninstrumented": b0})
        evs0 = real_events(r0)
        st["events"] += len(evs0)
        # the statement hook of the eval harness saw the same statement starts (cross-check of the two harness bins)
        hook_lines = (ev[i][-1] or {}).get("stmt_lines")
        if hook_lines is not None and len(hook_lines) < 4096 and [l + 1 for l in hook_lines] != [e[0] for e in r0["events"]]:
            fail("trace-differs-across-configs:eval-vs-dap-recorder", "%s: the before_stmt line sequences recorded by two hooks differ" % p["id"],
                 {"src": p["src"], "eval_hook": hook_lines[:50], "dap_recorder": [e[0] for e in r0["events"]][:50]})
        cfgs_for_coq = []
        for name, bps, pol, job, r in by_prog.get(i, []):
            st["dap_runs"] += 1
            st["configs"][name] = st["configs"].get(name, 0) + 1
            rep = {"src": p["src"], "config": name, "bps": job["bps"], "policy": pol, "evals": job["evals"], "conds": job.get("conds", {})}
            if r is None or "panic" in r or r.get("lost"):
                fail("impl-crash:dap-" + name, "%s: debugger session %s crashed: %s" % (p["id"], name, str(r)[:300]), dict(rep, impl=r))
                continue
            if r.get("hang"):
                fail("hang:dap-" + name, "%s: debugger session %s made no progress for two minutes after %d stops, also when repeated alone (deadlock)" % (p["id"], name, len(r.get("stops", []))),
                     dict(rep, stops=r.get("stops", [])[-5:]))
                continue
            got = (r.get("tr"), norm_out(r.get("out")))
            if got != b0 and (job.get("conds") or job.get("evals")) and unassigned_local_takes_global(p["src"], got, b0):
                # the listed defect of Evaluator::eval_statements, reached by a generated program: evaluating a breakpoint condition
                # inside a function gives a not-yet-assigned local the value of the module global of the same name
                fail("debugger-eval-interference:unassigned-local-takes-global-value",
                     "%s: under the debugger (%s) the plain run's failure `%s` does not happen: the condition evaluation inside the function "
                     "(or an evaluate request) gave the unassigned local the module global's value" % (p["id"], name, b0[1][2]), dict(rep, instrumented=got, uninstrumented=b0))
                continue
            if got != b0:
                fail("outcome-differs:dap-" + name, "%s: under the debugger (%s, breakpoints %s) the program behaves differently: %s vs uninstrumented %s"
                     % (p["id"], name, bps, str(got)[:300], str(b0)[:300]), dict(rep, instrumented=got, uninstrumented=b0))
            if r.get("events") != r0.get("events"):
                fail("trace-differs-across-configs:dap-" + name, "%s: the before_stmt event sequence under %s differs from the one without the adapter "
                     "(%d vs %d events)" % (p["id"], name, len(r.get("events", [])), len(r0.get("events", []))), rep)
            if job["bps"] and not all(r.get("verified", [])):
                fail("breakpoint-unverified", "%s: a breakpoint on a statement line was not resolved: %s %s" % (p["id"], bps, r.get("verified")), rep)
            stops = [s for s in r.get("stops", []) if "i" in s]
            resume_err = [s for s in r.get("stops", []) if "resume_error" in s]
            if resume_err:
                fail("adapter-error:resume", "%s: continue/step failed: %s" % (p["id"], resume_err[0]), rep)
            st["stops"] += len(stops)
            nk0 = nested_keys(r0)
            got_stops = [(stop_line(s, nk0), (len(s["frames"]) - 1) if "frames" in s else None) for s in stops]
            want = py_stops(bps, pol, evs0)
            if r.get("capped"):
                want = want[:len(got_stops)]
            src_lines = p["src"].split("\n")
            paren = [l for l in bps if 0 < l <= len(src_lines) and src_lines[l - 1].lstrip().startswith("(")]
            if paren and [g[0] for g in got_stops] != [w[0] for w in want] and \
                    [g[0] for g in got_stops] == [w[0] for w in py_stops([l for l in bps if l not in paren], pol, evs0)]:
                fail(KNOWN_PAREN, "%s (%s): the verified breakpoint on line %s never stops: the statement is an expression statement starting "
                     "with '(' - resolve_breakpoints uses the statement span (from the parenthesis) but before_stmt reports the expression's "
                     "span (inside the parenthesis)" % (p["id"], name, paren), dict(rep, line=paren))
                want = py_stops([l for l in bps if l not in paren], pol, evs0)
                bps = [l for l in bps if l not in paren]
            if [g[0] for g in got_stops] != [w[0] for w in want] or any(g[1] is not None and g[1] != w[1] for g, w in zip(got_stops, want)):
                k = 0
                while k < min(len(got_stops), len(want)) and got_stops[k][0] == want[k][0]:
                    k += 1
                fail("stops-differ-from-decision-function:" + ("breakpoints" if pol == ["continue"] else "/".join(sorted(set(pol)))),
                     "%s (%s): the adapter's stops differ from the decision function applied to the real event trace: first %d equal, then impl %s vs "
                     "expected %s (breakpoints %s, commands %s)" % (p["id"], name, k, got_stops[k:k + 3], want[k:k + 3], bps, pol),
                     dict(rep, impl_stops=got_stops[:60], spec_stops=want[:60], events=evs0[:200]))
            cfgs_for_coq.append((bps, pol, name, got_stops))
            tf_reported = False
            for s in stops:
                tf = top_frame_failure(s)
                st["top_frames_checked"] += 1 if len(s.get("frames") or []) >= 2 else 0
                if tf and not tf_reported:
                    tf_reported = True
                    if tf[0] == KEY_TOP_NONE:
                        st["top_frame_name_none"] += 1
                    fail(tf[0], "%s (%s): %s" % (p["id"], name, tf[1]), dict(rep, stop=s))
                for e in s.get("evals", []):
                    st["evals"] += 1
                if s.get("top_frame_error") or s.get("vars_error") or s.get("stack_error"):
                    fail("adapter-error:inspect", "%s: inspection at a stop failed: %s" % (p["id"], {k: v for k, v in s.items() if k.endswith("error")}), rep)
                    break
            # ---- breakpoints continuing: exactly once per execution, with the program's own values
            if pol == ["continue"] and not r.get("capped"):
                check_marker_stops(p, name, bps, stops, b0, rep, fail, st)
        if cfgs_for_coq and len(evs0) <= ctx.n(400, 1500):
            dbg_jobs.append((evs0, [(b, pl) for b, pl, _, _ in cfgs_for_coq]))
            dbg_meta.append((i, cfgs_for_coq))
    # ---- the Coq model: traces of MarkStar programs, decision function on the real traces
    mprogs = [(i, p) for i, p in enumerate(programs) if p.get("coq") and base[i] is not None and rec[i] is not None
              and not rec[i].get("hang") and "panic" not in rec[i]] if want_model else []
    mres, dres, mlog = run_model(ctx, [p for _, p in mprogs], dbg_jobs + [(e, c) for e, c, _ in extra_dbg])
    ctx.log("Coq model evaluated (%d programs, %d decision jobs, %d configurations)"
            % (len(mprogs), len(dbg_jobs) + len(extra_dbg), sum(len(c) for _, c in dbg_jobs) + sum(len(c) for _, c, _ in extra_dbg)))
    for (_, _, cb), v in zip(extra_dbg, dres[len(dbg_jobs):]):
        cb(v, mlog)
    for (i, p), v in zip(mprogs, mres):
        if v is None:
            fail("model-run-failed", "the Coq model could not be evaluated for %s: %s" % (p["id"], mlog[-300:]), {"src": p["src"], "coq": p["coq"]})
            continue
        mtr, mcomp, mtrace, selfok = model_result(v)
        if mcomp[0] == "nofuel":
            continue
        st["model_traces"] += 1
        b0 = base[i]
        itr = [parse_enc(x) for x in b0[0]]
        icomp = ("done",) if b0[1][0] == "ok" else ("failed", (b0[1][3] or 0) + 1)
        rep = {"src": p["src"], "coq": p["coq"], "model": {"transcript": mtr, "completion": mcomp, "trace": mtrace[:200]}}
        if p.get("ref") and (p["ref"][0], p["ref"][1], p["ref"][2]) != (mtr, mcomp, mtrace):  # (full traces, before header filtering)
            fail("model-vs-spec:markstar", "%s: the Coq model and the Python reference run of the same MarkStar program differ" % p["id"],
                 dict(rep, python={"transcript": p["ref"][0], "completion": p["ref"][1], "trace": p["ref"][2][:200]}))
        if not selfok:
            fail("model-self-check", "%s: the model's plain / instrumented runs disagree (contradicts the theorems)" % p["id"], rep)
        if itr != mtr or icomp != mcomp:
            fail("model-vs-impl:" + ("transcript" if itr != mtr else "outcome"),
                 "%s: implementation and model differ: transcript %s vs %s, completion %s vs %s" % (p["id"], itr[:20], mtr[:20], icomp, mcomp),
                 dict(rep, impl={"transcript": itr, "completion": icomp}))
        # headers of module-level if/for statements are excluded from the comparison: the compiler folds them away when
        # the condition is statically known (module variables assigned once are inlined as constants)
        hdr = p.get("hdr_lines", set())
        evs0 = [e for e in real_events(rec[i]) if not (e[1] == 0 and e[0] in hdr)]
        mtrace = [e for e in mtrace if not (e[1] == 0 and e[0] in hdr)]
        if evs0 != mtrace:
            dd, dropped = dedupe_gc(evs0, p["gc_lines"])
            if dd == mtrace and dropped:
                st["twice_programs"] += 1
                fail(KNOWN_TWICE, "%s: %d module-level statement(s) start twice (before_stmt fires for the PossibleGc instruction and again for the "
                     "statement itself); apart from that the real trace equals the model's" % (p["id"], dropped),
                     dict(rep, impl_events=evs0[:200]))
            else:
                k = 0
                while k < min(len(dd), len(mtrace)) and dd[k] == mtrace[k]:
                    k += 1
                fail("trace-vs-model:differs", "%s: the real before_stmt trace differs from the model's trace (after removing module-level "
                     "duplicates): first %d events equal, then impl %s vs model %s" % (p["id"], k, dd[k:k + 4], mtrace[k:k + 4]),
                     dict(rep, impl_events=evs0[:300]))
    for (i, cfgs), v in zip(dbg_meta, dres):
        p = programs[i]
        if v is None:
            fail("model-run-failed", "the Coq decision function could not be evaluated for %s: %s" % (p["id"], mlog[-300:]), {"src": p["src"]})
            continue
        for (bps, pol, name, got_stops), mv in zip(cfgs, v):
            st["decision_cases"] += 1
            ms = [tuple(e) for e in mv]
            ps = py_stops(bps, pol, real_events(rec[i]))
            if ms != ps:
                fail("model-vs-spec:decision-function", "%s: Coq run_dbg and the Python oracle disagree on (%s, %s)" % (p["id"], bps, pol),
                     {"src": p["src"], "bps": bps, "policy": pol, "coq": ms[:50], "python": ps[:50]})
            if [g[0] for g in got_stops] != [m[0] for m in ms][:len(got_stops)] or (len(got_stops) != len(ms) and len(got_stops) < 3000):
                # already reported against the oracle above unless oracle and model differ
                if ms != ps:
                    fail("stops-differ-from-decision-function:model", "%s (%s): adapter stops differ from the Coq decision function" % (p["id"], name),
                         {"src": p["src"], "bps": bps, "policy": pol, "impl_stops": got_stops[:60], "model_stops": ms[:60]})
    return failures, st


def unassigned_local_takes_global(src, got, b0):
    """Narrow recogniser of the known finding `debugger-eval-interference:unassigned-local-takes-global-value`: the uninstrumented
    run fails with `Local variable `X` referenced before assignment`, X is also assigned at module level (column 0), and the
    run under the debugger reproduces the uninstrumented transcript and then goes on past that failure."""
    out0 = b0[1]
    if not (isinstance(out0, (tuple, list)) and len(out0) >= 3 and out0[0] == "err"):
        return False
    m = re.match(r"Local variable `(\w+)` referenced before assignment", str(out0[2]))
    if not m:
        return False
    x = m.group(1)
    if not re.search(r"^(?:%s\s*(?:[-+*/%%|&^]|//|<<|>>)?=[^=]|for %s in |def %s\()" % (x, x, x), src, re.M):
        return False
    tr0, tr1 = list(b0[0] or []), list(got[0] or [])
    return tr1[:len(tr0)] == tr0 and (len(tr1) > len(tr0) or got[1] != out0)


def check_marker_stops(p, name, bps, stops, b0, rep, fail, st):
    """Stops per breakpoint line vs executions counted by the program itself; variables at the stop vs the emitted value."""
    tr = [parse_enc(x) for x in b0[0]]
    execs = {}     # line -> list of emitted values, in order
    if p["kind"] == "rich":
        for item in tr:
            if isinstance(item, tuple) and len(item) == 2 and isinstance(item[0], int) and item[0] in p["marker_ids"]:
                execs.setdefault(p["marker_ids"][item[0]], []).append(item[1])
    else:
        # MarkStar: markers emit plain ints; attribute them through the order of marker stops is circular, so use the event trace
        return check_markstar_stops(p, name, bps, stops, tr, rep, fail, st)
    fail_line = (b0[1][3] + 1) if b0[1][0] == "err" and b0[1][3] is not None else None
    per_line = {}
    for s in stops:
        per_line.setdefault(s.get("line"), []).append(s)
    for l in bps:
        want = len(execs.get(l, []))
        got = len(per_line.get(l, []))
        st["marker_executions"] += want
        if l == fail_line:
            continue
        twice = l in p["gc_lines"] and got == 2 * want and want > 0
        if got != want:
            if twice:
                fail(KNOWN_TWICE, "%s: breakpoint on module-level line %d stops twice for one execution (before_stmt fires for the PossibleGc "
                     "instruction and again for the statement itself)" % (p["id"], l), dict(rep, line=l, stops=got, executions=want))
            else:
                fail("stop-count:" + ("missed" if got < want else "extra"),
                     "%s (%s): breakpoint on line %d stopped %d times but the statement executed %d times (counted by the program)"
                     % (p["id"], name, l, got, want), dict(rep, line=l, stops=got, executions=want))
                continue
        var = p["markers"].get(l)
        if not var:
            continue
        for k, s in enumerate(per_line.get(l, [])):
            val = execs[l][k // 2 if twice else k]
            compare_var(p, s, var, val, rep, fail, st, strict=False)


def m_number(p):
    """Line numbers exactly as m_render assigns them: -> (numbered main, {k: numbered body})."""
    ln = [0]
    fbodies = {}

    def blk(ss):
        out = []
        for s in ss:
            ln[0] += 1
            me = ln[0]
            k = s[0]
            if k == "if":
                th = blk(s[2])
                el = []
                if s[3]:
                    ln[0] += 1
                    el = blk(s[3])
                out.append((me, s, th, el))
            elif k == "for":
                out.append((me, s, blk(s[3]), None))
            elif k == "def":
                fbodies[s[1]] = blk(p["funs"][s[1]][1])
                out.append((me, s, None, None))
            else:
                out.append((me, s, None, None))
        return out

    return blk(p["main"]), fbodies


class MFail(Exception):
    pass


def py_exec(p):
    """Reference run of a MarkStar program: transcript, completion, trace [(line, depth)], marker executions {line: [values]}."""
    main, fb = m_number(p)
    tr, trace, execs = [], [], {}

    def ev(e, en, ln):
        if e[0] == "c":
            return e[1]
        if e[0] == "v":
            if e[1] not in en:
                raise MFail(ln)
            return en[e[1]]
        a, b = ev(e[1], en, ln), ev(e[2], en, ln)
        if e[0] == "+":
            return a + b
        if e[0] == "-":
            return a - b
        if e[0] == "*":
            return a * b
        if b == 0:
            raise MFail(ln)
        return a // b if e[0] == "//" else a % b

    def cond(c, en, ln):
        a, b = ev(c[1], en, ln), ev(c[2], en, ln)
        return {"<": a < b, "<=": a <= b, "==": a == b, "!=": a != b}[c[0]]

    def block(ns, en, d):
        for (ln, s, x1, x2) in ns:
            trace.append((ln, d))
            k = s[0]
            if k == "assign":
                en[s[1]] = ev(s[2], en, ln)
            elif k == "emit":
                v = ev(s[1], en, ln)
                tr.append(v)
                execs.setdefault(ln, []).append(v)
            elif k == "call":
                vs = [ev(a, en, ln) for a in s[3]]
                params = p["funs"][s[2]][0]
                r = block(fb[s[2]], dict(zip(params, vs)), d + 1)
                en[s[1]] = r[1] if r and r[0] == "ret" else 0
            elif k == "if":
                r = block(x1 if cond(s[1], en, ln) else x2, en, d)
                if r:
                    return r
            elif k == "for":
                n = ev(s[2], en, ln)
                for i in range(max(0, n)):
                    en[s[1]] = i
                    r = block(x1, en, d)
                    if r and r[0] == "break":
                        break
                    if r and r[0] == "ret":
                        return r
            elif k == "return":
                return ("ret", ev(s[1], en, ln))
            elif k in ("break", "continue"):
                return (k,)
        return None

    try:
        block(main, {}, 0)
        comp = ("done",)
    except MFail as e:
        comp = ("failed", e.args[0])
    return tr, comp, trace, execs


def check_markstar_stops(p, name, bps, stops, tr, rep, fail, st):
    """MarkStar markers emit plain ints: executions and values per marker line come from the Python reference run."""
    _, comp, _, execs = p["ref"]
    per_line = {}
    for s in stops:
        per_line.setdefault(s.get("line"), []).append(s)
    for l in bps:
        want = len(execs.get(l, []))
        got = len(per_line.get(l, []))
        st["marker_executions"] += want
        twice = l in p["gc_lines"] and got == 2 * want and want > 0
        if got != want:
            if twice:
                fail(KNOWN_TWICE, "%s: breakpoint on module-level line %d stops twice for one execution (before_stmt fires for the PossibleGc "
                     "instruction and again for the statement itself)" % (p["id"], l), dict(rep, line=l, stops=got, executions=want))
            else:
                fail("stop-count:" + ("missed" if got < want else "extra"),
                     "%s (%s): breakpoint on line %d stopped %d times but the statement executed %d times (reference run)"
                     % (p["id"], name, l, got, want), dict(rep, line=l, stops=got, executions=want))
                continue
        var = p["markers"].get(l)
        if not var:
            continue
        for k, s in enumerate(per_line.get(l, [])):
            compare_var(p, s, "v%d" % var, execs[l][k // 2 if twice else k], rep, fail, st, strict=True)


def compare_var(p, s, var, val, rep, fail, st, strict):
    vars_ = {v[0]: v for v in s.get("vars", [])}
    want = dap_summary(val)
    if var not in vars_:
        st["vars_not_shown"] += 1
        if strict:
            fail("vars:missing", "%s: at the stop on line %s the variable %s (value %s) is not among the shown variables %s"
                 % (p["id"], s.get("line"), var, val, sorted(vars_)), dict(rep, stop=s))
        return
    if want is None:
        return
    st["vars_compared"] += 1
    if want[1] in ("int", "string") and len(want[0].encode()) > 10000:
        if not want[0].isascii():
            return
        want = (want[0][:10000] + "...(truncated)", want[1])      # Variable::truncate_string, MAX_STR_LEN = 10000
    got = (vars_[var][1], vars_[var][2])
    if got != want:
        key = "vars:captured-cell-shown" if "captured" in got[1].lower() or "captured" in got[0].lower() else "vars:wrong-value"
        fail(key, "%s: at the stop on line %s variable %s is shown as %s but the program has %s there" % (p["id"], s.get("line"), var, got, want),
             dict(rep, stop=s, expected=want))


# ------------------------------------------------------------------------------------------------
# family S: command SCRIPTS - sessions that mix Continue / Into / Over / Out
#
# quantifier: "breakpoints on any subset of lines, continuing or single-stepping" - every stop may be answered by a
# different command.  For a program with real event trace E and a breakpoint set B the sessions form a tree: a node is a
# command prefix p (followed by Continue for ever); its children p+[c] exist when the session of p stops more than len(p)
# times.  The tree is enumerated exhaustively up to a depth (pruned with the specification oracle: commands after the last
# stop cannot matter), plus random long scripts with any tail.  Every session is compared with py_stops AND with the Coq
# decision function (stops B (script cs) E, vm_compute) on the real trace.

CMDS = ["continue", "into", "over", "out"]


def script_corpus():
    d = os.path.join(sv.ROOT, "corpus", "C18", "scripts")
    out = []
    if os.path.isdir(d):
        for f in sorted(os.listdir(d)):
            if f.endswith(".star"):
                out.append({"id": "scripts:" + f, "src": open(os.path.join(d, f)).read(), "fixed": True})
    return out


def script_programs(ctx, n_gen):
    """fixed nested-call programs + generated MarkStar programs that contain calls (small traces)."""
    rng = ctx.rng
    out = script_corpus()
    tries = 0
    while len([p for p in out if not p.get("fixed")]) < n_gen and tries < 40 * n_gen + 40:
        tries += 1
        p = gen_markstar(rng.getrandbits(40), size=rng.choice([8, 10, 12]), p_fail=0.2)
        depth = max([d for _, d in p["ref"][2]] or [0])
        if depth >= 1 and 6 <= len(p["ref"][2]) <= 45:
            out.append({"id": "s" + p["id"], "src": p["src"], "fixed": False})
    return out


def script_tree(events, bps, depth):
    """All command prefixes (each followed by Continue for ever) of the sessions with breakpoints `bps`, up to `depth`
    commands, pruned by the oracle: a prefix is extended only while the session stops more often than it has commands
    (and a trailing Continue is not written twice).  -> list of policies."""
    out = []
    frontier = [[]]
    while frontier:
        nxt = []
        for p in frontier:
            alive = len(py_stops(bps, p + ["continue"], events)) > len(p)
            if p and p[-1] == "continue" and not alive:
                continue       # the same session as the shorter prefix
            out.append(p + ["continue"])
            if len(p) < depth and alive:
                for c in CMDS:
                    nxt.append(p + [c])
        frontier = nxt
    return out


def script_sessions(ctx, prog, events, budget, depth_small, depth_big, stats=None):
    """-> list of (bps, policy) for one program: every breakpoint subset of size 1 and 2 (pairs sampled when there are many),
    random larger subsets and the full set, each with the complete command tree up to depth_small - 1; then, while the
    budget lasts, subsets in random order are deepened to depth_small and a few to depth_big; + random long scripts."""
    rng = ctx.rng
    stats = stats if stats is not None else {}
    src_lines = prog["src"].split("\n")
    lines = sorted({l for l, _ in events if l < NESTED_OFF and not src_lines[l - 1].startswith("def ")})
    if not lines:
        return []
    subsets = [[l] for l in lines]
    pairs = [[a, b] for i, a in enumerate(lines) for b in lines[i + 1:]]
    rng.shuffle(pairs)
    subsets += pairs[:ctx.n(30, 120)]
    for _ in range(ctx.n(6, 40)):
        k = rng.randint(3, min(6, len(lines))) if len(lines) >= 3 else len(lines)
        subsets.append(sorted(rng.sample(lines, k)))
    subsets.append(list(lines))
    subsets = [list(t) for t in dict.fromkeys(tuple(b) for b in subsets)]
    trees = [script_tree(events, b, depth_small - 1) for b in subsets]
    stats["subsets_complete_to_depth_%d" % (depth_small - 1)] = stats.get("subsets_complete_to_depth_%d" % (depth_small - 1), 0) + len(subsets)
    used = sum(len(t) for t in trees)
    order = list(range(len(subsets)))
    rng.shuffle(order)
    for phase, d, limit in ((0, depth_small, 0.75 * budget), (1, depth_big, budget)):
        for i in (order if phase == 0 else order[::-1]):
            if used >= limit:
                break
            t = script_tree(events, subsets[i], d)
            if len(t) > len(trees[i]) or phase == 0:
                used += len(t) - len(trees[i])
                trees[i] = t
                stats["subsets_complete_to_depth_%d" % d] = stats.get("subsets_complete_to_depth_%d" % d, 0) + 1
    sessions = [(b, pol) for b, t in zip(subsets, trees) for pol in t]
    # random long scripts with any tail (the last command repeats)
    for _ in range(ctx.n(40, 400)):
        b = sorted(rng.sample(lines, rng.randint(1, min(5, len(lines)))))
        sc = [rng.choice(CMDS) for _ in range(rng.randint(4, 12))]
        sessions.append((b, sc))
    return sessions


def classify_script_diff(got, want, pol):
    k = 0
    while k < min(len(got), len(want)) and got[k] == want[k]:
        k += 1
    after = pol[min(k - 1, len(pol) - 1)] if k > 0 else "start"
    kind = "extra-stop" if k >= len(want) else ("missing-stop" if k >= len(got) else "other-stop")
    return k, "stops-differ-from-decision-function:script/%s-after-%s" % (kind, after)


def check_scripts(ctx, progs, budget_per_prog, depth_small, depth_big, sessions_of=None):
    """-> failures, stats, extra_dbg jobs.  sessions_of: {prog id: [(bps, policy)]} for replays."""
    failures = []
    st = {"script_programs": len(progs), "script_sessions": 0, "script_stops": 0, "script_coq_cases": 0, "script_lengths": {}, "script_trees": {}, "top_frames_checked": 0,
          "script_impl_equals_coq_model": 0,
          "script_sessions_with_breakpoint_hit_during_pending_over_or_out": 0}

    def fail(key, what, replay):
        failures.append({"key": key, "what": what, "replay": dict(replay, family="script")})

    rec, rc, log = run_dap(ctx, [{"src": p["src"], "adapter": False, "bps": [], "policy": []} for p in progs], "srec")
    jobs, meta = [], []
    for p, r0 in zip(progs, rec):
        if r0 is None or "panic" in r0 or r0.get("hang") or "parse_error" in r0:
            fail("impl-crash:record-only", "%s: run with only the recording hook: %s" % (p["id"], str(r0)[:200]), {"src": p["src"], "impl": r0})
            continue
        evs = real_events(r0)
        sess = sessions_of[p["id"]] if sessions_of else script_sessions(ctx, p, evs, budget_per_prog, depth_small, depth_big, st["script_trees"])
        for b, pol in sess:
            jobs.append({"src": p["src"], "bps": b, "policy": pol, "vars": False, "max_stops": 400})
            meta.append((p, r0, evs, b, pol))
    res, rc, log = run_dap(ctx, jobs, "scr")
    if rc != 0:
        fail("harness-crash:dap", "dap harness exited with %s: %s" % (rc, log[-300:]), {"rc": rc})
    per_prog = {}
    for (p, r0, evs, b, pol), r in zip(meta, res):
        st["script_sessions"] += 1
        st["script_lengths"][len(pol)] = st["script_lengths"].get(len(pol), 0) + 1
        rep = {"src": p["src"], "bps": b, "policy": pol, "program": p["id"]}
        if r is None or "panic" in r or r.get("lost"):
            fail("impl-crash:dap-script", "%s: debugger session %s/%s crashed: %s" % (p["id"], b, pol, str(r)[:300]), dict(rep, impl=r))
            continue
        if r.get("hang"):
            fail("hang:dap-script", "%s: debugger session (breakpoints %s, commands %s) made no progress (deadlock)" % (p["id"], b, pol), rep)
            continue
        got_out = (r.get("tr"), norm_out(r.get("out")))
        base_out = (r0.get("tr"), norm_out(r0.get("out")))
        if got_out != base_out:
            fail("outcome-differs:dap-script", "%s: under the debugger (breakpoints %s, commands %s) the program behaves differently: %s vs %s"
                 % (p["id"], b, pol, str(got_out)[:300], str(base_out)[:300]), dict(rep, instrumented=got_out, uninstrumented=base_out))
        if r.get("events") != r0.get("events"):
            fail("trace-differs-across-configs:dap-script", "%s: the before_stmt event sequence under the script session differs from the one "
                 "without the adapter" % p["id"], rep)
        stops = [s_ for s_ in r.get("stops", []) if "i" in s_]
        st["script_stops"] += len(stops)
        st["top_frames_checked"] += sum(1 for s_ in stops if len(s_.get("frames") or []) >= 2)
        for s_ in stops:
            tf = top_frame_failure(s_)
            if tf:
                fail(tf[0], "%s (breakpoints %s, commands %s): %s" % (p["id"], b, pol, tf[1]), dict(rep, stop=s_))
                break
        nk0 = nested_keys(r)
        got = [(stop_line(s_, nk0), (len(s_["frames"]) - 1) if "frames" in s_ else None) for s_ in stops]
        want = py_stops(b, pol, evs)
        if r.get("capped"):
            want = want[:len(got)]
        # the scenario class of interest: a breakpoint stops the program while an Over/Out request is outstanding
        for k in range(1, len(want)):
            if pol[min(k - 1, len(pol) - 1)] in ("over", "out") and want[k][0] in b and want[k][1] > want[k - 1][1]:
                st["script_sessions_with_breakpoint_hit_during_pending_over_or_out"] += 1
                break
        if [g[0] for g in got] != [w[0] for w in want] or any(g[1] is not None and g[1] != w[1] for g, w in zip(got, want)):
            k, key = classify_script_diff([g[0] for g in got], [w[0] for w in want], pol)
            fail(key, "%s: breakpoints %s, commands %s (last repeats): the adapter's stops differ from the decision function applied to the "
                 "real event trace: first %d equal, then impl %s vs expected %s (a stop of any cause consumes the pending step; "
                 "Continue installs none)" % (p["id"], b, pol, k, got[k:k + 3], want[k:k + 3]),
                 dict(rep, impl_stops=got[:60], spec_stops=want[:60], events=evs[:200]))
        per_prog.setdefault(p["id"], (p, evs, []))[2].append((b, pol, got, want))
    extra = []
    for pid, (p, evs, items) in per_prog.items():
        if len(evs) > 400:
            continue

        def cb(v, mlog, p=p, evs=evs, items=items):
            if v is None or len(v) != len(items):
                fail("model-run-failed", "the Coq decision function could not be evaluated for %s: %s" % (p["id"], mlog[-300:]), {"src": p["src"]})
                return
            for (b, pol, got, want), mv in zip(items, v):
                st["script_coq_cases"] += 1
                ms = [tuple(e) for e in mv]
                full = py_stops(b, pol, evs)
                if ms != full:
                    fail("model-vs-spec:decision-function", "%s: Coq run_dbg and the Python oracle disagree on (%s, %s)" % (p["id"], b, pol),
                         {"src": p["src"], "bps": b, "policy": pol, "coq": ms[:50], "python": full[:50]})
                    if [g[0] for g in got] != [m[0] for m in ms][:len(got) if len(got) >= 400 else len(ms)]:
                        fail("stops-differ-from-decision-function:model", "%s: breakpoints %s, commands %s: adapter stops differ from the Coq "
                             "decision function" % (p["id"], b, pol),
                             {"src": p["src"], "bps": b, "policy": pol, "impl_stops": got[:60], "model_stops": ms[:60]})
                elif [g[0] for g in got] == [m[0] for m in ms][:len(got) if len(got) >= 400 else len(ms)]:
                    st["script_impl_equals_coq_model"] += 1      # (a difference was already reported against the oracle = model)
        extra.append((evs, [(b, pol) for b, pol, _, _ in items], cb))
    # the simplest session of each class first (the first failure of a key becomes the replay)
    failures.sort(key=lambda f: (len(f["replay"].get("policy", [])), len(f["replay"].get("bps", [])), len(f["replay"].get("src", ""))))
    return failures, st, extra


# ------------------------------------------------------------------------------------------------
# family C: debugger-side EXPRESSION EVALUATION (breakpoint conditions, `evaluate` requests) on programs whose
# locals / parameters SHADOW module globals and whose loaded (frozen) functions have globals colliding with the running
# module's.  Evaluator::eval_statements copies frozen-module variables and locals into the live module and restores it.
# Checked: transcript, result/error and the FINAL MODULE VALUES equal the completely uninstrumented run in every session;
# an always-false condition gives zero stops; always-true / erroneous conditions stop like unconditional breakpoints;
# a condition on locals stops exactly at the executions where it holds (values taken from the program's own markers);
# `evaluate(name)` and variables() at a stop show the value the program emits there (the local, not the shadowed global).

HAZ_LOCAL = "unassigned-local-takes-global-value"
HAZ_GLOBAL = "unassigned-global-takes-local-value"
HAZ_FROZEN = "unassigned-global-takes-frozen-module-value"
EVAL_KEY = "debugger-eval-interference:"
LIB = "lib.star"
LIB_OFF = 1000       # lines of lib.star are shifted by this much in the decision function's event list


class ShadowGen:
    def __init__(self, seed):
        self.rng = random.Random(seed)
        self.seed = seed
        self.mid = MARK0
        self.markers = []      # dicts: file, line, id, names, in_def
        self.stats = {}

    def note(self, k):
        self.stats[k] = self.stats.get(k, 0) + 1

    def marker(self, lines, file, pad, names, in_def):
        self.mid += 1
        lines.append("%semit((%d, [%s]))" % (pad, self.mid, ", ".join(names)))
        self.markers.append({"file": file, "line": len(lines), "id": self.mid, "names": list(names), "in_def": in_def})

    def iexpr(self, names):
        rng = self.rng
        a = rng.choice(names) if names else str(rng.randint(1, 9))
        r = rng.random()
        if r < 0.3:
            return "%s + %d" % (a, rng.randint(1, 9))
        if r < 0.5 and len(names) > 1:
            return "%s + %s" % (a, rng.choice(names))
        if r < 0.65:
            return "%s * 2" % a
        if r < 0.8:
            return "%s - %d" % (a, rng.randint(1, 5))
        return a

    def program(self):
        rng = self.rng
        hazard = rng.choice([None] * 17 + [HAZ_LOCAL, HAZ_GLOBAL, HAZ_FROZEN])
        use_lib = hazard == HAZ_FROZEN or rng.random() < 0.4
        globs = ["ga", "gb", "gc", "gd"][:rng.randint(2, 4)]
        late = None            # the global that is assigned only at the end of the module (hazard programs)
        lib_src, lib_funs, lib_globs = None, [], []
        if use_lib:
            L = []
            lib_globs = sorted(rng.sample(globs, rng.randint(1, min(2, len(globs)))))     # collide with the running module's globals
            self.note("lib_colliding_globals")
            for g in lib_globs:
                L.append("%s = %d" % (g, rng.choice([100, 200, 300])))
            L.append("lk = 7")
            params = ["a"] + ([rng.choice(globs)] if rng.random() < 0.5 else [])
            params = list(dict.fromkeys(params))
            L.append("def lf0(%s):" % ", ".join(params))
            L.append("    t = a + %s + lk" % rng.choice(lib_globs))
            self.marker(L, LIB, "    ", params + ["t"], True)
            if rng.random() < 0.4:
                L.append("    for li in range(2):")
                L.append("        t = t + li")
                self.marker(L, LIB, "        ", ["li", "t"], True)
            L.append("    return t")
            lib_funs.append(("lf0", len(params)))
            if rng.random() < 0.5:
                L.append("def lf1(b):")
                L.append("    u = lf0(%s)" % ", ".join(["b + 1"] + ["2"] * (len(params) - 1)))
                self.marker(L, LIB, "    ", ["b", "u"], True)
                L.append("    return u + %s" % rng.choice(lib_globs))
                lib_funs.append(("lf1", 1))
            lib_src = "\n".join(L) + "\n"
        M = []
        if use_lib:
            M.append("load(\"%s\", %s)" % (LIB, ", ".join('"%s"' % f for f, _ in lib_funs)))
        ginit = {g: rng.choice([3, 10, -2, 41, 6]) for g in globs}
        if hazard == HAZ_FROZEN:
            late = rng.choice(lib_globs)
        elif hazard == HAZ_GLOBAL:
            late = rng.choice(globs)
        for g in globs:
            if g != late:
                M.append("%s = %d" % (g, ginit[g]))
        M.append("gl = [1, 2]")
        early = [g for g in globs if g != late]
        M.append("def rd():")
        M.append("    return [%s]" % ", ".join(early + ["len(gl)"]))
        if late:
            M.append("def rd_late():")
            M.append("    return %s" % late)
        # functions of the running module
        nf = rng.randint(1, 3)
        funs = []        # (name, nparams)
        shadowing_funs = []
        for k in range(nf):
            name = "f%d" % k
            params = []
            for j in range(rng.randint(1, 2)):
                if rng.random() < 0.6 or (k == 0 and j == 0):
                    cand = [g for g in globs if g not in params]
                    params.append(rng.choice(cand))
                    self.note("param_shadows_global")
                else:
                    params.append("p%d%d" % (k, j))
            if hazard == HAZ_GLOBAL and k == 0 and late not in params:
                params[0] = late
            M.append("def %s(%s):" % (name, ", ".join(params)))
            known = list(params)
            for j in range(rng.randint(0, 2)):
                cand = [g for g in globs if g not in known and not (hazard == HAZ_LOCAL and k == 0 and g == globs[-1])]
                if cand and rng.random() < 0.6:
                    x = rng.choice(cand)
                    self.note("local_shadows_global")
                else:
                    x = "t%d%d" % (k, j)
                M.append("    %s = %s" % (x, self.iexpr(known)))
                known.append(x)
            self.marker(M, "main", "    ", known, True)
            if any(n in globs for n in known):
                shadowing_funs.append(name)
            callees = funs + lib_funs
            if callees and rng.random() < 0.6:
                cf, cn = rng.choice(callees)
                M.append("    w%d = %s(%s)" % (k, cf, ", ".join(self.iexpr(known) for _ in range(cn))))
                known.append("w%d" % k)
                self.note("nested_call")
            if rng.random() < 0.4:
                M.append("    for i%d in range(2):" % k)
                M.append("        q%d = i%d + %s" % (k, k, rng.choice(known)))
                self.marker(M, "main", "        ", ["i%d" % k, "q%d" % k, known[0]], True)
                self.note("loop_marker")
            if rng.random() < 0.5:
                M.append("    emit(rd())")
            if rng.random() < 0.3 and "gl" not in known:
                M.append("    gl.append(%s)" % known[0])
            if hazard == HAZ_LOCAL and k == 0:
                hz = globs[-1] if globs[-1] not in known else None
                if hz is None:
                    hazard = None
                else:
                    M.append("    if %s > 1000000:" % known[0])
                    M.append("        %s = 0" % hz)
                    M.append("    emit(%s)" % hz)
                    self.haz_name = hz
            M.append("    return %s" % self.iexpr(known))
            funs.append((name, len(params)))
        # module-level statements
        body = []
        for _ in range(rng.randint(2, 4)):
            cf, cn = rng.choice(funs + (lib_funs if rng.random() < 0.5 else []))
            args = ", ".join(str(rng.choice([1, 2, 5, 8, 13])) for _ in range(cn))
            r = rng.random()
            if r < 0.45:
                body.append("emit(%s(%s))" % (cf, args))
            elif r < 0.75 and early:
                g = rng.choice(early)
                body.append("%s = %s + %s(%s)" % (g, g, cf, args))
                self.note("global_reassigned")
            else:
                body.append("emit(%s(%s))" % (cf, args))
                body.append("emit(rd())")
        if hazard in (HAZ_GLOBAL, HAZ_FROZEN):
            # a function with the marker runs while `late` is still unassigned, then the program reads `late`
            if hazard == HAZ_GLOBAL:
                first = "emit(f0(%s))" % ", ".join(str(rng.choice([4, 9])) for _ in range(funs[0][1]))
            else:
                first = "emit(lf0(%s))" % ", ".join(str(rng.choice([4, 9])) for _ in range(lib_funs[0][1]))
            body = [first, "emit(rd_late())"] + body
            self.haz_name = late
        for b in body:
            M.append(b)
        if rng.random() < 0.5 and early:
            self.marker(M, "main", "", early[:2], False)
        M.append("emit(rd())")
        if late:
            M.append("%s = %d" % (late, ginit.get(late, 5)))
        if rng.random() < 0.5 and early:
            M.append(rng.choice(early))
        if hazard:
            self.note("hazard:" + hazard)
        return {"id": "c%d" % self.seed, "src": "\n".join(M) + "\n", "lib": lib_src, "markers": self.markers, "hazard": hazard,
                "haz_name": getattr(self, "haz_name", None), "globs": globs, "stats": self.stats}


def gen_shadow(seed):
    return ShadowGen(seed).program()


def cond_false(rng, names):
    n = rng.choice(names)
    return rng.choice(["False", "1 == 2", "not True", "%s != %s" % (n, n), "%s < -1000000" % n, "len([%s]) == 0" % n, "%s == None" % n,
                       "type(%s) == \"string\"" % n, "%s + 1 == %s" % (n, n)])


def cond_true(rng, names):
    n = rng.choice(names)
    return rng.choice(["True", "1 == 1", "%s == %s" % (n, n), "%s > -1000000" % n, "len([%s]) == 1" % n, "type(%s) == \"int\"" % n,
                       "%s + 1 > %s" % (n, n)])


def cond_local(rng, names, execs):
    """-> (source text, python predicate over the list of emitted values) - ints only."""
    i = rng.randrange(len(names))
    n = names[i]
    vals = [e[i] for e in execs if isinstance(e, list) and len(e) == len(names) and isinstance(e[i], int)]
    v = rng.choice(vals) if vals else 0
    r = rng.random()
    if r < 0.4:
        return "%s == %d" % (n, v), (lambda e, i=i, v=v: e[i] == v)
    if r < 0.6:
        return "%s > %d" % (n, v), (lambda e, i=i, v=v: e[i] > v)
    if r < 0.8:
        return "%s %% 2 == 0" % n, (lambda e, i=i: e[i] % 2 == 0)
    j = rng.randrange(len(names))
    return "%s + %s <= %d" % (n, names[j], 2 * v), (lambda e, i=i, j=j, v=v: e[i] + e[j] <= 2 * v)


def shadow_case(p, extra):
    c = {"src": p["src"], "finals": True, "max_stops": 500}
    if p["lib"]:
        c["mods"] = [{"name": LIB, "src": p["lib"]}]
    c.update(extra)
    return c


def keyed_events(r):
    """(line [+ LIB_OFF for lib.star], depth) of the non-continued events."""
    return [((e[0] + LIB_OFF) if len(e) > 6 and e[6] == LIB else e[0], e[3] - 1) for e in r.get("events", []) if not e[2]]


def mkey(m):
    return m["line"] + (LIB_OFF if m["file"] == LIB else 0)


def with_bps(p, case, bps, conds):
    """bps: marker dicts; conds: {marker id: text}."""
    main = [m for m in bps if m["file"] != LIB]
    lib = [m for m in bps if m["file"] == LIB]
    case["bps"] = [m["line"] for m in main]
    case["conds"] = {str(m["line"]): conds[m["id"]] for m in main if m["id"] in conds}
    if lib:
        case["mods"] = [{"name": LIB, "src": p["lib"], "bps": [m["line"] for m in lib],
                         "conds": {str(m["line"]): conds[m["id"]] for m in lib if m["id"] in conds}}]
    return case


def shadow_sessions(rng, p, execs):
    """-> list of (config name, case, expectation) ; expectation: dict(pred=(key line, k) -> bool, policy, evals_at={key: names})."""
    ms = p["markers"]
    indef = [m for m in ms if m["in_def"]]
    out = []

    def session(name, bps, conds, truth, policy=("continue",), evals=None, check_values=False):
        case = with_bps(p, shadow_case(p, {"policy": list(policy), "vars": True}), bps, conds)
        if evals:
            case["evals"] = evals
        keys = {mkey(m): m for m in bps}

        def pred(l, k):
            m = keys.get(l)
            return bool(m) and truth(m, k)
        out.append((name, case, {"pred": pred, "policy": list(policy), "bps": [mkey(m) for m in bps], "conds": dict(conds),
                                 "evals": evals or [], "check_values": check_values, "keys": keys}))

    # always-false conditions on every marker: zero stops
    session("cond-false", ms, {m["id"]: cond_false(rng, m["names"]) for m in ms}, lambda m, k: False)
    # always-true conditions: like unconditional breakpoints; evaluate the marker's names at each stop
    sub = [m for m in ms if rng.random() < 0.7] or ms[:1]
    names = sorted({n for m in sub for n in m["names"]})
    session("cond-true", sub, {m["id"]: cond_true(rng, m["names"]) for m in sub}, lambda m, k: True, evals=names + p["globs"], check_values=True)
    # conditions on locals (markers inside functions: one start event per execution)
    if indef:
        sub = [m for m in indef if rng.random() < 0.7] or indef[:1]
        conds, preds = {}, {}
        for m in sub:
            conds[m["id"]], preds[m["id"]] = cond_local(rng, m["names"], execs.get(m["id"], []))

        def truth(m, k, preds=preds):
            ex = execs.get(m["id"], [])
            try:
                return k < len(ex) and bool(preds[m["id"]](ex[k]))
            except Exception:  # noqa: BLE001
                return True
        session("cond-local", sub, conds, truth)
    # a condition that cannot be evaluated stops (documented: "If failed to evaluate the condition, stop")
    if rng.random() < 0.5:
        m = rng.choice(ms)
        session("cond-error", [m], {m["id"]: rng.choice(["no_such_name > 1", "1 // 0 == 0", "[][0]"])}, lambda m, k: True)
    # unconditional breakpoints, evaluate requests at the stops, a mixed command script
    sub = [m for m in ms if rng.random() < 0.6] or ms[-1:]
    names = sorted({n for m in sub for n in m["names"]})
    session("evaluate-script", sub, {}, lambda m, k: True, policy=[rng.choice(CMDS) for _ in range(rng.randint(1, 5))] + ["continue"],
            evals=names + p["globs"] + ["len(gl)", "1 + 1"])
    # mixed: some conditional-false, the others unconditional
    if len(ms) >= 2:
        off = {m["id"] for m in ms if rng.random() < 0.5}
        session("cond-mixed", ms, {i: cond_false(rng, [m for m in ms if m["id"] == i][0]["names"]) for i in off},
                lambda m, k, off=off: m["id"] not in off, evals=p["globs"])
    return out


def check_shadow(ctx, progs):
    failures = []
    st = {"shadow_programs": len(progs), "shadow_sessions": 0, "shadow_stops": 0, "condition_evaluations": 0, "evaluate_compared": 0,
          "shadow_hazard_programs": 0, "shadow_configs": {}, "top_frames_checked": 0, "finals_compared": 0, "shadow_coq_cases": 0, "shadow_vars_compared": 0}

    def fail(key, what, replay):
        failures.append({"key": key, "what": what, "replay": dict(replay, family="shadow")})

    base = run_dap(ctx, [shadow_case(p, {"adapter": False, "record": False}) for p in progs], "cbase")[0]
    rec = run_dap(ctx, [shadow_case(p, {"adapter": False}) for p in progs], "crec")[0]
    jobs, meta = [], []
    for p, b0, r0 in zip(progs, base, rec):
        rep0 = {"src": p["src"], "lib": p["lib"], "program": p["id"], "hazard": p["hazard"]}
        if b0 is None or "panic" in b0 or b0.get("hang") or "parse_error" in b0 or "lib_error" in b0 or "out" not in b0:
            fail("impl-crash:uninstrumented", "%s: the uninstrumented run failed: %s" % (p["id"], str(b0)[:300]), dict(rep0, impl=b0))
            continue
        if r0 is None or "panic" in r0 or r0.get("hang") or "out" not in r0:
            fail("impl-crash:record-only", "%s: run with only the recording hook: %s" % (p["id"], str(r0)[:200]), dict(rep0, impl=r0))
            continue
        if p["hazard"]:
            st["shadow_hazard_programs"] += 1
        execs = {}
        for item in (parse_enc(x) for x in b0["tr"]):
            if isinstance(item, tuple) and len(item) == 2 and isinstance(item[0], int) and item[0] > MARK0:
                execs.setdefault(item[0], []).append(item[1])
        b = (b0["tr"], norm_out(b0["out"]), b0.get("finals"))
        g = (r0["tr"], norm_out(r0["out"]), r0.get("finals"))
        if g != b:
            fail("outcome-differs:stmt-hook", "%s: with a recording before_stmt hook the program behaves differently" % p["id"],
                 dict(rep0, instrumented=g, uninstrumented=b))
        sess = shadow_sessions(random.Random(("sessions", p["id"]).__repr__()), p, execs)     # a function of the program only (replayable)
        for name, case, exp in sess:
            jobs.append(case)
            meta.append((p, b, r0, execs, name, case, exp))
    res = run_dap(ctx, jobs, "ccfg")[0]
    coq = {}
    for (p, b, r0, execs, name, case, exp), r in zip(meta, res):
        st["shadow_sessions"] += 1
        st["shadow_configs"][name] = st["shadow_configs"].get(name, 0) + 1
        rep = {"src": p["src"], "lib": p["lib"], "program": p["id"], "hazard": p["hazard"], "config": name, "policy": exp["policy"],
               "breakpoints": exp["bps"], "conditions": {str(k): v for k, v in exp["conds"].items()}, "evals": exp["evals"],
               "case": case}
        if r is None or "panic" in r or r.get("lost") or "out" not in r:
            if r is not None and r.get("hang"):
                fail("hang:dap-" + name, "%s: debugger session %s made no progress (deadlock)" % (p["id"], name), rep)
            else:
                fail("impl-crash:dap-" + name, "%s: debugger session %s crashed: %s" % (p["id"], name, str(r)[:300]), dict(rep, impl=r))
            continue
        evs = keyed_events(r0)
        nconds = sum(1 for l, _ in evs if l in exp["keys"] and exp["keys"][l]["id"] in exp["conds"])
        st["condition_evaluations"] += nconds
        # ---- non-interference: transcript, result / error, final module values
        got = (r["tr"], norm_out(r["out"]), r.get("finals"))
        st["finals_compared"] += 1
        if got != b:
            part = "transcript" if got[0] != b[0] else ("outcome" if got[1] != b[1] else "final module values")
            key = EVAL_KEY + name
            if p["hazard"] and b[1][0] == "err" and "referenced before assignment" in (b[1][2] or "") and ("`%s`" % p["haz_name"]) in (b[1][2] or "") \
                    and got[0][:len(b[0])] == b[0] and (got[1] != b[1] or len(got[0]) > len(b[0])):
                key = EVAL_KEY + p["hazard"]
            diff = ""
            if part == "final module values":
                gd, bd = {x[0]: x[2] for x in got[2] or []}, {x[0]: x[2] for x in b[2] or []}
                diff = "; ".join("%s = %s (uninstrumented: %s)" % (n_, gd.get(n_, "<no such name>"), bd.get(n_, "<no such name>"))
                                 for n_ in sorted(set(gd) | set(bd)) if gd.get(n_, "?") != bd.get(n_, "?"))[:400]
            fail(key, "%s (%s; breakpoints %s; conditions %s; evaluate %s): the debugger-side expression evaluation changes the program: %s "
                 "differs from the uninstrumented run: %s %s | uninstrumented %s"
                 % (p["id"], name, exp["bps"], list(exp["conds"].values()), exp["evals"][:4], part, diff, str(got[:2])[:300], str(b[:2])[:300]),
                 dict(rep, instrumented=got, uninstrumented=b))
            continue
        if r.get("events") != r0.get("events"):
            fail("trace-differs-across-configs:dap-" + name, "%s: the before_stmt event sequence under %s differs from the one without the adapter"
                 % (p["id"], name), rep)
        if not all(r.get("verified", [])):
            fail("breakpoint-unverified", "%s: a breakpoint on a marker line was not resolved: %s" % (p["id"], r.get("verified")), rep)
        # ---- stops = decision function with the conditions' truth values
        stops = [s_ for s_ in r.get("stops", []) if "i" in s_]
        st["shadow_stops"] += len(stops)
        st["top_frames_checked"] += sum(1 for s_ in stops if len(s_.get("frames") or []) >= 2)
        for s_ in stops:
            tf = top_frame_failure(s_)
            if tf:
                fail(tf[0], "%s (%s): %s" % (p["id"], name, tf[1]), dict(rep, stop=s_))
                break
        got_stops = [((s_.get("line") or 0) + (LIB_OFF if s_.get("file") == LIB else 0)) for s_ in stops]
        want = py_stops(exp["pred"], exp["policy"], evs)
        if r.get("capped"):
            want = want[:len(got_stops)]
        if got_stops != [w[0] for w in want]:
            k = 0
            while k < min(len(got_stops), len(want)) and got_stops[k] == want[k][0]:
                k += 1
            fail("conditional-breakpoint:stops-differ/" + name,
                 "%s (%s): stops differ from the decision function with the conditions' truth values: first %d equal, then impl %s vs expected %s "
                 "(breakpoint lines %s, conditions %s, commands %s; lines of %s are shifted by %d)"
                 % (p["id"], name, k, got_stops[k:k + 3], [w[0] for w in want][k:k + 3], exp["bps"], exp["conds"], exp["policy"], LIB, LIB_OFF),
                 dict(rep, impl_stops=got_stops[:60], spec_stops=want[:60]))
            continue
        # constant conditions: the same session in the Coq decision function with the effective breakpoint set
        if name in ("cond-false", "cond-true", "cond-error", "evaluate-script", "cond-mixed") and len(evs) <= 400:
            eff = sorted(l for l, m in exp["keys"].items() if exp["pred"](l, 0))
            coq.setdefault(p["id"], (p, evs, []))[2].append((eff, exp["policy"], want))
        # ---- values at the stops: evaluate(name) and variables() show what the program emits there
        if exp["check_values"] and exp["policy"] == ["continue"]:
            seen = {}
            for s_, l in zip(stops, got_stops):
                m = exp["keys"].get(l)
                if not m or not m["in_def"]:
                    continue
                k = seen.get(l, 0)
                seen[l] = k + 1
                ex = execs.get(m["id"], [])
                if k >= len(ex) or not isinstance(ex[k], list):
                    continue
                vals = dict(zip(m["names"], ex[k]))
                for e_src, e_res in zip(exp["evals"], s_.get("evals", [])):
                    if e_src in vals:
                        w = dap_summary(vals[e_src])
                        st["evaluate_compared"] += 1
                        if w is not None and (e_res.get("ok"), e_res.get("type")) != w:
                            fail("evaluate:wrong-value", "%s: at the stop on line %s evaluate(%s) gives %s but the program has %s there"
                                 % (p["id"], l, e_src, e_res, w), dict(rep, stop=s_, expected=w))
                shown = {v[0]: v for v in s_.get("vars", [])}
                for n_, v_ in vals.items():
                    w = dap_summary(v_)
                    if n_ in shown and w is not None:
                        st["shadow_vars_compared"] += 1
                        if (shown[n_][1], shown[n_][2]) != w:
                            fail("vars:wrong-value", "%s: at the stop on line %s variable %s is shown as %s but the program has %s there"
                                 % (p["id"], l, n_, shown[n_][1:3], w), dict(rep, stop=s_, expected=w))
                    elif n_ not in shown:
                        fail("vars:missing", "%s: at the stop on line %s the local %s is not among the shown variables %s"
                             % (p["id"], l, n_, sorted(shown)), dict(rep, stop=s_))
    extra = []
    for pid, (p, evs, items) in coq.items():
        def cb(v, mlog, p=p, evs=evs, items=items):
            if v is None or len(v) != len(items):
                fail("model-run-failed", "the Coq decision function could not be evaluated for %s: %s" % (p["id"], mlog[-300:]), {"src": p["src"]})
                return
            for (eff, pol, want), mv in zip(items, v):
                st["shadow_coq_cases"] += 1
                ms_ = [tuple(e) for e in mv]
                if ms_ != py_stops(eff, pol, evs):
                    fail("model-vs-spec:decision-function", "%s: Coq run_dbg and the Python oracle disagree on (%s, %s)" % (p["id"], eff, pol),
                         {"src": p["src"], "bps": eff, "policy": pol, "coq": ms_[:50]})
        extra.append((evs, [(eff, pol) for eff, pol, _ in items], cb))
    # the smallest program of each class first (the first failure of a key becomes the replay)
    failures.sort(key=lambda f: len(f["replay"].get("src", "")) + len(f["replay"].get("lib") or ""))
    return failures, st, extra


# ------------------------------------------------------------------------------------------------

def gen_programs(ctx, n_mark, n_rich):
    rng = ctx.rng
    out = corpus_programs()
    agg = {}
    for _ in range(n_mark):
        p = gen_markstar(rng.getrandbits(40), size=rng.choice([10, 14, 18]))
        out.append(p)
    for _ in range(n_rich):
        p = gen_rich(rng.getrandbits(40), max_stmts=rng.choice([12, 16, 22]), max_depth=3, p_fail=0.25)
        out.append(p)
    for p in out:
        for k, v in p.get("stats", {}).items():
            agg[k] = agg.get(k, 0) + v
    return out, agg


def merge_stats(agg, stats):
    for k, v in stats.items():
        agg[k] = agg.get(k, 0) + v


def run_families(ctx, n_mark, n_rich, n_script_gen, script_budget, depths, n_shadow):
    """All three families; the Coq decision function of every family is evaluated in one coqc batch."""
    programs, agg = gen_programs(ctx, n_mark, n_rich)
    sprogs = script_programs(ctx, n_script_gen)
    f_s, st_s, extra_s = check_scripts(ctx, sprogs, script_budget, depths[0], depths[1])
    ctx.log("script family: %d programs, %d mixed-command sessions, %d stops, %d sessions with a breakpoint hit while Over/Out is pending, %d failures"
            % (st_s["script_programs"], st_s["script_sessions"], st_s["script_stops"],
               st_s["script_sessions_with_breakpoint_hit_during_pending_over_or_out"], len(f_s)))
    cprogs = [gen_shadow(ctx.rng.getrandbits(40)) for _ in range(n_shadow)]
    for p in cprogs:
        merge_stats(agg, {"shadow:" + k: v for k, v in p["stats"].items()})
    f_c, st_c, extra_c = check_shadow(ctx, cprogs)
    ctx.log("shadowing family: %d programs (%d hazard), %d sessions, %d condition evaluations, %d stops, %d evaluate results compared, %d failures"
            % (st_c["shadow_programs"], st_c["shadow_hazard_programs"], st_c["shadow_sessions"], st_c["condition_evaluations"],
               st_c["shadow_stops"], st_c["evaluate_compared"], len(f_c)))
    failures, st = check_programs(ctx, programs, extra_dbg=extra_s + extra_c)
    return programs, sprogs, cprogs, agg, failures + f_s + f_c, st, st_s, st_c


def correspond(ctx):
    programs, sprogs, cprogs, agg, failures, st, st_s, st_c = run_families(
        ctx, ctx.n(30, 1200), ctx.n(24, 900), ctx.n(6, 30), ctx.n(1500, 5000), ctx.n((3, 4), (3, 5)), ctx.n(160, 4000))
    ctx.log("programs=%d eval_runs=%d dap_runs=%d stops=%d events=%d decision_cases=%d model_traces=%d vars=%d failing=%d failures=%d"
            % (st["programs"], st["eval_runs"], st["dap_runs"], st["stops"], st["events"], st["decision_cases"], st["model_traces"],
               st["vars_compared"], st["failing_programs"], len(failures)))
    cov = {
        "evaluations": st["eval_runs"] + st["dap_runs"] + len(programs) + st_s["script_sessions"] + st_s["script_programs"]
                       + st_c["shadow_sessions"] + 2 * st_c["shadow_programs"],
        "distinct_nontrivial": len({p["src"] for p in programs if len(p["src"].splitlines()) >= 8 and p["markers"]})
                               + len({p["src"] for p in cprogs if p["markers"]}),
        "rule": "MarkStar programs (model subset: ints, if/for/break/continue, calls with depth, early return, planted division by zero) and "
                "tools/gen/progs.py programs with self-counting markers, each under 14 evaluator configurations (uninstrumented, 12 profile "
                "modes, statement hook) and 10 debugger configurations; nested-call programs under mixed command scripts (all command "
                "sequences up to a depth x breakpoint subsets, oracle-pruned, + random long scripts); shadowing programs (locals/parameters "
                "named like module globals, loaded frozen functions with colliding globals) under conditional breakpoints and evaluate "
                "requests; non-trivial = at least 8 source lines and a marker (shadowing programs: a marker); distinct by source",
        "programs": len(programs) + len(sprogs) + len(cprogs),
        "traces_validated_against_impl": st["model_traces"],
        "decision_function_cases_in_coq": st["decision_cases"] + st_s["script_coq_cases"] + st_c["shadow_coq_cases"],
        "debugger_sessions": st["dap_runs"] + st_s["script_sessions"] + st_c["shadow_sessions"],
        "stops_observed": st["stops"] + st_s["script_stops"] + st_c["shadow_stops"],
        "statement_events_observed": st["events"],
        "variables_compared": st["vars_compared"] + st_c["shadow_vars_compared"],
        "variables_not_shown": st["vars_not_shown"],
        "evaluate_calls": st["evals"],
        "marker_executions_counted_by_programs": st["marker_executions"],
        "failing_programs": st["failing_programs"],
        "programs_with_module_level_double_events": st["twice_programs"],
        "top_frame_named_None": st["top_frame_name_none"],
        "top_frame_names_checked_against_stack_trace": st["top_frames_checked"] + st_s["top_frames_checked"] + st_c["top_frames_checked"],
        "debugger_configurations": st["configs"],
        "mixed_command_scripts": st_s,
        "expression_evaluation_under_shadowing": st_c,
        "input_distribution": agg,
        "exhaustive": False,
        "samples": [programs[0]["src"], programs[-1]["src"], sprogs[0]["src"], cprogs[0]["src"]],
    }
    return {"coverage": cov, "failures": failures}


def minimise(ctx, prog, key):
    """Greedy line-block removal on the source while the same failure key reproduces (bounded number of harness runs)."""
    src = prog["src"]
    budget = 25

    def reproduces(s):
        markers, gc = source_structure(s)
        p = dict(prog, src=s, coq=None, kind="rich", markers={l: v for l, (_, v) in markers.items()},
                 marker_ids={mid: l for l, (mid, _) in markers.items()}, gc_lines=gc)
        if prog["kind"] == "markstar":
            p["markers"] = {i: None for i, l in enumerate(s.split("\n"), 1) if l.strip().startswith("emit(")}
        try:
            fs, _ = check_programs(ctx, [p], want_model=False)
        except Exception:  # noqa: BLE001
            return False
        return any(f["key"] == key for f in fs)

    lines = src.rstrip("\n").split("\n")
    i = len(lines) - 1
    while i >= 0 and budget > 0:
        ind = len(lines[i]) - len(lines[i].lstrip(" "))
        j = i + 1
        while j < len(lines) and (len(lines[j]) - len(lines[j].lstrip(" "))) > ind:
            j += 1
        cand = lines[:i] + lines[j:]
        budget -= 1
        if cand and reproduces("\n".join(cand) + "\n"):
            lines = cand
        i -= 1
    return "\n".join(lines) + "\n"


def run_extra(ctx, extra):
    """Evaluate the decision-function jobs of the script / shadowing families alone (replays)."""
    if not extra:
        return
    _, dres, mlog = run_model(ctx, [], [(e, c) for e, c, _ in extra])
    for (_, _, cb), v in zip(extra, dres):
        cb(v, mlog)


def search(ctx, broken):
    old = ctx.tier
    ctx.tier = "thorough"
    try:
        programs, sprogs, cprogs, _, failures, st, st_s, st_c = run_families(ctx, 400, 300, 20, 4000, (3, 5), 1500)
    finally:
        ctx.tier = old
    out = []
    seen = set()
    by_src = {p["src"]: p for p in programs}
    for f in failures:
        if f["key"] in seen or f["key"] == KNOWN_TWICE:
            out.append(f)
            continue
        seen.add(f["key"])
        p = by_src.get((f.get("replay") or {}).get("src"))
        if p is not None and len(seen) <= 3 and not (f.get("replay") or {}).get("family"):
            try:
                f = dict(f, replay=dict(f["replay"], minimised_src=minimise(ctx, p, f["key"])))
            except Exception:  # noqa: BLE001
                pass
        out.append(f)
    return {"failures": out, "coverage": {"evaluations": st["eval_runs"] + st["dap_runs"] + st_s["script_sessions"] + st_c["shadow_sessions"]}}


def replay_shadow(ctx, r):
    """Re-run a shadowing-family finding: regenerate the program from its seed (sessions are a function of the program);
    when the generator has changed since, re-run the recorded harness case against the uninstrumented run."""
    pid = r.get("program", "")
    p = None
    if pid.startswith("c") and pid[1:].isdigit():
        q = gen_shadow(int(pid[1:]))
        if q["src"] == r.get("src") and q["lib"] == r.get("lib"):
            p = q
    if p is not None:
        failures, st, extra = check_shadow(ctx, [p])
        run_extra(ctx, extra)
        return failures, st["shadow_sessions"] + 2
    case = r.get("case")
    if not case:
        return [], 0
    base_case = {k: v for k, v in case.items() if k not in ("bps", "conds", "evals", "policy")}
    if "mods" in base_case:
        base_case["mods"] = [{"name": m["name"], "src": m["src"]} for m in base_case["mods"]]
    base_case.update({"adapter": False, "record": False})
    res = run_dap(ctx, [base_case, case], "creplay")[0]
    b0, r1 = res
    failures = []
    if b0 and r1 and "out" in b0 and "out" in r1:
        b = (b0["tr"], norm_out(b0["out"]), b0.get("finals"))
        g = (r1["tr"], norm_out(r1["out"]), r1.get("finals"))
        if g != b:
            failures.append({"key": EVAL_KEY + str(r.get("config")), "what": "the recorded debugger session changes the program: %s vs uninstrumented %s"
                             % (str(g)[:300], str(b)[:300]), "replay": dict(r, instrumented=g, uninstrumented=b)})
    else:
        failures.append({"key": "impl-crash:dap-" + str(r.get("config")), "what": "replayed session crashed: %s / %s" % (str(b0)[:200], str(r1)[:200]),
                         "replay": r})
    return failures, 2


def replay(ctx, rep):
    r = rep.get("replay", {})
    if r.get("family") == "script" and r.get("src"):
        p = {"id": r.get("program", "replay"), "src": r["src"], "fixed": True}
        failures, st, extra = check_scripts(ctx, [p], 0, 0, 0, sessions_of={p["id"]: [(r.get("bps", []), r.get("policy", ["continue"]))]})
        run_extra(ctx, extra)
        return {"coverage": {"evaluations": st["script_sessions"] + 1, "distinct_nontrivial": 1, "samples": [r["src"]]}, "failures": failures}
    if r.get("family") == "shadow" and r.get("src"):
        failures, n = replay_shadow(ctx, r)
        return {"coverage": {"evaluations": n, "distinct_nontrivial": 1, "samples": [r["src"]]}, "failures": failures}
    src = r.get("minimised_src") or r.get("src")
    if not src:
        return {"coverage": {}, "failures": []}
    markers, gc = source_structure(src)
    p = {"id": "replay", "kind": "rich", "src": src, "coq": r.get("coq") if not r.get("minimised_src") else None,
         "markers": {l: v for l, (_, v) in markers.items()}, "marker_ids": {mid: l for l, (mid, _) in markers.items()}, "gc_lines": gc, "stats": {}}
    if p["coq"]:
        p["kind"] = "markstar"
        p["markers"] = {i: None for i, l in enumerate(src.split("\n"), 1) if l.strip().startswith("emit(")}
    failures, st = check_programs(ctx, [p])
    return {"coverage": {"evaluations": st["eval_runs"] + st["dap_runs"], "distinct_nontrivial": 1, "samples": [src]}, "failures": failures}


META = {
    "category": "proof",
    "level_text": "Partial. Proved in Coq (Properties/C18.v, closed under the global context) for the MarkStar statement language (lines, "
                  "if/for/break/continue, calls with depth, early return, run-time failure): any observer hook : H -> event -> H threaded through "
                  "the instrumented interpreter leaves transcript and completion equal to the uninstrumented run and to the plain semantics "
                  "(observer_noninterference, erase_instrumentation); every observer is fed exactly the trace (observer_sees_trace; profiler "
                  "counters = occurrences in the trace); the trace is the list of executed statement instances of the big-step derivation of "
                  "the plain semantics, one start event per instance in execution order, callee events deeper (trace_once_per_execution, "
                  "trace_depth); the adapter's decision function stops exactly at the start events of breakpoint lines - once per execution - "
                  "when continuing, at every event after the first hit under Into, at the next event of depth <= saved under Over and < saved "
                  "under Out. The real code is tied on every run: generated programs x {uninstrumented, 12 profile modes, statement hook, real "
                  "debug adapter attached / breakpoints on marker lines / Into / Over / Out / random command scripts / evaluate at each stop / "
                  "constant conditions}; mixed command scripts (every sequence of up to 2 commands over Continue/Into/Over/Out + Continue for all "
                  "breakpoint subsets of size 1-2 and sampled larger ones on nested-call programs, deepened to 3 and 4 (thorough: 5) commands "
                  "within a session budget, + random long scripts; Coq: stop_clears_step, "
                  "stop_forgets_pending_step, continue_runs_to_breakpoints); conditional breakpoints and evaluate requests on programs whose "
                  "locals/parameters shadow module globals and whose frozen loaded functions have colliding globals (final module values "
                  "compared too): "
                  "identical transcripts, results and errors; identical before_stmt event sequences, equal to the model's trace for MarkStar "
                  "programs; adapter stops = the Coq decision function on the real event trace; stops per breakpoint = executions counted by the "
                  "program; shown variables = emitted values; no deadlock (supervised sessions).",
    "level_note": "Partial because the bytecode compiler, BcStatementLocations, the interpreter loop, profilers' internals and the adapter's "
                  "thread/channel glue are tied by differential testing only; timing/allocation effects of profilers, hooks that return errors, "
                  "the truth value of breakpoint conditions (the Coq decision function takes the effective breakpoint set; conditions that depend "
                  "on locals are checked against the Python oracle with the values the program emits), multi-module inlining and evaluate() of "
                  "impure expressions are not modelled. Trusted: "
                  "Coq kernel, cases.v evaluation, harness bins eval/dap, generators. Known finding: module-level statements fire before_stmt "
                  "twice (PossibleGc instruction carries the statement span), so a breakpoint there stops twice per execution. Known findings: "
                  "a debugger-side evaluation inside a def gives an unassigned local the value of a same-named module global, and leaves a local's / "
                  "frozen module's value in a same-named module global that is not assigned yet (Evaluator::eval_statements cannot unassign).",
    "technique": "Coq parametricity proof of observer non-interference + big-step trace characterisation + adapter decision-function lemmas; "
                 "differential correspondence of event traces, stops and variables with the real evaluator/debug adapter under every instrumentation mode",
    "design_ref": "DESIGN.md section 4 C18, section 6",
}
