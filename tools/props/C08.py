"""C08 Arguments bind to parameters exactly as the call rules say, on every call path.

Proof: coq/Bind/{Model,Spec,Proofs}.v + Properties/C08.v: the slot-array binder of starlark-rust
(ParametersSpec::collect = fast path + collect_slow, modelled branch by branch) computes exactly the
name-keyed call rule (Bind/Spec.v) for every well-formed signature and every call.
Tie: the `bind` harness runs a signature and a batch of calls on the real library through every call
path (direct, via opaque(f), from inside a def, as a struct attribute, after freezing + load(), from the
host API, native functions / native methods of the same shape); the model AND the specification, both
extracted from Coq to OCaml, are run on the same inputs; CPython 3 runs the same def + call only to
validate the specification itself (never a VIOLATION)."""
import itertools
import json
import os
import subprocess

import sv

PROP = "C08"
HARNESS_BINS = ["bind"]
COQ_TARGETS = ["Properties/C08.vo", "Bind/Cases.vo", "Extract/BindX.vo"]
TRUSTED = ["extraction: ExtrOcamlBasic only (nat stays inductive); ocaml/bind_driver.ml (text <-> nat transport, hand-written); OCaml 4.13.1 ocamlopt",
           "Bind/Model.v build_spec states the RESULT of ParametersSpecBuilder on a well-formed signature (its assertions are wf_sig); "
           "the builder's step-by-step state machine is not modelled, it is validated by the tie on every enumerated signature",
           "*seq is modelled as the list of values its iterator yields and **map as its list of entries (ArgsArrayIsNotIterable / KwArgsIsNotDict are outside the model)",
           "harness bin bind (renders the calls, classifies error messages by prefix); CPython 3 as a cross-check of the specification only"]
ASSUMPTIONS = ["signatures are well-formed (kinds ordered PosOnly* PosOrKw* *args? KwOnly* **kwargs?, distinct names) - guaranteed for parsed programs by DefParams::unpack and for natives by the builder's assertions",
               "the explicit named arguments of a call have distinct names - guaranteed by CallArgsUnpack::unpack for parsed programs and by ArgNames::new_check_unique for the host API",
               "the model/implementation tie is differential testing over the enumerated strata and random larger cases"]

LETTERS = "abcdefgh"
FOREIGN = ["x", "y", "z", "w", "v", "u"]
NAME_ID = {c: i for i, c in enumerate(LETTERS)}
NAME_ID.update({c: 20 + i for i, c in enumerate(FOREIGN)})
ID_NAME = {v: k for k, v in NAME_ID.items()}
NONSTR = 7   # the non-string key used in **{7: v}

# natives of harness/src/bin/bind.rs: name -> shape = list of (kind, has_default)
NATIVES = {
    "n1": [("pk", 0)], "n2": [("pk", 0), ("pk", 0)], "n3": [("pk", 0), ("pk", 1)], "n4": [("pk", 0), ("pk", 1)],
    "n5": [("po", 0)], "n6": [("po", 0), ("po", 1)], "n7": [("po", 0), ("vk", 0)], "n8": [("pk", 0), ("va", 0)],
    "n9": [("pk", 0), ("vk", 0)], "n10": [("va", 0)], "n11": [("vk", 0)], "n12": [("va", 0), ("vk", 0)],
    "n13": [("pk", 0), ("ko", 0)], "n14": [("pk", 0), ("ko", 0), ("ko", 1)], "n15": [("po", 0), ("pk", 0)],
    "n16": [("va", 0), ("ko", 0)], "n17": [("po", 0), ("pk", 1), ("va", 0), ("ko", 0), ("vk", 0)],
    "n18": [("pk", 0), ("pk", 0), ("pk", 0)], "n19": [("pk", 0), ("pk", 1), ("pk", 1)],
}
# natives whose generated code does not go through ParametersSpec (parse_positional / parse_positional_kwargs_alloc):
# same values and same success/failure, but their own error messages and precedence
POSITIONAL_NATIVES = {"n5", "n6", "n7", "n11"}
SHAPE_NATIVES = {}
for _n, _sh in NATIVES.items():
    SHAPE_NATIVES.setdefault(tuple(_sh), []).append(_n)


# ---------------------------------------------------------------------------------------------
# signatures

def default_of(i):
    return 100 + i


def make_sig(kinds_defaults):
    """[(kind, has_default)] -> [{"name","kind","default"}] with names a, b, c.. by position."""
    return [{"name": LETTERS[i], "kind": k, "default": default_of(i) if d else None}
            for i, (k, d) in enumerate(kinds_defaults)]


def gen_sigs(maxn):
    """Every well-formed signature with at most maxn parameters: PosOnly* PosOrKw* *args? KwOnly* **kwargs?,
    defaults on a suffix of the positional parameters (def grammar), any subset of the keyword-only ones."""
    out = []
    for npo in range(maxn + 1):
        for npk in range(maxn + 1 - npo):
            for va in (0, 1):
                for nko in range(maxn + 1 - npo - npk - va):
                    for vk in (0, 1):
                        if npo + npk + va + nko + vk > maxn:
                            continue
                        npos = npo + npk
                        for dstart in range(npos + 1):
                            for kod in itertools.product((0, 1), repeat=nko):
                                kd = []
                                for i in range(npos):
                                    kd.append(("po" if i < npo else "pk", 1 if i >= dstart else 0))
                                if va:
                                    kd.append(("va", 0))
                                for d in kod:
                                    kd.append(("ko", d))
                                if vk:
                                    kd.append(("vk", 0))
                                out.append(make_sig(kd))
    return out


def render_def(sig):
    parts = []
    seen_star = False
    npo = sum(1 for p in sig if p["kind"] == "po")
    for i, p in enumerate(sig):
        k = p["kind"]
        if k == "va":
            parts.append("*" + p["name"])
            seen_star = True
            continue
        if k == "vk":
            parts.append("**" + p["name"])
            continue
        if k == "ko" and not seen_star:
            parts.append("*")
            seen_star = True
        parts.append(p["name"] + ("=%d" % p["default"] if p["default"] is not None else ""))
        if k == "po" and i == npo - 1:
            parts.append("/")
    body = "(" + "".join(p["name"] + ", " for p in sig) + ")" if sig else "()"
    return "def f(%s):\n    return %s\n" % (", ".join(parts), body)


def sig_key(sig):
    return ",".join("%s%s" % (p["kind"], "=" if p["default"] is not None else "") for p in sig) or "-"


def sig_line(sig):
    if not sig:
        return "-"
    return ",".join("%s:%d:%s" % (p["kind"], NAME_ID[p["name"]], "-" if p["default"] is None else p["default"]) for p in sig)


def natives_of(sig):
    return SHAPE_NATIVES.get(tuple((p["kind"], 1 if p["default"] is not None else 0) for p in sig), [])


# ---------------------------------------------------------------------------------------------
# calls

def mk_call(npos, named, star, kw):
    """named: list of names; star: None | length; kw: None | list of keys (name or '#')."""
    return {"pos": list(range(1, npos + 1)),
            "named": [[n, 11 + i] for i, n in enumerate(named)],
            "star": None if star is None else list(range(21, 21 + star)),
            "kw": None if kw is None else [[NONSTR if k == "#" else k, 31 + i] for i, k in enumerate(kw)]}


def render_call(c, opaque=False):
    w = (lambda s: "opaque(%s)" % s) if opaque else (lambda s: s)
    parts = [w(str(v)) for v in c["pos"]]
    parts += ["%s=%s" % (n, w(str(v))) for n, v in c["named"]]
    if c["star"] is not None:
        parts.append("*" + w("[" + ", ".join(str(v) for v in c["star"]) + "]"))
    if c["kw"] is not None:
        parts.append("**" + w("{" + ", ".join("%s: %d" % (json.dumps(k) if isinstance(k, str) else k, v) for k, v in c["kw"]) + "}"))
    return ", ".join(parts)


def call_line(c):
    pos = ",".join(str(v) for v in c["pos"]) or "-"
    named = ",".join("%d=%d" % (NAME_ID[n], v) for n, v in c["named"]) or "-"
    star = "N" if c["star"] is None else "S" + ",".join(str(v) for v in c["star"])
    kw = "N" if c["kw"] is None else "K" + ",".join("%s=%d" % ("#" if not isinstance(k, str) else NAME_ID[k], v) for k, v in c["kw"])
    return "%s %s %s %s" % (pos, named, star, kw)


def name_pool(sig):
    """(kwable names, surplus-class names): a keyword naming a positional-only / *args / **kwargs parameter or no
    parameter at all is a surplus keyword; such names are interchangeable for the binder."""
    kwable = [p["name"] for p in sig if p["kind"] in ("pk", "ko")]
    other = [p["name"] for p in sig if p["kind"] not in ("pk", "ko")]
    return kwable, other + FOREIGN


def keyword_shapes(sig, max_named, max_kw, ordered):
    """All (named, kw) pairs up to renaming of surplus names: named = <= max_named distinct names; kw = None or
    <= max_kw distinct keys (names, or one non-string key '#').  Surplus names are taken from the pool in order of
    first use.  ordered=False: one representative order per set (pool order); ordered=True: every order."""
    kwable, surplus = name_pool(sig)
    out = []
    for a in range(min(max_named, len(kwable)) + 1):
        for kn in itertools.combinations(kwable, a):
            for m in range(max_named - a + 1):
                named_set = list(kn) + surplus[:m]
                named_orders = itertools.permutations(named_set) if ordered else [tuple(named_set)]
                for named in named_orders:
                    out.append((list(named), None))
                    for b in range(min(max_kw, len(kwable)) + 1):
                        for kk in itertools.combinations(kwable, b):
                            for o in range(min(m, max_kw - b) + 1):          # surplus names repeated from `named`
                                for n in range(max_kw - b - o + 1):           # new surplus names
                                    for h in (0, 1):
                                        if b + o + n + h > max_kw:
                                            continue
                                        keys = list(kk) + surplus[:o] + surplus[m:m + n] + (["#"] if h else [])
                                        kw_orders = itertools.permutations(keys) if ordered else [tuple(keys)]
                                        for kw in kw_orders:
                                            out.append((list(named), list(kw)))
    return out


def calls_for(sig, max_pos, max_named, max_star, max_kw, ordered, keep=None):
    ks = keyword_shapes(sig, max_named, max_kw, ordered)
    if keep is not None:
        ks = [x for x in ks if keep(x)]
    stars = [None] + list(range(max_star + 1))
    out = []
    for npos in range(max_pos + 1):
        for st in stars:
            for named, kw in ks:
                out.append(mk_call(npos, named, st, kw))
    return out


def rand_sig(rng, maxn):
    n = rng.randint(0, maxn)
    va = rng.random() < 0.4
    vk = rng.random() < 0.4
    rest = max(0, n - va - vk)
    npo = rng.randint(0, rest) if rng.random() < 0.4 else 0
    nko = rng.randint(0, rest - npo) if rng.random() < 0.5 else 0
    npk = rest - npo - nko
    npos = npo + npk
    dstart = rng.randint(0, npos)
    kd = [("po" if i < npo else "pk", 1 if i >= dstart else 0) for i in range(npos)]
    if va:
        kd.append(("va", 0))
    kd += [("ko", rng.randint(0, 1)) for _ in range(nko)]
    if vk:
        kd.append(("vk", 0))
    return make_sig(kd[:len(LETTERS)])


def rand_call(rng, sig, max_pos, max_named, max_star, max_kw):
    kwable, surplus = name_pool(sig)
    pool = kwable + surplus[:4]
    npos = rng.randint(0, max_pos)
    named = rng.sample(pool, min(len(pool), rng.randint(0, max_named)))
    star = None if rng.random() < 0.4 else rng.randint(0, max_star)
    kw = None
    if rng.random() < 0.6:
        kpool = pool + (["#"] if rng.random() < 0.15 else [])
        kw = rng.sample(kpool, min(len(kpool), rng.randint(0, max_kw)))
    return mk_call(npos, named, star, kw)


# ---------------------------------------------------------------------------------------------
# model / spec output -> the harness' neutral text

def conv_slot(t):
    if t.startswith("v"):
        return t[1:]
    if t.startswith("t["):
        return "[" + t[2:-1] + "]"
    if t.startswith("d{"):
        inner = t[2:-1]
        if not inner:
            return "{}"
        return "{" + ",".join("%s:%s" % (ID_NAME[int(kv.split("=")[0])], kv.split("=")[1]) for kv in inner.split(",")) + "}"
    return "?" + t


def conv_outcome(o):
    """'OK:v1/t[2]' -> ('ok', '1 [2]') ; 'ERR:repeated:0' -> ('err', 'repeated:a')."""
    if o.startswith("OK:"):
        body = o[3:]
        return ("ok", " ".join(conv_slot(t) for t in body.split("/")) if body else "")
    e = o[4:]
    parts = e.split(":")
    if parts[0] == "repeated":
        return ("err", "repeated:" + ID_NAME[int(parts[1])])
    if parts[0] == "missing":
        return ("err", "missing:%s:%s" % (parts[1], ID_NAME[int(parts[2])]))
    if parts[0] == "extranamed":
        return ("err", "extranamed:" + ",".join(ID_NAME[int(x)] for x in parts[1].split(",") if x != ""))
    return ("err", e)


def impl_outcome(r):
    if r is None:
        return ("none", "")
    if "ok" in r:
        return ("ok", r["ok"])
    return ("err", r.get("err", "?"))


# ---------------------------------------------------------------------------------------------
# CPython (validation of the specification only)

PY_RUNNER = r'''
import json, sys
def neutral(t):
    out = []
    for x in t:
        if isinstance(x, bool) or not isinstance(x, (int, tuple, list, dict)):
            out.append("?" + repr(x))
        elif isinstance(x, int):
            out.append(str(x))
        elif isinstance(x, (tuple, list)):
            out.append("[" + ",".join(str(v) for v in x) + "]")
        else:
            out.append("{" + ",".join("%s:%s" % (k, v) for k, v in x.items()) + "}")
    return " ".join(out)
for line in open(sys.argv[1]):
    case = json.loads(line)
    env = {}
    res = []
    try:
        exec(case["def_src"], env)
    except Exception as e:
        print(json.dumps({"setup_err": str(e)[:100]}))
        continue
    for src in case["calls"]:
        try:
            res.append(neutral(eval("f(" + src + ")", env)))
        except TypeError as e:
            res.append(None)
        except Exception as e:
            res.append("!" + type(e).__name__)
    print(json.dumps(res))
'''


def run_cpython(ctx, batches):
    """batches: list of (def_src, [call src]).  Returns list of lists (neutral text | None for TypeError)."""
    d = os.path.join(ctx.run_dir, "py")
    os.makedirs(d, exist_ok=True)
    runner = os.path.join(d, "runner.py")
    with open(runner, "w") as f:
        f.write(PY_RUNNER)
    shards = max(1, min(sv.NPROC, len(batches)))
    procs = []
    for i in range(shards):
        p = os.path.join(d, "cases_%d.jsonl" % i)
        with open(p, "w") as f:
            for ds, calls in batches[i::shards]:
                f.write(json.dumps({"def_src": ds, "calls": calls}) + "\n")
        procs.append(subprocess.Popen(["timeout", "900", "python3", runner, p], stdout=subprocess.PIPE, stderr=subprocess.DEVNULL))
    out = [None] * len(batches)
    for i, pr in enumerate(procs):
        so, _ = pr.communicate()
        lines = so.decode().splitlines()
        for j, l in enumerate(lines):
            idx = i + j * shards
            if idx < len(out):
                try:
                    out[idx] = json.loads(l)
                except Exception:  # noqa: BLE001
                    out[idx] = None
    return out


# ---------------------------------------------------------------------------------------------
# evaluation

CHUNK = 300


def evaluate(ctx, work, tag="main", cpython=True):
    """work: list of (sig, [calls], source-label).  Runs implementation (all paths), extracted model + spec, CPython.
    Returns (failures, stats)."""
    cases, index = [], []       # harness cases ; index[i] = (work idx, first call idx)
    for wi, (sig, calls, _) in enumerate(work):
        ds = render_def(sig)
        nat = natives_of(sig)
        for off in range(0, len(calls), CHUNK):
            part = calls[off:off + CHUNK]
            cases.append({"id": len(cases), "def_src": ds, "natives": nat,
                          "calls": [{"src": render_call(c), "src_opaque": render_call(c, True), "pos": c["pos"], "named": c["named"],
                                     "star": c["star"], "kw": c["kw"]} for c in part]})
            index.append((wi, off))
    ncalls = sum(len(w[1]) for w in work)
    ctx.log("%s: %d signatures, %d calls, %d harness cases" % (tag, len(work), ncalls, len(cases)))
    failures = []
    rc, log, res = sv.run_harness_sharded(ctx, "bind", cases, timeout=ctx.n(600, 3000))
    ctx.log("%s: harness done" % tag)
    if rc != 0:
        failures.append({"key": "harness-crash", "what": "bind harness exited with %s: %s" % (rc, log[-300:]), "replay": {"rc": rc}})
    # model + spec
    okd, exe = sv.ocaml_driver("Extract/BindX.vo", "bind_model", "bind_driver")
    if not okd:
        return [{"key": "model-run-failed", "what": "could not build the extracted model: " + exe[-300:], "replay": {"log": exe}}], {"evaluations": 0}
    lines, lmap = [], {}
    for wi, (sig, calls, _) in enumerate(work):
        sl = sig_line(sig)
        for ci, c in enumerate(calls):
            lmap[len(lines)] = (wi, ci)
            lines.append("%d %s %s" % (len(lines), sl, call_line(c)))
    okr, outl = sv.run_driver_sharded(ctx, exe, lines, "bind_" + tag, timeout=ctx.n(300, 1500))
    model = {}
    done = 0
    for l in outl:
        if l.startswith("done "):
            done += int(l.split()[1])
            continue
        f = l.split(" ")
        if len(f) >= 6:
            model[lmap[int(f[0])]] = (f[1] == "1", f[2] == "1", f[3][2:], f[4][2:], f[5][2:])
    if not okr or done != len(lines):
        failures.append({"key": "model-run-failed", "what": "extracted model driver failed (%d of %d)" % (done, len(lines)), "replay": {"out": outl[-5:]}})
    ctx.log("%s: extracted model + specification evaluated on %d calls" % (tag, done))
    # CPython
    pyres = None
    if cpython:
        pyres = run_cpython(ctx, [(render_def(sig), [render_call(c) for c in calls]) for sig, calls, _ in work])
        ctx.log("%s: CPython done" % tag)

    stats = {"evaluations": 0, "calls": ncalls, "nontrivial": set(), "paths": {}, "outcomes": {}, "sig_kinds": {}, "sig_sizes": {},
             "fast_path": 0, "spec_vs_cpython": 0, "spec_vs_cpython_examples": [], "cpython_compared": 0, "natives": {},
             "model_vs_spec": 0, "sources": {}, "samples": []}
    for wi, (sig, calls, srcl) in enumerate(work):
        stats["sig_sizes"][str(len(sig))] = stats["sig_sizes"].get(str(len(sig)), 0) + 1
        stats["sources"][srcl] = stats["sources"].get(srcl, 0) + len(calls)
        for k in {p["kind"] + ("=" if p["default"] is not None else "") for p in sig}:
            stats["sig_kinds"][k] = stats["sig_kinds"].get(k, 0) + 1

    def fail(key, what, sig, c, extra):
        if len(failures) < 2000:
            rp = {"sig": sig, "call": c, "def_src": render_def(sig), "call_src": "f(%s)" % render_call(c)}
            rp.update(extra)
            failures.append({"key": key, "what": what, "replay": rp})

    for hi, (case, r) in enumerate(zip(cases, res)):
        wi, off = index[hi]
        sig = work[wi][0]
        if r is None or "results" not in r:
            fail("harness-no-result", "no result for signature %s: %s" % (sig_key(sig), str(r)[:200]), sig, work[wi][1][off], {"impl": r})
            continue
        for j, pr in enumerate(r["results"]):
            ci = off + j
            c = work[wi][1][ci]
            m = model.get((wi, ci))
            if m is None:
                continue
            wf, fast, M, L, S = m
            mo, so = conv_outcome(M), conv_outcome(S)
            cls = mo[1].split(":")[0] if mo[0] == "err" else "ok"
            stats["outcomes"][cls] = stats["outcomes"].get(cls, 0) + 1
            if len(stats["samples"]) < 2 and (ci * 7 + wi) % 97 == 5:
                stats["samples"].append({"def": render_def(sig).splitlines()[0], "call": "f(%s)" % render_call(c), "model": M, "specification": S,
                                         "implementation": {k: impl_outcome(v)[1] for k, v in list(pr.items())[:4]}, "paths_run": len(pr)})
            if fast:
                stats["fast_path"] += 1
            else:
                stats["nontrivial"].add(hash((sig_key(sig), call_line(c))))
            if not wf:
                fail("generator:ill-formed-signature", "generator produced a signature the model rejects: %s" % sig_key(sig), sig, c, {})
                continue
            if M != L:
                fail("model:fast-vs-slow", "fast path and slow path of the model differ: %s vs %s" % (M, L), sig, c, {"model": M, "slow": L})
            if (mo[0] == "ok") != (so[0] == "ok") or (mo[0] == "ok" and mo[1] != so[1]):
                stats["model_vs_spec"] += 1
                fail("model-vs-spec", "extracted model %s, extracted specification %s" % (M, S), sig, c, {"model": M, "spec": S})
            # CPython against the specification (validation of the specification; never a violation)
            if pyres is not None and pyres[wi] is not None and isinstance(pyres[wi], list) and ci < len(pyres[wi]):
                py = pyres[wi][ci]
                stats["cpython_compared"] += 1
                py_ok = py is not None and not str(py).startswith("!")
                if py_ok != (so[0] == "ok") or (py_ok and py != so[1]):
                    stats["spec_vs_cpython"] += 1
                    if len(stats["spec_vs_cpython_examples"]) < 5:
                        stats["spec_vs_cpython_examples"].append({"def": render_def(sig), "call": render_call(c), "cpython": py, "spec": S})
            # every path of the implementation against the model (exact) and the specification
            for path, o in pr.items():
                stats["evaluations"] += 1
                base = path.split(":")[0]
                stats["paths"][base] = stats["paths"].get(base, 0) + 1
                io = impl_outcome(o)
                nat = path.split(":")[1] if ":" in path else None
                if nat:
                    stats["natives"][nat] = stats["natives"].get(nat, 0) + 1
                if io == mo:
                    continue
                if io[0] == "err" and io[1] == "panic":
                    fail("%s:panic" % base, "panic on %s of %s: %s" % (path, sig_key(sig), o.get("msg")), sig, c, {"path": path, "impl": o})
                    continue
                bad = None
                if io[0] != mo[0]:
                    bad = "error-instead-of-value" if io[0] == "err" else "value-instead-of-error"
                elif io[0] == "ok" and io[1] != mo[1]:
                    bad = "wrong-value"
                elif io[0] == "err" and io[1] != mo[1] and not (nat in POSITIONAL_NATIVES):
                    bad = "wrong-error-class"
                if bad:
                    spec_differs = (io[0] == "ok") != (so[0] == "ok") or (io[0] == "ok" and io[1] != so[1])
                    fail("%s:%s" % (base, bad),
                         "%s f(%s) via %s: implementation %s, model %s, specification %s (%s)"
                         % (render_def(sig).splitlines()[0], render_call(c), path, o, M, S,
                            "implementation violates the call rule" if spec_differs else "implementation and model differ in the error reported"),
                         sig, c, {"path": path, "impl": o, "model": M, "spec": S, "impl_differs_from_spec": spec_differs})
    stats["nontrivial"] = len(stats["nontrivial"])
    return failures, stats


def merge(a, b):
    for k, v in b.items():
        if isinstance(v, dict):
            d = a.setdefault(k, {})
            for kk, vv in v.items():
                d[kk] = d.get(kk, 0) + vv
        elif isinstance(v, list):
            a[k] = (a.get(k, []) + v)[:8]
        else:
            a[k] = a.get(k, 0) + v
    return a


def load_corpus():
    d = os.path.join(sv.ROOT, "corpus", "C08")
    work = []
    if os.path.isdir(d):
        for fn in sorted(os.listdir(d)):
            if fn.endswith(".json"):
                for e in json.load(open(os.path.join(d, fn))):
                    sig = make_sig([(k, d_) for k, d_ in e["sig"]])
                    calls = [mk_call(c[0], c[1], c[2], c[3]) for c in e["calls"]]
                    work.append((sig, calls, "corpus"))
    return work


def sampled_shapes(rng, sigs, per_pair, pick, label):
    for s in sigs:
        ks = pick(keyword_shapes(s, 3, 3, False))
        calls = []
        for npos in range(5):
            for st in [None, 0, 1, 2, 3]:
                for named, kw in rng.sample(ks, min(len(ks), per_pair)):
                    calls.append(mk_call(npos, named, st, kw))
        yield (s, calls, label)


def valid_call(rng, sig):
    """A call the call rule accepts: every required parameter given exactly once (positionally, by name or through
    *seq / **map), optional ones sometimes, surplus only where *args / **kwargs can take it."""
    positional = [p for p in sig if p["kind"] in ("po", "pk")]
    need = 0
    for i, p in enumerate(positional):
        if p["kind"] == "po" and p["default"] is None:
            need = i + 1
    t = rng.randint(need, len(positional))
    kws = []
    for i, p in enumerate(sig):
        if p["kind"] == "ko" or (p["kind"] == "pk" and i >= t):
            if p["default"] is None or rng.random() < 0.5:
                kws.append(p["name"])
        elif p["kind"] == "po" and i >= t and p["default"] is None:
            return None
    extra_pos = rng.randint(0, 2) if any(p["kind"] == "va" for p in sig) else 0
    if any(p["kind"] == "vk" for p in sig):
        kws += FOREIGN[:rng.randint(0, 2)]
    rng.shuffle(kws)
    total = t + extra_pos
    npos = rng.randint(0, total)
    star = total - npos
    cut = rng.randint(0, len(kws))
    use_kw = cut < len(kws) or rng.random() < 0.3
    c = {"pos": list(range(1, npos + 1)),
         "named": [[n, 11 + i] for i, n in enumerate(kws[:cut])],
         "star": list(range(21, 21 + star)) if (star or rng.random() < 0.3) else None,
         "kw": [[k, 31 + i] for i, k in enumerate(kws[cut:])] if use_kw else None}
    return c


def valid_work(rng, sigs, per_sig):
    for s in sigs:
        calls = [c for c in (valid_call(rng, s) for _ in range(per_sig)) if c is not None]
        if calls:
            yield (s, calls, "V")


def random_work(rng, nsigs, maxn):
    for _ in range(nsigs):
        s = rand_sig(rng, maxn)
        yield (s, [rand_call(rng, s, 6, 4, 4, 4) for _ in range(10)], "R")


def strata(ctx):
    """The enumerated strata: (description, lazily generated work items, exhaustive?)."""
    rng = ctx.rng
    out = []
    if ctx.quick():
        w = ((s, calls_for(s, 3, 2, 2, 2, False), "A") for s in gen_sigs(2))
        out.append(("A: every signature with <= 2 parameters x every call with <= 3 positional, <= 2 named, *seq absent or of length 0..2, "
                    "**map absent or of size 0..2 (incl. a non-string key; one order per set of keywords); surplus names up to renaming", w, True))
        w = sampled_shapes(rng, gen_sigs(5), 2, lambda ks: ks, "S")
        out.append(("S: every signature with <= 5 parameters x for each of the 25 (positional count 0..4, *seq absent/0..3) pairs 2 "
                    "keyword shapes drawn from the <= 3 named x <= 3 **map shapes", w, False))
        out.append(("V: every signature with <= 5 parameters x 12 random calls that the call rule accepts (required parameters given once, "
                    "positionally / by name / through *seq / **map, surplus only into *args / **kwargs)", valid_work(rng, gen_sigs(5), 12), False))
        nr, maxn = 300, 8
    else:
        big = lambda x: len(x[0]) == 3 or (x[1] is not None and len(x[1]) == 3)   # noqa: E731
        w = ((s, calls_for(s, 4, 2, 3, 2, True), "B1") for s in gen_sigs(2))
        out.append(("B1: every signature with <= 2 parameters x every call with <= 4 positional, <= 2 named (all orders), *seq absent or of "
                    "length 0..3, **map absent or of size 0..2 (all orders, incl. a non-string key); surplus names up to renaming", w, True))
        w = ((s, calls_for(s, 4, 3, 3, 3, False, big), "B1x") for s in gen_sigs(2))
        out.append(("B1x: every signature with <= 2 parameters x every call with <= 4 positional, *seq absent or of length 0..3 and 3 named "
                    "or a **map of size 3 (<= 3 of each; one order per set of keywords); surplus names up to renaming", w, True))
        w = ((s, calls_for(s, 4, 2, 3, 2, False), "B2") for s in gen_sigs(3) if len(s) == 3)
        out.append(("B2: every signature with 3 parameters x every call with <= 4 positional, <= 2 named, *seq absent or of length 0..3, "
                    "**map absent or of size 0..2 (one order per set of keywords); surplus names up to renaming", w, True))
        w = ((s, calls_for(s, 4, 1, 3, 1, False), "C") for s in gen_sigs(5) if len(s) > 3)
        out.append(("C: every signature with 4 or 5 parameters x every call with <= 4 positional, <= 1 named, *seq absent or of length 0..3, "
                    "**map absent or of size 0..1; surplus names up to renaming", w, True))
        w = sampled_shapes(rng, [s for s in gen_sigs(5) if len(s) >= 3], 12,
                           lambda ks: [x for x in ks if len(x[0]) >= 2 or (x[1] is not None and len(x[1]) >= 2)], "D")
        out.append(("D: every signature with 3, 4 or 5 parameters x for each (positional count, *seq) pair 12 keyword shapes with >= 2 named or a "
                    "**map of size >= 2 (sampled from the <= 3 x <= 3 shapes)", w, False))
        out.append(("V: every signature with <= 5 parameters x 60 random calls that the call rule accepts (required parameters given once, "
                    "positionally / by name / through *seq / **map, surplus only into *args / **kwargs)", valid_work(rng, gen_sigs(5), 60), False))
        nr, maxn = 6000, 8
    out.append(("R: %d random signatures with <= %d parameters x 10 random calls each (<= 6 positional, <= 4 named, *seq <= 4, **map <= 4, "
                "random orders)" % (nr, maxn), random_work(rng, nr, maxn), False))
    return out


ROUND = 250000   # bounded memory: at most ~250k calls per evaluation round


def correspond(ctx):
    failures, st = [], {}
    described = []
    corpus = load_corpus()
    if corpus:
        f, s = evaluate(ctx, corpus, "corpus")
        failures += f
        merge(st, s)
        described.append("corpus: %d hand-written signatures / %d calls" % (len(corpus), sum(len(w[1]) for w in corpus)))
    for desc, work, exh in strata(ctx):
        tag = desc.split(":")[0]
        s = {}
        piece, n, nsig = [], 0, 0
        for w in itertools.chain(work, [None]):
            if w is not None:
                piece.append(w)
                n += len(w[1])
                nsig += 1
            if piece and (n >= ROUND or w is None):
                f, s1 = evaluate(ctx, piece, tag)
                failures += f
                merge(s, s1)
                piece, n = [], 0
                if len(failures) > 500:
                    break
        merge(st, s)
        described.append("%s [%d signatures, %d calls, %s]" % (desc, nsig, s.get("calls", 0), "exhaustive" if exh else "sampled"))
        ctx.log("%s: %d failures so far; spec-vs-CPython disagreements %d of %d"
                % (tag, len(failures), st.get("spec_vs_cpython", 0), st.get("cpython_compared", 0)))
    if st.get("spec_vs_cpython"):
        ctx.log("NOTE: specification and CPython disagree on %d calls (specification bug or Starlark difference, not a violation): %s"
                % (st["spec_vs_cpython"], st.get("spec_vs_cpython_examples")))
    cov = {
        "evaluations": st.get("evaluations", 0),
        "distinct_nontrivial": st.get("nontrivial", 0),
        "rule": "one evaluation = one call executed through one call path of the real library and compared with the extracted Coq model "
                "(exact slot contents or exact error class) and the extracted specification; non-trivial = distinct (signature, call) pairs "
                "that do not take the all-positional exact-arity fast path (distinct within each round of <= 250k calls; rounds of the "
                "enumerated strata are disjoint by construction, the sampled strata D/S/R may repeat a pair of an enumerated one)",
        "traces_validated_against_impl": st.get("calls", 0),
        "calls": st.get("calls", 0),
        "strata": described,
        "exhaustive": False,
        "exhaustive_strata": [d.split(":")[0] for d in described if d.endswith("exhaustive]")],
        "exhaustive_note": "strata marked exhaustive enumerate every element of the space they describe; the full space of the property's "
                           "quantifier (<= 5 parameters x <= 4 positional x <= 3 named x *seq 0..3 x **map 0..3 with every order) has ~10^9 "
                           "elements and is NOT enumerated completely - the for-all statement is carried by the Coq theorem",
        "input_distribution": {"signature_sizes": st.get("sig_sizes"), "signatures_containing_kind": st.get("sig_kinds"),
                               "model_outcome_classes": st.get("outcomes"), "paths": st.get("paths"), "natives": st.get("natives"),
                               "calls_by_stratum": st.get("sources"), "fast_path_calls": st.get("fast_path")},
        "model_vs_spec_mismatches": st.get("model_vs_spec", 0),
        "spec_vs_cpython_compared": st.get("cpython_compared", 0),
        "spec_vs_cpython_mismatches": st.get("spec_vs_cpython", 0),
        "spec_vs_cpython_examples": st.get("spec_vs_cpython_examples", []),
        "samples": st.get("samples", []),
    }
    return {"coverage": cov, "failures": failures}


def search(ctx, broken):
    """A proof obligation or the tie broke: larger random signatures and calls against the specification."""
    rng = ctx.rng
    work = []
    for _ in range(4000):
        s = rand_sig(rng, 8)
        work.append((s, [rand_call(rng, s, 7, 5, 5, 5) for _ in range(10)], "search"))
    work += [(s, calls_for(s, 3, 2, 2, 2, False), "search-small") for s in gen_sigs(3)]
    failures, st = evaluate(ctx, work, "search", cpython=False)
    return {"failures": failures, "coverage": {"evaluations": st.get("evaluations", 0), "calls": st.get("calls", 0)}}


def replay(ctx, rep):
    r = rep.get("replay", {})
    if "sig" not in r or "call" not in r:
        return {"coverage": {}, "failures": []}
    failures, st = evaluate(ctx, [(r["sig"], [r["call"]], "replay")], "replay")
    return {"coverage": {"evaluations": st.get("evaluations", 0), "distinct_nontrivial": 1, "samples": [r.get("call_src")]}, "failures": failures}


META = {
    "category": "proof",
    "level_text": "Full for the binder. Coq theorems (Properties/C08.v, closed under the global context): for every well-formed signature "
                  "and every call with distinct explicit names, ParametersSpec::collect (fast path + collect_slow, modelled branch by "
                  "branch incl. lowest_name, lazily created kwargs, both duplicate mechanisms and the error order) yields exactly the slot "
                  "contents the name-keyed call rule prescribes (incl. *args tuple and **kwargs dict contents and order) and fails exactly "
                  "when the rule says the call is ill-formed; the fast path equals the slow path whenever its guard holds; the single "
                  "lowest_name comparison is equivalent to per-slot clash detection; binding is total. The model is tied to /repo on every "
                  "run: model and specification (extracted to OCaml) are compared with the real library on every call path (def called "
                  "directly, via a value, inside a def, as a struct attribute, frozen + load() with resolved argument names / inlining, "
                  "host API eval_function frozen and unfrozen, #[starlark_module] natives and native methods of 19 signature shapes) with "
                  "exact values and exact error classes. The hypotheses are discharged for parsed programs: every parameter list accepted by the "
                  "model of DefParams::unpack is well-formed and names passing the duplicate check of CallArgsUnpack::unpack are distinct "
                  "(C08_def_unpack_wf, C08_call_unpack_nodup, C08_parsed_collect_eq_spec), and the converse is proved too: the image of the "
                  "DefParams::unpack model is exactly the well-formed signatures with no required positional parameter after a defaulted one "
                  "and no default on *args/**kwargs (C08_def_unpack_complete with the explicit witness render_sig, C08_def_unpack_image), and "
                  "the named-argument duplicate check accepts exactly the duplicate-free lists (C08_names_unique_iff). ParametersSpecBuilder is "
                  "now modelled as a step-by-step state machine (required/optional/defaulted -> add, args, kwargs, "
                  "no_more_positional_only_args, no_more_positional_args, finish, every assert! a rejection): running the calls that "
                  "InstrDefImpl::run_with_args makes for a well-formed signature and then finish yields exactly build_spec, with no assert "
                  "firing (C08_builder_builds_spec), and the asserts fire on exactly the call sequences that leave the order "
                  "P* [/ P*] [(*args|*) P*] [**kwargs] or repeat a keyword-passable name (C08_builder_order_checked, "
                  "C08_builder_methods_order_checked). The call model is extended with `*seq` not iterable and `**map` not a dict, raised at "
                  "the code's positions (before / after the positional-named clash check); the extended binder still equals the extended call "
                  "rule and coincides with the old binder on well-typed calls (C08_collect_x_eq_spec, C08_collect_x_embed). Remaining partial "
                  "items: the builder, static-check and ill-typed-operand models are tied to /repo only through what the existing tie "
                  "already exercises (every enumerated def signature, parser acceptance, native signatures); the two purely rejecting parser "
                  "checks (`/` first, `*` last) are outside the DefParams::unpack model (render_sig never produces such lists); the tie does "
                  "not yet generate non-iterable `*seq` / non-dict `**map` calls.",
    "level_note": "Trusted: Coq kernel; extraction (ExtrOcamlBasic) + ocaml/bind_driver.ml; harness bin bind; the literal names '*args'/'**kwargs' the builder "
                  "stores for variadic parameters are modelled by the declared names (never read by the binder) and its SymbolMap `names` as an "
                  "insertion-ordered association list; *seq / **map modelled as lists or a type-error marker; natives with only positional-only parameters use a "
                  "different generated parser (parse_positional*), for them values and success/failure are compared but not the error class. "
                  "The tie is differential testing (enumerated strata + random), not exhaustive over the property's full finite space.",
    "technique": "Coq refinement proof (slot-array binder = name-keyed call rule) via a simulation relation; extracted model and specification "
                 "vs implementation on all call paths; CPython as a check of the specification",
    "design_ref": "DESIGN.md section 4 C08, Appendix A",
}
