"""C11 Ordered maps and sets behave as insertion-ordered sequences under any history.

Proof: coq/Map/{Spec,Model,Proofs}.v + Properties/C11.v: the branch-by-branch model of starlark_map::SmallMap
(entries + optional hash index) keeps its invariant under every operation and refines an association list, for
every hash function (collisions allowed), every threshold and every sort cut-off.  coq/Map/{Wrappers,WrapperProofs}.v:
SmallSet, OrderedMap/Set, SortedMap/Set (layers over the SmallMap proof), UnorderedMap/Set (bag of slots) and Vec2
(two parallel arrays, index-based insertion sort) refine their list specifications; Eq is order-sensitive for the
ordered and order-insensitive for the small/unordered containers.
Tie: the `maps` harness runs operation histories on the real SmallMap<Key,i64> (Key has a caller-chosen 32-bit
hash, given through Hashed::new_unchecked and, identically, through its Hash impl) and reports after EVERY
operation the entries, every lookup, the return value and the index snapshot (hook verif_index_snapshot); the Coq
model extracted to OCaml (Extract/MapX.v, ocaml/map_driver.ml) replays the same histories and must print the same
lines.  The Python list specification below is the oracle that decides whether a disagreement is a violation of the
property itself; it also checks SmallSet, OrderedMap/Set, SortedMap/Set, UnorderedMap/Set and Vec2."""
import json
import os

import sv

PROP = "C11"
HARNESS_BINS = ["maps"]
COQ_TARGETS = ["Properties/C11.vo", "Map/Cases.vo", "Extract/MapX.vo"]
TRUSTED = ["extraction: ExtrOcamlBasic only (bool/option/unit/prod/list map to OCaml's; nat stays inductive); "
           "ocaml/map_driver.ml (line parsing/printing, hand-written); OCaml 4.13.1 ocamlopt",
           "hashbrown::HashTable<usize> modelled as a bag of (hash, index) slots: find returns a slot with that hash "
           "satisfying the predicate; insert_unique/remove/iter_mut/retain/clear act slot-wise",
           "std slice::sort_by (Vec2::sort_by above MAX_INSERTION entries), sort_by_key / sort_unstable of entries_sorted modelled as a stable sort",
           "hashbrown::HashTable<(K,V)> (UnorderedMap) modelled as a bag of (hash, entry) slots, bucket order = list order; "
           "coq/Map/Wrappers.v (wrapper models) is a hand-written mirror of the Rust methods, compared with the code only through the "
           "Python list specification of this module",
           "hook H3 SmallMap::verif_index_snapshot (reads the index slots)"]
ASSUMPTIONS = ["a key's hash is a function of the key (Hash/Eq coherent, the contract of Hashed::new_unchecked); hashes may collide freely",
               "insert_unique_unchecked is issued only for absent keys (its documented contract)",
               "SortedMap/SortedSet/entries_sorted statements: the key order (Ord) is a strict total order (asymmetric, total, transitive); "
               "Vec2::sort_by stability: the comparator is a strict weak order (incomparability is transitive); Eq/Ord/Hash statements: "
               "the element comparisons decide Leibniz equality",
               "the model/implementation tie is differential testing: exhaustive short histories over 3 keys / 2 hash values, "
               "random long histories crossing the index threshold"]

THR_FALLBACK = 16
ALL_OPS = ["ins", "insu", "rem", "remi", "pop", "clear", "retain", "sort", "rev", "dropidx", "reserve", "extend", "entry", "emod",
           "withcap", "clone"]
SUP = {
    "sm": set(ALL_OPS),
    "set": set(ALL_OPS) - {"dropidx"},
    "omap": {"ins", "rem", "clear", "sort", "extend", "entry", "emod", "withcap", "clone"},
    "oset": {"ins", "insu", "rem", "clear", "sort", "rev", "extend", "entry", "withcap", "clone"},
    "umap": {"ins", "rem", "retain", "entry", "emod", "clear", "extend", "withcap", "clone"},
    "uset": {"ins", "rem", "clear", "extend", "entry", "withcap", "clone"},
    "vec2": {"ins", "remi", "pop", "clear", "retain", "sort", "reserve", "dropidx", "withcap", "clone", "extend"},
}
SETS = {"set", "oset", "uset", "sset"}
UNORDERED = {"umap", "uset"}
SECONDARY = ["set", "omap", "oset", "smap", "sset", "umap", "uset", "vec2"]


def threshold():
    try:
        rep = json.load(open(os.path.join(sv.BUILD, "extract_report.json")))
        return int(rep["items"]["MapC.no_index_threshold"]["value"].replace("%Z", "").strip("()"))
    except Exception:  # noqa: BLE001
        return THR_FALLBACK


# ---------------------------------------------------------------------------------------------
# the list specification (Python twin of coq/Map/Spec.v), per container kind

def spec_apply(kind, l, op):
    """Apply op to the list of [k, v] in place; returns the canonical RET string."""
    name = op[0]
    if name not in SUP[kind]:
        return "_"
    zero = kind in SETS
    if kind == "vec2":
        if name == "ins":
            l.append([op[1], op[2]])
            return "-"
        if name == "extend":
            l.extend([k, v] for k, v in op[1])
            return "-"
    def find(k):
        for i, e in enumerate(l):
            if e[0] == k:
                return i
        return -1
    if name == "ins":
        k, v = op[1], 0 if zero else op[2]
        i = find(k)
        if i >= 0:
            old = l[i][1]
            l[i][1] = v
            return "V%d" % old
        l.append([k, v])
        return "N"
    if name == "insu":
        k, v = op[1], 0 if zero else op[2]
        if find(k) < 0:
            l.append([k, v])
        return "-"
    if name == "rem":
        i = find(op[1])
        if i < 0:
            return "N"
        k, v = l.pop(i)
        return "E%d:%d" % (k, v)
    if name == "remi":
        if op[1] >= len(l):
            return "N"
        k, v = l.pop(op[1])
        return "E%d:%d" % (k, v)
    if name == "pop":
        if not l:
            return "N"
        k, v = l.pop()
        return "E%d:%d" % (k, v)
    if name in ("clear", "withcap"):
        del l[:]
        return "-"
    if name == "retain":
        drop, d = set(op[1]), 0 if zero else op[2]
        l[:] = [[k, v + d] for k, v in l if k not in drop]
        return "-"
    if name == "sort":
        l.sort(key=lambda e: e[0])     # stable
        return "-"
    if name == "rev":
        l.reverse()
        return "-"
    if name in ("dropidx", "reserve", "clone"):
        return "-"
    if name == "extend":
        for k, v in op[1]:
            spec_apply(kind, l, ["ins", k, v])
        return "-"
    if name == "entry" or (name == "emod" and zero):
        k, v = op[1], 0 if zero else op[-1]
        i = find(k)
        if i >= 0:
            return "V%d" % l[i][1]
        l.append([k, v])
        return "V%d" % v
    if name == "emod":
        k, d, v = op[1], op[2], op[3]
        i = find(k)
        if i >= 0:
            l[i][1] += d
            return "V%d" % l[i][1]
        l.append([k, v])
        return "V%d" % v
    raise ValueError(name)


def render(l, nkeys, zero=False, sort=False):
    """ENTRIES and LOOKUPS strings of a list state."""
    if sort:
        l = sorted(l, key=lambda e: e[0])
    pos = {}
    for i, e in enumerate(l):
        if e[0] not in pos:
            pos[e[0]] = (i, 0 if zero else e[1])
    ent = ",".join("%d:%d" % (k, 0 if zero else v) for k, v in l)
    look = ",".join(("%d:%d" % pos[k]) if k in pos else "x" for k in range(nkeys))
    return ent, look


# ---------------------------------------------------------------------------------------------
# generators

def short_alphabet():
    """Operation alphabet of the exhaustive short histories: 3 keys, values tied to the key."""
    a = []
    for k in range(3):
        a += [["ins", k, 10 + k], ["insu", k, 20 + k], ["rem", k], ["remi", k], ["retain", [k], 1], ["entry", k, 30 + k],
              ["emod", k, 2, 40 + k]]
    a += [["pop"], ["clear"], ["retain", [], 1], ["sort"], ["rev"], ["dropidx"], ["reserve", 20], ["withcap", 20], ["clone"],
          ["extend", [[2, 52], [0, 50]]]]
    return a


def gen_short(ctx):
    """Exhaustive histories up to a length bound over 3 keys / 2 hash values (keys 0 and 1 collide)."""
    alpha = short_alphabet()
    full = ctx.n(3, 4)
    cases = []
    hashes = [7, 7, 0xFFFFFFFF]

    # only maximal histories are needed (every prefix is checked step by step), plus nothing else
    def maximal(prefix, depth):
        if depth == 0:
            cases.append({"hashes": hashes, "ops": list(prefix), "src": "short"})
            return
        for o in alpha:
            prefix.append(o)
            maximal(prefix, depth - 1)
            prefix.pop()
    maximal([], full)
    # a random sample of longer ones
    rng = ctx.rng
    for _ in range(ctx.n(15000, 60000)):
        n = rng.randint(full + 1, full + 3)
        cases.append({"hashes": hashes, "ops": [rng.choice(alpha) for _ in range(n)], "src": "short-sample"})
    return cases, len(alpha), full


SPECIAL_HASHES = [0, 1, 0xFFFFFFFF, 0x80000000, 0x7FFFFFFF, 7, 0x9E3779B9, 0xDEADBEEF]


_CROWD = {}


def crowded_pools():
    """32-bit hashes whose promoted 64-bit hash (mix_u32: h * K mod 2^64, K read from starlark_map/src/mix_u32.rs) agree in
    hashbrown's 7-bit tag (top bits) and/or in the probe start (low bits): the keys that crowd one probe sequence."""
    if _CROWD:
        return _CROWD
    import re
    k = 0x9E3779B97F4A7C15
    try:
        m = re.search(r"wrapping_mul\((0x[0-9a-fA-F_]+)\)", open(os.path.join(sv.REPO, "starlark_map/src/mix_u32.rs")).read())
        k = int(m.group(1).replace("_", ""), 16)
    except Exception:  # noqa: BLE001
        pass
    both, tag, low = [], [], []
    t0, l0 = None, None
    for h in range(1, 3000000):
        p = (h * k) & 0xFFFFFFFFFFFFFFFF
        t, lo = p >> 57, p & 127
        if t0 is None:
            t0, l0 = t, lo
        if t == t0 and lo == l0:
            both.append(h)
        elif t == t0 and len(tag) < 400:
            tag.append(h)
        elif lo == l0 and len(low) < 400:
            low.append(h)
    _CROWD.update({"both": both, "tag": tag, "low": low})
    return _CROWD


def gen_crowded(ctx, count, thr):
    """Histories on maps whose keys crowd one probe sequence of the index: grow past the threshold, then interleave removal
    by key, removal by POSITION, pop and re-insertion (every lookup is compared after every step)."""
    rng = ctx.rng
    pools = crowded_pools()
    cases = []
    for ci in range(count):
        kind = ["mixed", "both", "mixed", "tag", "mixed", "low"][ci % 6]
        nkeys = rng.choice([40, 48, 56, 64])
        if kind == "mixed":
            # keys crowding ONE probe start (they overflow into the following groups) together with keys of the same tag
            # whose probe starts elsewhere: a slot can then sit on another key's probe path in front of that key's own slot
            ncrowd = int(nkeys * rng.choice([0.4, 0.5, 0.6, 0.7]))
            hashes = rng.sample(pools["both"], ncrowd) + rng.sample(pools["tag"], nkeys - ncrowd)
            rng.shuffle(hashes)
        else:
            pool = pools[kind] if kind != "both" else pools["both"] + pools["tag"][:8]
            hashes = rng.sample(pool, min(len(pool), nkeys))
            nkeys = len(hashes)
        order = list(range(nkeys))
        rng.shuffle(order)
        ops = [["ins", k, k] for k in order[: rng.randint(thr + 8, nkeys)]]
        size = len(ops)
        for _ in range(rng.randint(60, 200)):
            r = rng.random()
            if size <= thr + 2 or r < 0.34:
                ops.append(["ins", rng.randrange(nkeys), rng.randrange(100)]); size = min(nkeys, size + 1)
            elif r < 0.62:
                ops.append(["remi", rng.randrange(size)]); size -= 1
            elif r < 0.80:
                ops.append(["rem", rng.randrange(nkeys)]); size -= 1
            elif r < 0.88:
                ops.append(["pop"]); size -= 1
            else:
                ops.append(["entry", rng.randrange(nkeys), rng.randrange(100)]); size = min(nkeys, size + 1)
        cases.append({"hashes": hashes, "ops": ops, "src": "crowded-" + kind})
    return cases


def gen_long(ctx, count, thr):
    rng = ctx.rng
    cases = []
    for _ in range(count):
        nkeys = rng.choice([8, 20, 24, 32, 32, 40, 48, 64])
        nh = rng.choice([1, 2, 2, 3, 4, 4, nkeys])
        pool = [rng.choice(SPECIAL_HASHES) if rng.random() < 0.5 else rng.getrandbits(32) for _ in range(nh)]
        if nh == nkeys and rng.random() < 0.5:
            # hashes that agree in the top 7 bits of the promoted 64-bit hash are the interesting non-equal ones; plain random otherwise
            pool = [rng.getrandbits(32) for _ in range(nh)]
        hashes = [rng.choice(pool) for _ in range(nkeys)]
        n = rng.randint(50, 400)
        ops = []
        size = 0    # rough size estimate steering the phases
        grow = True
        for _ in range(n):
            if grow and size > thr + rng.randint(2, 14):
                grow = False
            elif not grow and size < rng.randint(0, thr - 2):
                grow = True
            r = rng.random()
            k = rng.randrange(nkeys)
            v = rng.randrange(100)
            if grow:
                if r < 0.45:
                    ops.append(["ins", k, v]); size += 1
                elif r < 0.55:
                    ops.append(["insu", k, v]); size += 1
                elif r < 0.63:
                    ops.append(["entry", k, v]); size += 1
                elif r < 0.70:
                    ops.append(["emod", k, rng.randrange(4), v]); size += 1
                elif r < 0.76:
                    kv = [[rng.randrange(nkeys), rng.randrange(100)] for _ in range(rng.randint(0, 6))]
                    ops.append(["extend", kv]); size += len(kv)
                elif r < 0.80:
                    ops.append(["rem", k]); size -= 1
                else:
                    ops.append(other_op(rng, nkeys, size, thr))
            else:
                if r < 0.30:
                    ops.append(["rem", k]); size -= 1
                elif r < 0.45:
                    ops.append(["remi", rng.randrange(max(1, size + 2))]); size -= 1
                elif r < 0.60:
                    ops.append(["pop"]); size -= 1
                elif r < 0.68:
                    drop = rng.sample(range(nkeys), rng.randint(0, max(1, nkeys // 3)))
                    ops.append(["retain", drop, rng.randrange(4)]); size -= len(drop) // 2
                elif r < 0.74:
                    ops.append(["ins", k, v]); size += 1
                else:
                    ops.append(other_op(rng, nkeys, size, thr))
            size = max(0, min(size, nkeys))
        cases.append({"hashes": hashes, "ops": ops, "src": "long"})
    return cases


def other_op(rng, nkeys, size, thr):
    r = rng.random()
    if r < 0.18:
        return ["sort"]
    if r < 0.36:
        return ["rev"]
    if r < 0.46:
        return ["dropidx"]
    if r < 0.56:
        return ["reserve", rng.choice([0, 1, 3, thr - size if thr > size else 0, thr + 1, 40])]
    if r < 0.62:
        return ["clear"]
    if r < 0.66:
        return ["withcap", rng.choice([0, thr, thr + 1, 64])]
    if r < 0.76:
        return ["clone"]
    if r < 0.88:
        return ["retain", rng.sample(range(nkeys), rng.randint(0, 3)), rng.randrange(3)]
    return ["remi", rng.randrange(max(1, size + 1))]


def corpus_cases():
    d = os.path.join(sv.ROOT, "corpus", "C11")
    out = []
    if os.path.isdir(d):
        for f in sorted(os.listdir(d)):
            if f.endswith(".jsonl"):
                for line in open(os.path.join(d, f)):
                    line = line.strip()
                    if line and not line.startswith("#"):
                        c = json.loads(line)
                        c.setdefault("src", "corpus")
                        out.append(c)
    return out


# ---------------------------------------------------------------------------------------------
# model driver lines

def op_text(o):
    n = o[0]
    if n == "retain":
        return "retain %s %d" % (",".join(map(str, o[1])) or "-", o[2])
    if n == "extend":
        return "extend %s" % (",".join("%d:%d" % (k, v) for k, v in o[1]) or "-")
    return " ".join([n] + [str(x) for x in o[1:]])


def driver_line(cid, c):
    cls = {}
    hs = []
    for h in c["hashes"]:
        hs.append(cls.setdefault(h, len(cls)))
    return "%d;%s;%s" % (cid, ",".join(map(str, hs)), ";".join(op_text(o) for o in c["ops"]))


# ---------------------------------------------------------------------------------------------
# evaluation

def key_of(kind, op, what):
    return "%s:%s:%s" % (kind, op, what)


def trim(c, step):
    d = {k: v for k, v in c.items() if k != "ops"}
    d["ops"] = c["ops"][:step + 1]
    return d


def check_case(c, r, thr, idx_strings, failures, stats, use_model_line=None):
    """Compare one harness result with the list specification (all containers) and, when given, with the model's line."""
    nkeys = len(c["hashes"])
    ops = c["ops"]
    if r is None or "panic" in r or "sm" not in r:
        failures.append({"key": "smallmap:panic", "what": "harness gave no result / panicked on history: %s" % (str(r)[:300],),
                         "replay": {"case": c, "impl": r}})
        return
    if not r.get("hash_ok", False):
        stats["broken"].append(("hash-transport", "Key's Hash impl no longer yields the requested StarlarkHashValue (case %s)" % c.get("id")))
    if r.get("bad"):
        b = r["bad"][0]
        step = int(b.split(":", 1)[0]) if b.split(":", 1)[0].isdigit() else len(ops) - 1
        failures.append({"key": "consistency:" + b.split(":", 1)[-1],
                         "what": "lookup variants of the implementation disagree with each other after step %d (%s): %s" % (step, ops[min(step, len(ops) - 1)], r["bad"][:5]),
                         "replay": {"case": trim(c, step), "impl_bad": r["bad"][:20]}})
    sm = r["sm"]
    if len(sm) != len(ops):
        failures.append({"key": "smallmap:short-output", "what": "harness reported %d steps for %d ops" % (len(sm), len(ops)), "replay": {"case": c}})
        return
    model = use_model_line
    state = {"sm": []}
    if c.get("others"):
        for kd in SUP:
            state.setdefault(kd, [])
    hs = c["hashes"]
    crossed = indexed = collided = False
    prev_len = 0
    for i, o in enumerate(ops):
        # ---- primary SmallMap
        l = state["sm"]
        ret = spec_apply("sm", l, o)
        ent, look = render(l, nkeys)
        parts = sm[i].split("|")
        stats["steps"] += 1
        if len(parts) != 4 or parts[0] != ret or parts[1] != ent or parts[3] != look:
            failures.append({"key": key_of("smallmap", o[0], "differs-from-list"),
                             "what": "SmallMap after step %d %s: implementation %r, list specification %r (model %r)"
                                     % (i, o, sm[i], "|".join([ret, ent, "*", look]), model[i] if model and i < len(model) else None),
                             "replay": {"case": trim(c, i), "step": i, "impl": sm[i], "spec": [ret, ent, look],
                                        "model": model[i] if model and i < len(model) else None}})
            return
        n = len(l)
        if parts[2] != "-" and parts[2] != idx_strings(n):
            failures.append({"key": key_of("smallmap", o[0], "index-corrupt"),
                             "what": "SmallMap index after step %d %s is not {0..%d} each found under its hash: %r" % (i, o, n - 1, parts[2]),
                             "replay": {"case": trim(c, i), "step": i, "impl": sm[i], "model": model[i] if model and i < len(model) else None}})
            return
        if parts[2] == "-" and n > thr:
            failures.append({"key": key_of("smallmap", o[0], "index-missing"),
                             "what": "SmallMap has %d > %d entries but no index after step %d %s" % (n, thr, i, o),
                             "replay": {"case": trim(c, i), "step": i, "impl": sm[i]}})
            return
        if model is not None and (i >= len(model) or model[i] != sm[i]):
            failures.append({"key": key_of("smallmap", o[0], "model-differs"),
                             "what": "SmallMap after step %d %s: implementation %r, Coq model %r (list specification agrees with the implementation)"
                                     % (i, o, sm[i], model[i] if i < len(model) else None),
                             "replay": {"case": trim(c, i), "step": i, "impl": sm[i], "model": model[i] if i < len(model) else None,
                                        "spec": [ret, ent, look]}})
            return
        if not crossed and (prev_len <= thr) != (n <= thr):
            crossed = True
        if not indexed and parts[2] != "-":
            indexed = True
        if not collided and n >= 2:
            seen = set()
            for k, _ in l:
                if hs[k] in seen:
                    collided = True
                    break
                seen.add(hs[k])
        prev_len = n
        # ---- secondary containers
        if c.get("others"):
            for kd in SECONDARY:
                out = r.get(kd)
                if out is None or len(out) != len(ops):
                    failures.append({"key": kd + ":missing", "what": "no output for container %s" % kd, "replay": {"case": c}})
                    return
                if kd in ("smap", "sset"):
                    ret2 = "-"
                    ent2, look2 = render(state["sm"], nkeys, zero=(kd == "sset"), sort=True)
                else:
                    l2 = state[kd]
                    ret2 = spec_apply(kd, l2, o)
                    ent2, look2 = render(l2, nkeys, zero=kd in SETS, sort=kd in UNORDERED)
                exp = "%s|%s|~|%s" % (ret2, ent2, look2)
                stats["steps_other"] += 1
                if out[i] != exp:
                    failures.append({"key": key_of(kd, o[0], "differs-from-list"),
                                     "what": "%s after step %d %s: implementation %r, list specification %r" % (kd, i, o, out[i], exp),
                                     "replay": {"case": trim(c, i), "step": i, "container": kd, "impl": out[i], "spec": exp}})
                    return
    if crossed or indexed or collided:
        stats["nontrivial"].add(sv.digest([c["hashes"], c["ops"]]))
    stats["crossing"] += crossed
    stats["indexed"] += indexed
    stats["collided"] += collided


def evaluate(ctx, cases, with_model=True):
    thr = threshold()
    for i, c in enumerate(cases):
        c["id"] = i
        c.setdefault("api", "hashed" if i % 2 == 0 else "plain")
        c.setdefault("others", c.get("src") in ("long", "corpus") or i % 8 == 0)
    stats = {"steps": 0, "steps_other": 0, "nontrivial": set(), "crossing": 0, "indexed": 0, "collided": 0, "broken": [], "model_cases": 0}
    failures = []
    rc, log, res = sv.run_harness_sharded(ctx, "maps", [{k: v for k, v in c.items() if k != "src"} for c in cases], timeout=1500)
    ctx.log("maps harness done on %d histories" % len(cases))
    if rc != 0:
        failures.append({"key": "harness-crash", "what": "maps harness exited with %s: %s" % (rc, log[-300:]), "replay": {"rc": rc}})
    model_lines = {}
    if with_model:
        okd, exe = sv.ocaml_driver("Extract/MapX.vo", "map_model", "map_driver")
        if not okd:
            stats["broken"].append(("model-run-failed", "could not build the extracted model: " + exe[-300:]))
        else:
            lines = [driver_line(i, c) for i, c in enumerate(cases)]
            okr, outl = sv.run_driver_sharded(ctx, exe, lines, "maps", timeout=1500)
            done = 0
            for ln in outl:
                if ln.startswith("done "):
                    done += int(ln.split()[1])
                elif ln.startswith("SPECDIFF"):
                    cid = int(ln.split()[1])
                    failures.append({"key": "model:differs-from-coq-spec",
                                     "what": "the extracted Coq model and the extracted Coq specification disagree on history %d at step %s (contradicts C11_refines)" % (cid, ln.split()[2]),
                                     "replay": {"case": cases[cid]}})
                else:
                    p = ln.split("\t")
                    try:
                        model_lines[int(p[0])] = p[1:]
                    except ValueError:
                        pass
            if not okr or done != len(lines):
                stats["broken"].append(("model-run-failed", "extracted model driver failed (%d of %d histories): %s" % (done, len(lines), outl[-2:])))
            stats["model_cases"] = len(model_lines)
            ctx.log("extracted Coq model replayed %d histories" % len(model_lines))
    cache = {}

    def idx_strings(n):
        s = cache.get(n)
        if s is None:
            s = cache[n] = ",".join("%d+" % j for j in range(n))
        return s
    for c, r in zip(cases, res):
        ml = model_lines.get(c["id"]) if with_model else None
        if with_model and ml is None and not stats["broken"]:
            stats["broken"].append(("model-run-failed", "no model output for history %d" % c["id"]))
        check_case(c, r, thr, idx_strings, failures, stats, ml)
        if len(failures) > 200:
            break
    return failures, stats


def correspond(ctx):
    thr = threshold()
    corpus = corpus_cases()
    short, nalpha, full = gen_short(ctx)
    longs = gen_long(ctx, ctx.n(400, 6000), thr) + gen_crowded(ctx, ctx.n(360, 3000), thr)
    cases = corpus + short + longs
    ctx.log("generated %d histories (%d corpus, %d short incl. all %d^%d, %d long)" % (len(cases), len(corpus), len(short), nalpha, full, len(longs)))
    failures, st = evaluate(ctx, cases)
    ctx.log("steps=%d other-container steps=%d nontrivial histories=%d failures=%d broken=%s"
            % (st["steps"], st["steps_other"], len(st["nontrivial"]), len(failures), [b[0] for b in st["broken"]]))
    dist = {}
    for c in cases:
        for o in c["ops"]:
            dist[o[0]] = dist.get(o[0], 0) + 1
    lens = [len(c["ops"]) for c in longs] or [0]
    cov = {
        "evaluations": st["steps"] + st["steps_other"],
        "distinct_nontrivial": len(st["nontrivial"]),
        "rule": "histories (operation sequences) run on the real SmallMap and replayed by the extracted Coq model, compared after every "
                "step (return value, entries in order, every key lookup, index snapshot) and against the list specification; "
                "exhaustive: all %d^%d histories over 3 keys / 2 hash values (two keys collide; reserve/with_capacity put the index "
                "under test on tiny maps) + sampled longer ones; random long histories (50-400 ops, 8-64 keys, 1-4 distinct 32-bit "
                "hashes incl. 0 and 0xFFFFFFFF) alternating growth and shrink phases around the threshold %d. non-trivial = the "
                "history crosses the threshold / runs with an index, or the map holds two keys with equal hash; distinct by "
                "(hashes, ops)" % (nalpha, full, thr),
        "traces_validated_against_impl": st["model_cases"],
        "smallmap_steps": st["steps"],
        "other_container_steps": st["steps_other"],
        "histories": len(cases),
        "histories_crossing_threshold": st["crossing"],
        "histories_running_with_an_index": st["indexed"],
        "histories_with_colliding_keys_in_the_map": st["collided"],
        "long_history_length": {"min": min(lens), "max": max(lens), "mean": round(sum(lens) / len(lens), 1)},
        "input_distribution": dist,
        "exhaustive": True,
        "exhaustive_bound": "all histories of length %d over an alphabet of %d operations (3 keys, 2 hash values); every prefix is checked" % (full, nalpha),
        "samples": [{k: v for k, v in c.items() if k in ("hashes", "ops", "api", "src")} for c in (cases[len(corpus)], cases[len(corpus) + len(short) // 2])]
                   + [{"hashes": longs[0]["hashes"], "ops": longs[0]["ops"][:12], "src": "long (first 12 ops)"}],
    }
    return {"coverage": cov, "failures": failures, "broken": st["broken"]}


def search(ctx, broken):
    """A proof obligation or the tie broke: long random histories against the list specification only."""
    thr = threshold()
    old = ctx.tier
    ctx.tier = "thorough"
    try:
        cases = corpus_cases() + gen_long(ctx, 4000, thr) + gen_crowded(ctx, 600, thr)
        short, _, _ = gen_short(ctx)
        cases += short[:300000]
    finally:
        ctx.tier = old
    failures, st = evaluate(ctx, cases, with_model=False)
    return {"failures": failures, "coverage": {"evaluations": st["steps"] + st["steps_other"], "histories": len(cases)}}


def replay(ctx, rep):
    c = (rep.get("replay") or {}).get("case")
    if not c or "ops" not in c:
        return {"coverage": {}, "failures": []}
    c = dict(c)
    failures, st = evaluate(ctx, [c])
    return {"coverage": {"evaluations": st["steps"] + st["steps_other"], "distinct_nontrivial": len(st["nontrivial"]),
                         "samples": [{"hashes": c["hashes"], "ops": c["ops"]}]},
            "failures": failures, "broken": st["broken"]}


META = {
    "category": "proof",
    "level_text": "Full for SmallMap and, since this round, machine-checked for every wrapper of the map library at model level; the tie "
                  "of the wrapper models to /repo stays differential. Coq theorems (Properties/C11.v, 60 statements, closed under the "
                  "global context) show for EVERY operation history, every hash function (collisions allowed), every threshold and sort "
                  "cut-off: (1) SmallMap: the invariant (distinct keys, stored hash = hash of key, index = exactly the slots (hash k_i, i), "
                  "a permutation of 0..n-1, present above the threshold); entries, return values, get, get_index_of, contains_key, "
                  "get_index equal those of an association list; stored indices in bounds; sort_keys sorted permutation; content "
                  "independent of the hash function. (2) SmallSet (= SmallMap<T,()>; insert, guarded insert_unique, shift_remove, take, "
                  "shift_remove_index, pop, clear, retain, sort, reverse, reserve, extend, get_or_insert, with_capacity, clone, and "
                  "OrderedSet::try_insert): C11_small_set_is_map_layer (a SmallSet history IS the history of the SmallMap methods it "
                  "delegates to), _refines (elements in order = list-of-keys specification), _ret_refines (insert says whether new, "
                  "take/pop return the element, ...), _lookups_refine (contains, get, get_index_of, get_index, first, last, len), "
                  "_union_refines (union/difference), _inv_reachable. (3) OrderedMap (insert, remove, clear, entry or_insert/and_modify, "
                  "sort_keys, extend, get_mut, iter_mut/values_mut, with_capacity, clone): _refines, _ret_refines, get/index_of/get_index, "
                  "invariant; OrderedSet forwards to SmallSet (C11_ordered_set_refines). Eq/Ord/Hash are order-SENSITIVE: "
                  "C11_ordered_eq_is_list_eq (eq_ordered = true <-> equal entry sequences, for any two maps with the invariant), "
                  "C11_ordered_cmp_eq_is_list_eq (lexicographic cmp = Equal <-> equal sequences), C11_ordered_hash_congr; SmallMap/SmallSet "
                  "Eq is order-INsensitive: C11_small_map_eq_is_perm (<-> Permutation). (4) SortedMap (FromIterator = insert all + "
                  "sort_keys, then only value writes get_mut/iter_mut/values_mut): C11_sorted_map_inv_reachable (SmallMap invariant and keys "
                  "STRICTLY increasing after construction and any writes, for a strict total order), _refines, _get_refines, "
                  "_from_iter_perm; SortedSet::from_iter: C11_sorted_set_from_iter (strictly sorted, = sorted de-duplicated input) and "
                  "lookups. (5) UnorderedMap (hashbrown table modelled as a bag of slots stored under their hash; insert, remove, retain, "
                  "entry or_insert/modify, get_mut, values_mut, clear, extend/from_iter, map_values): C11_unordered_map_refines (every slot "
                  "under its key's hash, keys distinct, content = the association-list specification as a bag, i.e. up to Permutation), "
                  "_ret_refines, _get_refines; C11_unordered_eq_is_perm (Eq <-> Permutation of entries), get / Hash (commutative sum) / "
                  "entries_sorted independent of the bucket order, entries_sorted = THE strictly sorted permutation "
                  "(C11_unordered_entries_sorted); UnorderedSet insert/remove/contains/clear/from_iter/eq/entries_sorted likewise. "
                  "(6) Vec2 (two parallel arrays + capacity; push, pop, remove, clear, truncate, retain, sort_by, sort_insertion_by, "
                  "reserve, shrink_to_fit, extend, with_capacity, clone, get/first/last/len, eq): C11_vec2_inv_reachable (halves equally "
                  "long, len <= cap), C11_vec2_refines (zipped = list specification), _ret_refines, _get_refines; "
                  "C11_insertion_sort_is_isort (the index-based find_insertion_point + swap_shift loop of sorting/insertion.rs = the "
                  "stable insertion sort) and C11_vec2_sort_stable_perm (the hybrid sort_by is a sorted, STABLE permutation on both sides "
                  "of MAX_INSERTION). NOT proved: SortedSet::from(SortedVec) (relies on the input being sorted) and new_unchecked (caller "
                  "contract), raw-entry insertion under a foreign hash/key, iter_mut_unchecked, serde/pagable, Vec2's pointer arithmetic. "
                  "Tie to /repo on every run: NO_INDEX_THRESHOLD, the +1 offset and MAX_INSERTION are re-extracted; the SmallMap model "
                  "(extracted to OCaml) must print the same line as the real SmallMap after every step of exhaustive short and random long "
                  "histories, including the index snapshot. The WRAPPER models are not extracted: the real SmallSet, OrderedMap/Set, "
                  "SortedMap/Set, UnorderedMap/Set and Vec2 are driven through the same histories and compared after every step with the "
                  "Python list specification, which is the twin of the Coq list specifications (s_step, om_step, us_step, vs_step) the "
                  "wrapper models are proved to refine; so for the wrappers the model/code correspondence is by reading "
                  "(Map/Wrappers.v cites each Rust method) plus that differential test.",
    "level_note": "Trusted: Coq kernel; extraction (ExtrOcamlBasic only) + ocaml/map_driver.ml; tools/extract.py; harness bin maps + hook H3; "
                  "hashbrown's tables modelled as bags of slots found by (hash, predicate) (HashTable<usize> for the SmallMap index, "
                  "HashTable<(K,V)> for UnorderedMap; bucket order = list order, all statements permutation-invariant); std stable sort "
                  "(slice::sort_by / sort_by_key; sort_unstable on distinct keys) modelled by insertion sort; Vec2's unsafe pointer "
                  "arithmetic is modelled as surgery on two lists (memory safety beyond index-in-bounds / len <= cap is not shown); "
                  "the wrapper models (Map/Wrappers.v) are hand-written mirrors not extracted or run against the code. The tie is "
                  "differential testing, so a code change outside the generated histories' reach can escape.",
    "technique": "Coq invariant + refinement proof over all histories (wrappers as layers over the SmallMap proof); translator-extracted "
                 "constants; extracted model vs implementation step by step",
    "design_ref": "DESIGN.md section 4 C11",
}
