"""C03 Garbage collection is invisible and never loses or corrupts a live value.

Proof side: coq/Heap/{Copy,Graph,Proofs}.v - the two-space copy (reserve / forward / trace / fill) as a Gallina function with
the visited-fields mask of each type's Trace impl as a parameter; termination, the copy invariant, observation equality at
every depth, aliasing, graph isomorphism, well-formedness after the collection, schedule independence of a mutator with
safepoints; `visit_complete` for the real Trace impls is discharged on the table the translator extracts from the sources.

Runtime side (the tie):
 (i)  schedule differential: generated programs (many top-level statements, cyclic/aliased containers, closures, defaults,
      comprehension results, dict keys, structs/records/enums, runtime strings/big ints/floats/ranges/bound methods/partials,
      embedder-set module variables; plus the type-directed programs of tools/gen/progs.py) run under
      {GC disabled, default threshold, every k-th safepoint k in 1,2,3,7} with the freed arena poisoned (0xDB);
      transcripts and outcomes must be identical; a crash / abort / signal / garbled encoding is a violation
      (a shard that dies is re-run case by case to name the offending program);
 (ii) object graph: everything reachable from the module variables and extra_value is walked with pointer identity before and
      after forced collections (harness bin gc); the first-visit-numbered graphs must be equal (= isomorphic rooted ordered
      graphs: content, sharing and cycles preserved) and the Coq `gc` (vm_compute, cases.v route) applied to the BEFORE graph
      - renumbered at random and padded with garbage cells - must yield exactly the AFTER graph;
 (iii) configuration x schedule x post-evaluation differential: for every program and every evaluator configuration
      ({no profiler, each of the 12 ProfileModes} x {statement hook off, on}) the transcript, the outcome of the module and of a
      second module evaluated by the same evaluator, the statements seen by the hook, the module variables, "profile data
      generated", the result of Module::freeze(), the frozen exports read back and "retained heap profile of the frozen module
      generated" must be identical under {GC disabled, the evaluator's own threshold, every k-th safepoint k in 1,2,7} (the programs
      include profile-shaped ones whose garbage alone reaches the default threshold); a panic / crash anywhere is a violation; and
      the documented mechanism is asserted directly: under a heap-profile mode no collection is performed at all (the profilers
      keep their call records as unreachable heap values - requirement 1 above possible_gc).
 (iv) size classes: big containers (lists of 1000..5000 elements built by append / extend / += / comprehension so that spare
      capacity exists, lists of heap values, dicts, sets, tuples, strings; sizes straddle 16/32 (SmallMap index), powers of two,
      1024, 2048, 4096) are collected while reachable and then MUTATED further (append / extend / insert / pop / setitem, dict and
      set insert / delete) and fully read back (length, position-weighted checksum compared with the value computed on a Python
      list, equality with a freshly built equal container, neighbours allocated before / after) under all schedules with poisoning;
      a heap corruption kills the child process: the program is named by the case-by-case re-run and reported as `crash`;
 (v)  roots reachable only through host APIs: natives intern(s) = Heap::alloc_str_intern, same(a, b) = Value::ptr_eq,
      set_extra / get_extra = Module::set_extra_value / extra_value (harness globals_with_host_api); programs intern the same and
      different texts before / after collections, use them as dict keys, drop and re-intern them, under all schedules, on a module
      without (the default) and with an embedder extra_value; the translator additionally extracts the ordered `.trace*(tracer)`
      calls of Module::trace / Evaluator::trace with "unconditional" flags and the list of value-holding tables (fields of Module,
      Evaluator and OwnedHeap): C03_roots_complete_extracted.
"""
import concurrent.futures
import importlib.util
import json
import os
import random
import re

import sv
from gen import progs

PROP = "C03"
HARNESS_BINS = ["eval", "gc"]
COQ_TARGETS = ["Properties/C03.vo", "Heap/Cases.vo"]
TRUSTED = [
    "coq/Heap/Copy.v is a hand-written mirror of Tracer::adjust / heap_copy_impl / Evaluator::trace (reserve, forward, trace, fill)",
    "tools/extract_items/trace.py (syntactic, best-effort table of value-bearing fields declared vs fields visited by Trace impls)",
    "cfg(starlark_verif) hooks in /repo: set_gc_every (forces a collection at every k-th safepoint), set_poison (old arena := 0xDB before release)",
    "harness bins eval and gc (graph walk through ListRef/DictRef/TupleRef/dir_attr+get_attr with Value::ptr_eq)",
    "harness natives intern / same / set_extra / get_extra (globals_with_host_api) as the embedder's use of Heap::alloc_str_intern / extra_value",
]
ASSUMPTIONS = [
    "memory safety proper (reads of freed memory, arena layout, pointer tagging, unsafe casts) cannot be exhibited by the Coq model; it is "
    "searched with arena poisoning: a stale pointer is expected to crash or garble the transcript, not proved to",
    "collections only happen at module-level statement boundaries (possible_gc); roots held in native frames of third-party natives are out of scope",
    "profile contents (timings, byte counts) are not compared across schedules, only whether evaluation, freeze and profile generation succeed "
    "and what the module / frozen module exports; evaluator configurations = ProfileMode x statement hook (no debugger, no custom extra values)",
    "closure captures, bound-method receivers and partial() arguments are not walkable through the public API: the graph tie treats such values as "
    "leaf cells (their content is covered by the transcripts of (i) only)",
]

SCHEDULES = [("nogc", {"disable_gc": True}), ("default", {}), ("k1", {"gc_every": 1}), ("k2", {"gc_every": 2}),
             ("k3", {"gc_every": 3}), ("k7", {"gc_every": 7})]
HOST_VARS = {"host_s": "embedder string value", "host_n": 1234567, "host_b": True}
PREAMBLE = ('Rec = record(x = typing.Any, y = typing.Any)\n'
            'En = enum("ea", "eb", "ec")\n')


# ---------------------------------------------------------------------------------------------------------------
# generator of GC-stressing module-level programs

class GcGen:
    """Every statement is a module-level statement (= one safepoint).  Composite values are printed with repr(), which
    cuts cycles; the number of times an existing container is linked into another one is bounded, so outputs stay small."""

    def __init__(self, rng, n_stmts, emits=True, link_budget=9):
        self.rng, self.n, self.emits = rng, n_stmts, emits
        self.lines = []
        self.k = 0
        self.links = link_budget
        self.vars = {}      # name -> kind: list dict tuple fn0 struct rec other
        self.lens = {}      # list name -> known length (None when unknown)
        self.room = {}      # fn0 name -> number of further positional arguments it accepts
        self.stats = {}

    def note(self, k):
        self.stats[k] = self.stats.get(k, 0) + 1

    def fresh(self):
        self.k += 1
        return "g%d" % self.k

    def atom(self):
        r = self.rng
        c = r.randrange(12)
        if c == 0:
            return str(r.choice([0, 1, -1, 7, 255, 1 << 31, -(1 << 31), (1 << 62) + 3]))
        if c == 1:
            return '"%s"' % r.choice(["", "a", "bc", "key", "some longer literal"])
        if c == 2:
            self.note("runtime_string")
            return r.choice(['("s" * %d + str(%d))' % (r.randrange(1, 6), r.randrange(100)),
                             '"{}:{}".format(%d, "x%d")' % (r.randrange(50), r.randrange(9)),
                             '"-".join(["p", str(%d), "q"])' % r.randrange(99),
                             '("abc%d".upper() + host_s)' % r.randrange(9)])
        if c == 3:
            self.note("bigint")
            return "((1 << %d) + %d)" % (r.choice([64, 70, 100, 200]), r.randrange(1000))
        if c == 4:
            self.note("float")
            return "(%d * 1.5)" % r.randrange(-5, 50)
        if c == 5:
            self.note("range")
            return "range(%d, %d)" % (r.randrange(3), r.randrange(3, 9))
        if c == 6:
            return r.choice(["None", "True", "False", "host_n", "host_s", "host_b"])
        if c == 7:
            self.note("enum_value")
            return r.choice(['En("ea")', 'En("ec")', "En[1]"])
        if c == 8:
            return "(%d, %s)" % (r.randrange(9), self.atom())
        if c == 9:
            return "[%s]" % self.atom()
        if c == 10:
            self.note("bound_method_atom")
            return r.choice(['"abc".upper', '("x" + str(%d)).startswith' % r.randrange(9), "[1, 2].index"])
        return str(r.randrange(-3, 40))

    def key_atom(self):
        r = self.rng
        return r.choice(['"k%d"' % r.randrange(6), str(r.randrange(6)), '(%d, "t%d")' % (r.randrange(3), r.randrange(3)),
                         '("rk" + str(%d))' % r.randrange(4), "((1 << 70) + %d)" % r.randrange(3)])

    def names(self, *kinds):
        return [n for n, k in self.vars.items() if not kinds or k in kinds]

    def val(self, p_var=0.55):
        """an element expression: an existing variable (a link) or an atom"""
        if self.links > 0 and self.vars and self.rng.random() < p_var:
            self.links -= 1
            self.note("link_existing")
            return self.rng.choice(list(self.vars))
        return self.atom()

    def emit(self, e):
        if self.emits:
            self.lines.append("emit(%s)" % e)

    def emit_var(self, n):
        k = self.vars.get(n)
        if k == "fn0":
            self.emit("repr(%s())" % n)
        elif k in ("list", "dict", "tuple"):
            self.emit(self.rng.choice(["repr(%s)", "repr(%s)", "len(%s)", "str(%s)", "type(%s)"]) % n)
        else:
            self.emit("repr(%s)" % n)

    def bind(self, n, kind, length=None):
        self.vars[n] = kind
        self.lens[n] = length

    def stmt(self):
        r = self.rng
        c = r.randrange(30)
        L, D = self.names("list"), self.names("dict")
        if c <= 2 or not self.vars:
            n, m = self.fresh(), r.randrange(0, 4)
            self.lines.append("%s = [%s]" % (n, ", ".join(self.val() for _ in range(m))))
            self.bind(n, "list", m)
            self.note("new_list")
        elif c == 3:
            n, m = self.fresh(), r.randrange(0, 3)
            keys = []
            while len(keys) < m:
                k = self.key_atom()
                if k not in keys:
                    keys.append(k)
            self.lines.append("%s = {%s}" % (n, ", ".join("%s: %s" % (k, self.val()) for k in keys)))
            self.bind(n, "dict")
            self.note("new_dict")
        elif c == 4:
            n = self.fresh()
            self.lines.append("%s = (%s, [%s], %s)" % (n, self.val(), self.val(), self.atom()))
            self.bind(n, "tuple")
            self.note("tuple_inside_list")
        elif c in (5, 6, 7) and L:
            x = r.choice(L)
            if self.links > 0 and r.random() < 0.5:
                y = r.choice(L + D + [x])          # x.append(x): a 1-cycle
                self.links -= 1
                self.note("cycle_or_alias_append")
            else:
                y = self.val()
            self.lines.append("%s.append(%s)" % (x, y))
            if self.lens.get(x) is not None:
                self.lens[x] += 1
            self.note("append_across_statements")
        elif c in (8, 9) and D:
            d = r.choice(D)
            if self.links > 0 and r.random() < 0.4:
                y = r.choice(D + L)
                self.links -= 1
                self.note("cycle_or_alias_setitem")
            else:
                y = self.val()
            self.lines.append("%s[%s] = %s" % (d, self.key_atom(), y))
            self.note("dict_setitem")
        elif c == 10:
            n, f = self.fresh(), "mk%d" % (self.k + 1)
            self.k += 1
            self.lines.append("def %s(c, d = %s):\n    def g(x = None, y = c):\n        return [c, d, x, y]\n    return g" % (f, self.val()))
            self.lines.append("%s = %s(%s)" % (n, f, self.val()))
            self.bind(n, "fn0")
            self.room[n] = 2
            self.note("closure_capture_and_default")
        elif c == 11:
            n = self.fresh()
            self.lines.append("%s = lambda y = %s: (y, %s)" % (n, self.val(), self.atom()))
            self.bind(n, "fn0")
            self.room[n] = 1
            self.note("lambda_default")
        elif c == 12:
            n = self.fresh()
            if r.random() < 0.5:
                self.lines.append("%s = [[i, %s] for i in range(%d)]" % (n, self.val(), r.randrange(1, 4)))
                self.bind(n, "list", None)
            else:
                self.lines.append("%s = {str(i) + \"c\": %s for i in range(%d)}" % (n, self.val(), r.randrange(1, 3)))
                self.bind(n, "dict")
            self.note("comprehension_result")
        elif c == 13:
            n = self.fresh()
            self.lines.append("%s = struct(a = %s, b = %s)" % (n, self.val(), self.atom()))
            self.bind(n, "struct")
            self.note("struct")
        elif c == 14:
            n = self.fresh()
            self.lines.append("%s = Rec(x = %s, y = %s)" % (n, self.val(), self.atom()))
            self.bind(n, "rec")
            self.note("record")
        elif c == 15 and self.vars:
            x = r.choice(list(self.vars))
            self.lines.append("%s = %s" % (x, r.choice(["None", self.atom()])))
            del self.vars[x]
            self.note("drop_reference")
        elif c == 16 and self.vars:
            n, x = self.fresh(), r.choice(list(self.vars))
            self.lines.append("%s = %s" % (n, x))
            self.bind(n, self.vars[x], self.lens.get(x))
            self.room[n] = self.room.get(x, 0)
            self.note("alias")
        elif c == 17 and L:
            x, n = r.choice(L), self.fresh()
            self.lines.append("%s = %s.append" % (n, x))
            self.lines.append("%s(%s)" % (n, self.atom()))
            self.bind(n, "other")
            if self.lens.get(x) is not None:
                self.lens[x] += 1
            self.note("bound_method_this")
        elif c == 18:
            fns = [f for f in self.names("fn0") if self.room.get(f, 0) >= 1]
            n = self.fresh()
            if fns and r.random() < 0.6:
                f = r.choice(fns)
                self.lines.append("%s = partial(%s, %s)" % (n, f, self.val()))
                self.bind(n, "fn0")
                self.room[n] = self.room[f] - 1
            else:
                self.lines.append("%s = partial(lambda p, q = 0: [p, q], %s)" % (n, self.val()))
                self.bind(n, "fn0")
                self.room[n] = 1
            self.note("partial")
        elif c == 19 and L:
            x = r.choice(L)
            self.lines.append("for i in range(%d):\n    %s.append([i, %s])" % (r.randrange(1, 4), x, self.atom()))
            self.lens[x] = None
            self.note("module_level_loop")
        elif c == 20:
            n, f = self.fresh(), "fl%d" % (self.k + 1)
            self.k += 1
            self.lines.append("def %s(a):\n    loc = [a, [a]]\n    loc.append(loc)\n    tmp = {\"k\": loc}\n    return (loc[1], len(tmp), \"r\" + str(len(loc)))" % f)
            self.lines.append("%s = [%s(%s), %s([%s])]" % (n, f, self.val(), f, self.atom()))
            self.bind(n, "list", 2)
            self.note("values_returned_from_frames")
        elif c == 21 and L:
            x = r.choice(L)
            op = r.randrange(5)
            if op == 0 and (self.lens.get(x) or 0) > 0:
                self.lines.append("%s.pop()" % x)
                self.lens[x] -= 1
            elif op == 1:
                self.lines.append("%s.insert(0, %s)" % (x, self.val()))
                if self.lens.get(x) is not None:
                    self.lens[x] += 1
            elif op == 2:
                self.lines.append("%s.extend([%s, %s])" % (x, self.atom(), self.val()))
                if self.lens.get(x) is not None:
                    self.lens[x] += 2
            elif op == 3 and (self.lens.get(x) or 0) > 0:
                self.lines.append("%s[0] = %s" % (x, self.val()))
            else:
                self.lines.append("%s += [%s]" % (x, self.atom()))
                if self.lens.get(x) is not None:
                    self.lens[x] += 1
            self.note("list_mutation")
        elif c == 22 and D:
            d = r.choice(D)
            op = r.randrange(3)
            if op == 0:
                self.lines.append("%s.setdefault(%s, %s)" % (d, self.key_atom(), self.val()))
            elif op == 1:
                self.lines.append("%s.update({%s: %s})" % (d, self.key_atom(), self.val()))
            else:
                self.lines.append("%s.pop(%s, None)" % (d, self.key_atom()))
            self.note("dict_mutation")
        elif c == 23 and self.vars:
            n, x = self.fresh(), r.choice(list(self.vars))
            k = self.vars[x]
            if k == "list":
                self.lines.append(r.choice(["%s = %s[:]", "%s = list(reversed(%s))", "%s = tuple(%s)", "%s = [e for e in %s]"]) % (n, x))
                self.bind(n, "list" if "tuple(" not in self.lines[-1] else "tuple", None)
            elif k == "dict":
                self.lines.append(r.choice(["%s = dict(%s)", "%s = list(%s.items())", "%s = %s.values()"]) % (n, x))
                self.bind(n, "dict" if "dict(" in self.lines[-1] else "list", None)
            else:
                self.lines.append("%s = [%s, %s]" % (n, x, x))
                self.bind(n, "list", 2)
            self.note("copy_or_share")
        elif c == 24:
            n = self.fresh()
            self.lines.append("%s = {%s: %s}" % (n, "(%s, %s)" % (self.key_atom(), self.key_atom()), self.val()))
            self.bind(n, "dict")
            self.note("heap_value_as_dict_key")
        elif c == 25:
            n = self.fresh()
            self.lines.append("%s = set([%s, %s])" % (n, self.key_atom(), self.key_atom()))
            self.bind(n, "other")
            self.note("set")
        elif c == 26 and self.vars:
            x, y = r.choice(list(self.vars)), r.choice(list(self.vars))
            if self.vars[x] != "fn0" and self.vars[y] != "fn0":
                self.emit("%s == %s" % (x, y))
        else:
            if self.vars:
                self.emit_var(r.choice(list(self.vars)))

    def program(self):
        for _ in range(self.n):
            self.stmt()
            if self.emits and self.vars and self.rng.random() < 0.35:
                self.emit_var(self.rng.choice(list(self.vars)))
        return self.lines


def gen_sched_program(rng, tier_big=False):
    """-> dict(src, stats, id).  A GC-specific block, optionally followed by a type-directed program of gen.progs."""
    seed = rng.getrandbits(48)
    r = random.Random(seed)
    g = GcGen(r, r.choice([12, 20, 30, 45] if not tier_big else [30, 60, 90]))
    lines = g.program()
    # final read-back of everything that is still bound
    for n in sorted(g.vars):
        g.emit_var(n)
    src = PREAMBLE + "\n".join(lines) + "\n"
    stats = dict(g.stats)
    if r.random() < 0.5:
        p = progs.generate(r.getrandbits(48), max_stmts=r.choice([10, 18, 26]), max_depth=3, p_fail=0.25)
        src += p["src"] + "\n"
        stats["progs_block"] = 1
        for k, v in p["stats"].items():
            stats["progs." + k] = stats.get("progs." + k, 0) + v
    elif r.random() < 0.15 and g.names("list"):
        x = r.choice(g.names("list"))
        src += "emit(%s[len(%s)])\n" % (x, x)
        stats["planted_index_error"] = 1
    return {"id": "s%d" % seed, "src": src, "stats": stats}


def gen_graph_program(rng):
    seed = rng.getrandbits(48)
    r = random.Random(seed)
    g = GcGen(r, r.choice([8, 15, 25, 40]), emits=False, link_budget=12)
    lines = g.program()
    names = sorted(g.vars)
    extra = r.choice(names) if names and r.random() < 0.6 else None
    drop = []
    for n in names:
        if n == extra or r.random() < 0.3:
            drop.append("%s = None" % n)
    kept = [n for n in names if ("%s = None" % n) not in drop]
    then = ["emit(repr(%s()))" % n if g.vars[n] == "fn0" else "emit(repr(%s))" % n for n in kept]
    opts = {"set_vars": dict(HOST_VARS, host_l=[1, "two", 3]), "poison": True, "rounds": r.choice([1, 1, 2, 3])}
    if extra:
        opts["extra"] = extra
    return {"id": "g%d" % seed, "src": PREAMBLE + "\n".join(lines) + "\n", "drop": "\n".join(drop) + ("\n" if drop else ""),
            "then": "\n".join(then) + ("\n" if then else ""), "opts": opts, "stats": dict(g.stats)}


# ---------------------------------------------------------------------------------------------------------------
# targeted programs: a heap value stored in exactly one kind of field, every other reference dropped, read back later

def fresh_values():
    return ['("v" * 3 + str(41))', "[1, (\"in\" + str(2)), [3]]", '{"dk" + str(1): [9, "dv" + str(2)]}', "((1 << 90) + 5)",
            '(("t" + str(0)), [0.5 * 3])']


PAD = "pad1 = [str(i) * 40 for i in range(30)]\npad2 = None\npad1 = None\npad3 = {str(i): [i] * 20 for i in range(20)}\npad3 = None\n"

TEMPLATES = [
    # (name, types it exercises, source with %V = fresh heap value)
    ("list_element", ["ListData", "ListGen", "AValueArray", "AValueList"], "x = [%V, %V]\n" + PAD + "emit(repr(x))\nx.append(1)\nemit(repr(x))\n"),
    ("list_self_cycle", ["ListData", "heap_copy_impl", "AValueArray"], "x = [%V]\nx.append(x)\ny = [x, x]\nx = None\n" + PAD + "emit(repr(y))\nemit(y[0][1] == y[1])\ny[0].append(5)\nemit(repr(y[1]))\n"),
    ("tuple_element", ["AValueTuple"], "x = (%V, [%V])\n" + PAD + "emit(repr(x))\n"),
    ("tuple_cycle", ["AValueTuple", "heap_copy_impl"], "l = [1]\nx = (l, %V)\nl.append(x)\nl = None\n" + PAD + "emit(repr(x))\nemit(repr(x[0][1][1]))\n"),
    ("dict_value", ["Dict", "DictGen", "SmallMap"], "x = {\"a\": %V, \"b\": %V}\n" + PAD + "emit(repr(x))\nemit(repr(x[\"b\"]))\n"),
    ("dict_key", ["Dict", "DictGen", "SmallMap"], "x = {(\"k\" + str(1), (1 << 80) + 1): 1, (\"tk\" + str(2), 3): %V}\n" + PAD + "emit(repr(x))\nemit(repr(x.keys()))\nemit(x[(\"k1\", (1 << 80) + 1)])\n"),
    ("dict_self_cycle", ["Dict", "heap_copy_impl"], "x = {}\nx[\"self\"] = x\nx[\"v\"] = %V\ny = [x]\nx = None\n" + PAD + "emit(repr(y))\nemit(repr(y[0][\"self\"][\"v\"]))\n"),
    ("set_element", ["SetData", "SetGen"], "x = set([\"se\" + str(1), (1 << 70) + 2, (\"a\" + str(3), 4)])\n" + PAD + "emit(repr(x))\nemit((\"se1\") in x)\n"),
    ("struct_field", ["Struct"], "x = struct(a = %V, b = struct(c = %V))\n" + PAD + "emit(repr(x))\nemit(repr(x.b.c))\n"),
    ("record_field", ["Record", "RecordTypeGen", "Field"], "R = record(p = typing.Any, q = field(typing.Any, %V))\nx = R(p = %V)\ny = R(p = 1, q = %V)\n" + PAD + "emit(repr(x))\nemit(repr(y.q))\nemit(repr(R(p = 2).q))\n"),
    ("enum_value", ["EnumValue", "EnumTypeGen"], "E = enum(\"e\" + str(1), \"e\" + str(2), \"longer enum element \" + str(3))\nx = [E(\"e1\"), E[2]]\n" + PAD + "emit(repr(x))\nemit(x[1].value)\nemit(repr([v for v in E]))\nemit(E(\"e2\").index)\n"),
    ("closure_captured", ["DefGen", "ValueCaptured"], "def mk(c):\n    def g():\n        return c\n    return g\nx = mk(%V)\ny = mk([x, %V])\n" + PAD + "emit(repr(x()))\nemit(repr(y()[1]))\nemit(repr(y()[0]()))\n"),
    ("closure_captured_cell_mutated", ["DefGen", "ValueCaptured"], "def mk():\n    c = [%V]\n    def add(v):\n        c.append(v)\n        return c\n    return add\nx = mk()\n" + PAD + "emit(repr(x(\"n\" + str(1))))\n" + PAD + "emit(repr(x(2)))\n"),
    ("default_argument", ["DefGen", "ParametersSpec", "ParameterKind", "ParametersSpecParam"], "def mk():\n    v = %V\n    def g(a = v, *, k = [v, %V]):\n        return (a, k)\n    return g\nx = mk()\n" + PAD + "emit(repr(x()))\nemit(repr(x(1)))\n"),
    ("lambda_default", ["DefGen", "ParametersSpec"], "x = [lambda y = %V: y]\n" + PAD + "emit(repr(x[0]()))\n"),
    ("bound_method_this", ["BoundMethod"], "x = [%V].append\n" + PAD + "x(%V)\n" + PAD + "emit(repr(x))\ny = (\"up\" + str(1)).upper\n" + PAD + "emit(y())\n"),
    ("partial_args", ["StarlarkAnyComplex", "Partial", "UnfrozenData"], "x = partial(lambda a, b, k = 0: [a, b, k], %V, k = %V)\n" + PAD + "emit(repr(x(1)))\nemit(repr(x))\n"),
    ("comprehension_result", ["BcFrame", "ListData"], "x = [[i, %V] for i in range(3)]\ny = {str(i): (i, %V) for i in range(2)}\n" + PAD + "emit(repr(x))\nemit(repr(y))\n"),
    ("module_slot_rebind", ["Module::trace", "MutableSlots"], "x = %V\ny = x\nx = None\n" + PAD + "emit(repr(y))\nz = [y]\ny = None\n" + PAD + "emit(repr(z))\n"),
    ("host_variable", ["Module::trace"], PAD + "emit(host_s)\nx = [host_s, host_n]\n" + PAD + "emit(repr(x))\nemit(host_s + \"!\")\n"),
    ("string_value", ["StringValueInterner", "AValueStr"], "x = \"s\" * 50 + str(7)\ny = x[3:40]\nz = {x: y}\nx = None\n" + PAD + "emit(repr(z))\nemit(y.upper())\nemit(\"abcdefgh\"[1:5] + y[:3])\n"),
    ("string_iterable", ["StringIterable"], "x = (\"chars\" + str(12)).elems()\n" + PAD + "emit(repr(list(x)))\n"),
    ("bigint_float_range", ["heap_copy_impl", "AValueSimple"], "x = [(1 << 100) + 7, 0.25 * 3, range(2, 9, 3)]\n" + PAD + "emit(repr(x))\nemit(x[0] + 1)\nemit(list(x[2]))\n"),
    ("namespace", ["Namespace", "MaybeDocHiddenValue"], "x = namespace(a = %V, b = [%V])\n" + PAD + "emit(repr(x.a))\nemit(repr(x.b))\n"),
    ("type_values", ["TypeCompiled"], "x = [eval_type(list[int]), eval_type(dict[str, typing.Any])]\nR2 = record(z = int)\n" + PAD + "emit(repr(x))\nemit(isinstance([1], x[0]))\nemit(repr(R2(z = 3)))\n"),
    ("returned_from_frames", ["BcFrame", "BcFramePtr", "CheapCallStack", "Evaluator::trace"], "def f(a):\n    loc = [a, [a]]\n    loc.append(loc)\n    return loc\nx = [f(%V), f(%V)]\n" + PAD + "emit(repr(x))\nemit(x[0][2][2][0] == x[0][0])\n"),
    ("module_loop_variable", ["BcFrame", "Evaluator::trace"], "acc = []\nfor i in [%V, %V, (\"it\" + str(3))]:\n    acc.append([i])\n    tmp = [str(j) * 30 for j in range(20)]\n" + PAD + "emit(repr(acc))\nemit(repr(i))\n"),
    ("callable_wrappers", ["StarlarkCallable", "ValueTyped", "ValueOfUncheckedGeneric"], "x = map(lambda v: [v, %V], [1, 2])\ny = filter(lambda v: v != %V, [%V, 1])\n" + PAD + "emit(repr(x))\nemit(repr(y))\n"),
]


def targeted_programs():
    out = []
    vals = fresh_values()
    for name, types, tpl in TEMPLATES:
        for rot in range(2):
            src, i = "", rot
            for piece in re.split(r"(%V)", tpl):
                if piece == "%V":
                    src += vals[i % len(vals)]
                    i += 1
                else:
                    src += piece
            out.append({"id": "t:%s:%d" % (name, rot), "src": src, "types": types, "stats": {"targeted": 1}})
    return out


# ---------------------------------------------------------------------------------------------------------------
# size classes: big containers that are collected while reachable and then MUTATED further and fully read back
#
# The collector copies a container's backing store into the new arena with its own idea of length / capacity (AValueArray::
# heap_copy drops the spare capacity, SmallMap keeps entries + index, strings are copied by length): a copy that advertises more
# room than it reserved is only observable when the container is used again AFTER the collection (append/extend without
# reallocation, insert into the index, ...).  Sizes straddle the thresholds found in the sources: SmallMap NO_INDEX_THRESHOLD
# (16 / 32), the list growth policy (max(len + n, 2 * len), minimum 4: powers of two), 1024-element / 4096-byte / 8 KiB-class
# boundaries of the bump allocator's chunks, and sizes in between up to 5000.

BIG_SIZES = [1000, 1023, 1024, 1025, 1100, 1500, 2000, 2047, 2048, 2049, 2500, 3000, 4095, 4096, 4097, 5000]
SMALL_SIZES = [3, 4, 5, 15, 16, 17, 31, 32, 33, 34, 63, 64, 65, 127, 128, 129, 255, 256, 257, 511, 512, 513]
SAFEPOINT_STMTS = ["sp = None", "sp = [1, 2, 3]", "sp = {\"k\": (1, 2)}", "sp = \"s\" + str(5)", "sp = (sp, 1)", "sp = len(str(sp))"]
DEFAULT_THRESHOLD_GARBAGE = "pad = []\nfor i in range(20000):\n    pad.append(i)\npad = None"


def gen_big_program(rng):
    """-> dict(src, stats, id).  One big list (ints, with the expected checksum computed here by the same operations on a Python
    list = the specification's answer), neighbours allocated before/after it, optionally further big containers (list of heap
    values, dict, set, tuple, string); statements that are only safepoints; mutations; full read-back."""
    seed = rng.getrandbits(48)
    r = random.Random(seed)
    stats = {"big_program": 1}

    def note(k):
        stats["big." + k] = stats.get("big." + k, 0) + 1

    n = r.choice(BIG_SIZES) if r.random() < 0.8 else r.choice(SMALL_SIZES)
    if r.random() < 0.2:
        n = r.randrange(1000, 5001)
    lines = ["before = [10, 20, \"b\" + str(30)]"]
    # ---- build (most ways leave spare capacity behind)
    how = r.randrange(7)
    if how == 0:
        lines.append("L = []\nfor i in range(%d):\n    L.append(i)" % n)
        py = list(range(n))
        note("build_append_loop")
    elif how == 1:
        lines.append("L = list(range(%d))" % n)
        lines.append("L.append(-1)")
        py = list(range(n)) + [-1]
        note("build_range_then_append")
    elif how == 2:
        lines.append("L = [i * 3 for i in range(%d)]" % n)
        lines.append("L += [7, 8]")
        py = [i * 3 for i in range(n)] + [7, 8]
        note("build_comprehension_then_iadd")
    elif how == 3:
        lines.append("L = list(range(%d))" % (n // 2))
        lines.append("L.extend(range(%d, %d))" % (n // 2, n))
        lines.append("L.extend([5])")
        py = list(range(n)) + [5]
        note("build_extend")
    elif how == 4:
        lines.append("L = [0] * %d" % n)
        lines.append("L.append(1)")
        py = [0] * n + [1]
        note("build_repeat_then_append")
    elif how == 5:
        lines.append("def build(n):\n    l = []\n    for i in range(n):\n        l.append(i + 2)\n    return l")
        lines.append("L = build(%d)" % n)
        py = [i + 2 for i in range(n)]
        note("build_in_function")
    else:
        lines.append("L = list(range(%d))" % n)
        lines.append("L.insert(%d, -7)" % (n // 3))
        py = list(range(n))
        py.insert(n // 3, -7)
        note("build_range_then_insert")
    lines.append("after = {\"k\": [1, 2, 3], \"s\": \"a\" + str(4)}")
    # ---- further big containers
    m = r.choice(BIG_SIZES + SMALL_SIZES)
    others = []
    for kind in r.sample(["strlist", "dict", "set", "tuple", "string", "nested", "strdict"], r.randrange(1, 4)):
        others.append(kind)
        note("other_" + kind)
        if kind == "strlist":
            lines.append("SL = []\nfor i in range(%d):\n    SL.append(\"e\" + str(i))" % m)
        elif kind == "dict":
            lines.append("D = {}\nfor i in range(%d):\n    D[i] = i * 2" % m)
        elif kind == "strdict":
            lines.append("SD = {\"k\" + str(i): [i] for i in range(%d)}" % m)
        elif kind == "set":
            lines.append("S = set(range(%d))" % m)
            lines.append("S.add(-1)")
        elif kind == "tuple":
            lines.append("T = tuple(range(%d))" % m)
        elif kind == "string":
            lines.append("Z = \"ab\" * %d + str(%d)" % (m, m))
        else:
            lines.append("LL = [[i] for i in range(%d)]" % m)
            lines.append("LL.append([-1])")

    def safepoints():
        for _ in range(r.randrange(1, 6)):
            lines.append(r.choice(SAFEPOINT_STMTS))
        if r.random() < 0.3:
            lines.append(DEFAULT_THRESHOLD_GARBAGE)     # the evaluator's own threshold collects at the next statement
            note("default_threshold_garbage")
        if r.random() < 0.5:
            lines.append("emit(len(L))")

    lines.append("sp = 0")
    safepoints()
    lines.append("emit(L == %s)" % {0: "list(range(%d))" % n, 1: "list(range(%d)) + [-1]" % n, 2: "[i * 3 for i in range(%d)] + [7, 8]" % n,
                                   3: "list(range(%d)) + [5]" % n, 4: "[0] * %d + [1]" % n, 5: "[i + 2 for i in range(%d)]" % n,
                                   6: "list(range(%d)) + [-7] + list(range(%d, %d))" % (n // 3, n // 3, n)}[how])
    # ---- mutations after the collection(s)
    for _ in range(r.randrange(2, 7)):
        op = r.randrange(12)
        a = r.choice([1, 2, 3, 7, 50, 300, max(1, len(py) // 2), len(py)])
        if op <= 2:
            lines.append("for i in range(%d):\n    L.append(i + 1)" % a)
            py.extend(i + 1 for i in range(a))
            note("mut_append_loop")
        elif op == 3:
            lines.append("L.append(%d)" % a)
            py.append(a)
            note("mut_append")
        elif op == 4:
            lines.append("L.extend(range(%d))" % a)
            py.extend(range(a))
            note("mut_extend_range")
        elif op == 5:
            lines.append("L.extend([i * 2 for i in range(%d)])" % a)
            py.extend(i * 2 for i in range(a))
            note("mut_extend_list")
        elif op == 6:
            lines.append("L += list(range(%d))" % a)
            py += list(range(a))
            note("mut_iadd")
        elif op == 7 and py:
            k = r.randrange(len(py))
            lines.append("L.insert(%d, -5)" % k)
            py.insert(k, -5)
            note("mut_insert")
        elif op == 8 and py:
            if r.random() < 0.5:
                lines.append("emit(L.pop())")
                py.pop()
            else:
                k = r.randrange(len(py))
                lines.append("emit(L.pop(%d))" % k)
                py.pop(k)
            note("mut_pop")
        elif op == 9 and py:
            k = r.randrange(len(py))
            lines.append("L[%d] = 9" % k)
            py[k] = 9
            note("mut_setitem")
        elif op == 10 and py:
            lines.append("L.append(L[0])\nL.append(len(L))")
            py.append(py[0])
            py.append(len(py))
            note("mut_append_own_element")
        else:
            lines.append("L2 = L[:]\nL2.append(4)\nemit(len(L2))\nL2 = None")
            note("mut_copy_then_append")
        if "strlist" in others and r.random() < 0.5:
            lines.append("for i in range(%d):\n    SL.append(\"late\" + str(i))" % a)
        if "dict" in others and r.random() < 0.5:
            lines.append(r.choice(["D[%d] = \"new\"" % (m + a), "D.pop(%d, None)" % (a % max(m, 1)), "D.update({%d: [1], -1: 2})" % (m + 7),
                                   "for i in range(%d):\n    D[-2 - i] = i" % min(a, 300)]))
        if "strdict" in others and r.random() < 0.5:
            lines.append(r.choice(["SD[\"late\" + str(%d)] = [0]" % a, "SD.pop(\"k\" + str(%d), None)" % (a % max(m, 1)),
                                   "SD[\"k\" + str(%d)].append(\"x\")" % (a % max(m, 1)) if m else "SD[\"z\"] = 1"]))
        if "set" in others and r.random() < 0.5:
            lines.append(r.choice(["S.add(%d)" % (m + a), "S.discard(%d)" % (a % max(m, 1)), "S.update([%d, %d])" % (m + 1, m + 2)]))
        if "nested" in others and r.random() < 0.5:
            lines.append("LL[%d].append(\"in\" + str(%d))\nLL.append([%d])" % (a % (m + 1), a, a))
        if "tuple" in others and r.random() < 0.3:
            lines.append("T = T + (%d, \"t\" + str(%d))" % (a, a))
        if "string" in others and r.random() < 0.3:
            lines.append("Z = Z + \"z\" * %d" % (a % 40))
        if r.random() < 0.6:
            safepoints()
    # ---- read-back
    exp_len, exp_sum = len(py), sum((i + 1) * v for i, v in enumerate(py))
    lines.append("emit(len(L))")
    lines.append("tot = 0\nfor i, v in enumerate(L):\n    tot += (i + 1) * v")
    lines.append("emit(tot)")
    lines.append("emit([\"spec\", len(L) == %d, tot == %d])" % (exp_len, exp_sum))
    lines.append("emit(L[:3] + L[-3:])")
    lines.append("emit(L == [v for v in L] and [v for v in L] == L)")
    lines.append("emit([before, after])")
    for kind in others:
        if kind == "strlist":
            lines.append("emit([len(SL), len(\",\".join(SL)), SL[:2], SL[-2:], SL[len(SL) // 2]])")
        elif kind == "dict":
            lines.append("dt = 0\nfor k, v in D.items():\n    dt += k * 7 + (v if type(v) == \"int\" else 1)")
            lines.append("emit([len(D), dt, D.get(0), D.get(%d), list(D.keys())[-3:]])" % (m - 1))
        elif kind == "strdict":
            lines.append("emit([len(SD), SD.get(\"k0\"), SD.get(\"k\" + str(%d)), len(\"\".join(SD.keys())), list(SD.items())[-2:]])" % (m - 1))
            lines.append("emit(all([(\"k\" + str(i)) in SD or i < 400 for i in range(400, %d)]))" % m)
        elif kind == "set":
            lines.append("st = 0\nfor v in S:\n    st += v")
            lines.append("emit([len(S), st, -1 in S, %d in S, sorted(S)[:3]])" % (m - 1))
        elif kind == "tuple":
            lines.append("tt = 0\nfor v in T:\n    tt += (v if type(v) == \"int\" else 1)")
            lines.append("emit([len(T), tt, T[-2:], T[:%d] == tuple(range(%d))])" % (m, m))
        elif kind == "string":
            lines.append("emit([len(Z), Z.count(\"a\"), Z[%d:%d], Z[-5:], Z.startswith(\"ab\" * %d)])" % (m, m + 6, m))
        else:
            lines.append("emit([len(LL), len([y for x in LL for y in x]), LL[0], LL[-1], LL[len(LL) // 2]])")
    return {"id": "b%d" % seed, "src": "\n".join(lines) + "\n", "stats": stats, "big": True}


BIG_TEMPLATES = [
    # hand-written: the shape of a build file that accumulates a big list across many top-level statements
    ("big_list_append_after_gc",
     "before = [10, 20, 30]\nbig = list(range(%N))\nbig.append(-1)\nafter = [40, 50, 60]\n" + DEFAULT_THRESHOLD_GARBAGE + "\nmid = [\"m\", \"i\", \"d\"]\n"
     "for i in range(300):\n    big.append(i)\ntail = {\"k\": [1, 2, 3]}\ntotal = 0\nfor v in big:\n    total += v\n"
     "emit([len(big), total, big[%N:%N + 3], before, after, mid, tail])\n"),
    ("big_list_grown_statement_by_statement",
     "acc = []\n" + "".join("acc.extend(range(%d, %d))\nemit(len(acc))\n" % (i * 700, (i + 1) * 700) for i in range(6)) +
     "acc.append(\"end\")\nemit(acc[:4200] == list(range(4200)))\nemit(acc[-2:])\n"),
    ("big_dict_grown_statement_by_statement",
     "d = {}\n" + "".join("for i in range(%d, %d):\n    d[\"k\" + str(i)] = [i]\nemit(len(d))\n" % (i * 600, (i + 1) * 600) for i in range(5)) +
     "d.pop(\"k7\")\nd[\"k7\"] = \"again\"\nemit([d[\"k0\"], d[\"k2999\"], d[\"k7\"], list(d.keys())[-1], len(d)])\n"),
]


def big_programs(ctx, n):
    out = []
    for name, tpl in BIG_TEMPLATES:
        for size in ((1500, 1024) if "%N" in tpl else (0,)):
            out.append({"id": "bt:%s:%d" % (name, size), "src": tpl.replace("%N", str(size)), "stats": {"big_template": 1}, "big": True})
    return out + [gen_big_program(ctx.rng) for _ in range(n)]


# ---------------------------------------------------------------------------------------------------------------
# roots reachable only through host APIs: the heap's string interner (Heap::alloc_str_intern), Module::extra_value
#
# Programs run with the natives intern(s) / same(a, b) / set_extra(v) / get_extra() of the harness (globals_with_host_api) and
# intern the same and different texts before and after collections: interned strings must keep their content, equal texts
# must stay the same object / equal / hash-equal, dict lookups with them must work - under every schedule, with the embedder's
# extra_value unset (the default) and set.

INTERN_TEXTS = ['"ik%d"' % i for i in range(6)] + ['"an interned text that is longer than the others %d"' % i for i in range(2)] + \
               ['("rt" + str(%d))' % i for i in range(5)] + ['""', '"a"', '"\\u00e9\\u2713 text"', '("x" * 300)']
INTERN_PADS = ["_p = [str(i) * 3 for i in range(40)]", "_p = None", "_p = {str(i): [i] for i in range(20)}", "_p = \"pad\" + str(1)",
               DEFAULT_THRESHOLD_GARBAGE]


def gen_intern_program(rng):
    seed = rng.getrandbits(48)
    r = random.Random(seed)
    stats = {"intern_program": 1}

    def note(k):
        stats["intern." + k] = stats.get("intern." + k, 0) + 1

    lines = ["d = {}", "def via_def(t):\n    return intern(t)"]
    held = {}          # var -> text expression
    dict_keys = []
    k = 0
    many = None

    def pads():
        for _ in range(r.randrange(0, 4)):
            lines.append(r.choice(INTERN_PADS[:4]) if r.random() < 0.9 else INTERN_PADS[4])

    for _ in range(r.choice([6, 10, 16, 24])):
        c = r.randrange(13)
        if c <= 2 or not held:
            k += 1
            t = r.choice(INTERN_TEXTS)
            lines.append(r.choice(["i%d = intern(%s)", "i%d = via_def(%s)"]) % (k, t))
            held["i%d" % k] = t
            note("intern")
        elif c == 3:
            v = r.choice(list(held))
            lines.append("emit([same(%s, intern(%s)), %s == intern(%s), hash(%s) == hash(%s), %s])" % (v, held[v], v, held[v], v, held[v], v))
            note("reintern_same_text")
        elif c == 4:
            v, w = r.choice(list(held)), r.choice(list(held))
            lines.append("emit([same(%s, %s), %s == %s, %s + \"|\" + %s, len(%s)])" % (v, w, v, w, v, w, v))
            note("compare_two")
        elif c == 5:
            t = r.choice(INTERN_TEXTS)
            lines.append("d[intern(%s)] = %d" % (t, k))
            dict_keys.append(t)
            note("dict_key_interned")
        elif c == 6 and dict_keys:
            t = r.choice(dict_keys)
            lines.append("emit([d[intern(%s)], d.get(%s), intern(%s) in d, repr(d)])" % (t, t, t))
            note("dict_lookup")
        elif c == 7:
            v = r.choice(list(held))
            t = held.pop(v)
            lines.append("%s = None" % v)            # the interner still holds the string
            pads()
            k += 1
            lines.append("i%d = intern(%s)" % (k, t))
            lines.append("emit([i%d, i%d == %s, same(i%d, intern(%s))])" % (k, k, t, k, t))
            held["i%d" % k] = t
            note("drop_then_reintern")
        elif c == 8 and many is None:
            many = r.choice([10, 40, 200, 700])
            lines.append("many = [intern(\"m\" + str(i)) for i in range(%d)]" % many)
            note("many_interned")
        elif c == 9 and many is not None:
            lines.append("emit([all([same(many[i], intern(\"m\" + str(i))) for i in range(%d)]), many[0], many[-1], len(\"\".join(many))])" % many)
            note("many_reinterned")
        elif c == 10:
            v = r.choice(list(held))
            lines.append("emit([%s.upper(), %s[:5], %s * 2 == intern(%s) + %s, {%s: 1}.get(%s)])" % (v, v, v, held[v], v, v, held[v]))
            note("use_content")
        elif c == 11 and r.random() < 0.35:
            v = r.choice(list(held))
            lines.append("set_extra([%s, \"extra\" + str(%d), intern(\"only in extra %d\")])" % (v, k, k))
            lines.append("emit(repr(get_extra()))")
            note("set_extra_from_native")
        else:
            lines.append("emit(repr(get_extra()))")
            note("get_extra")
        pads()
    for v in sorted(held):
        lines.append("emit([%s, same(%s, intern(%s)), %s == %s])" % (v, v, held[v], v, held[v]))
    for t in dict_keys[:6]:
        lines.append("emit(d[intern(%s)])" % t)
    lines.append("emit(repr(get_extra()))")
    return {"id": "i%d" % seed, "src": "\n".join(lines) + "\n", "stats": stats}


INTERN_TEMPLATES = [
    ("intern_same_text_across_one_gc",
     "a = intern(\"interned-key-0123456789\")\n" + DEFAULT_THRESHOLD_GARBAGE + "\nb = intern(\"interned-key-0123456789\")\n"
     "emit([same(a, b), a == b, a + \"|\" + b, hash(a) == hash(b)])\n"),
    ("intern_dict_key_across_gc",
     "d = {intern(\"k\" + str(1)): 1, intern(\"k2\"): 2}\n_p = [str(i) for i in range(50)]\n_p = None\n"
     "emit([d[intern(\"k1\")], d[\"k2\"], d.get(intern(\"k3\")), same(list(d.keys())[0], intern(\"k1\"))])\n"
     "d[intern(\"k3\")] = 3\n_p = 1\nemit([repr(d), same(list(d.keys())[2], intern(\"k\" + str(3)))])\n"),
    ("intern_dropped_then_again",
     "a = intern(\"dropped \" + str(1))\na = None\n_p = [1]\n_p = None\nb = intern(\"dropped 1\")\n_p = 2\nc = intern(\"dropped 1\")\n"
     "emit([b, c, same(b, c), b == \"dropped 1\"])\n"),
]


def intern_programs(ctx, n):
    """every program twice: module without extra_value (the default) and with an embedder-set extra_value"""
    base = [{"id": "it:%s" % name, "src": src, "stats": {"intern_template": 1}} for name, src in INTERN_TEMPLATES]
    base += [gen_intern_program(ctx.rng) for _ in range(n)]
    out = []
    for p in base:
        out.append(dict(p, opts={"host_api": True}))
        out.append(dict(p, id=p["id"] + ":extra", opts={"host_api": True, "extra_value": "embedder extra value"}, stats={"intern_with_extra_value": 1}))
    return out


# ---------------------------------------------------------------------------------------------------------------
# running

def garbled(result):
    """0xDB poison bytes (as Latin-1 / lone surrogates / replacement characters) or an unparsable result line"""
    if isinstance(result, dict) and "unparsable" in result:
        return True
    s = json.dumps(result, ensure_ascii=False)
    return ("\u00db\u00db" in s) or ("\ufffd\ufffd" in s) or ("\\udbdb" in json.dumps(result))


def rerun_single(ctx, bin_name, cases, idxs, timeout=120):
    """re-run the cases whose result is missing one per process -> {idx: (rc, result)}"""
    out = {}

    def one(i):
        rc, log, res = sv.run_harness(ctx, bin_name, [cases[i]], tag="single%d" % i, timeout=timeout)
        return i, rc, res[0], log[-300:]

    with concurrent.futures.ThreadPoolExecutor(max_workers=sv.NPROC) as ex:
        for i, rc, r, log in ex.map(one, idxs):
            out[i] = (rc, r, log)
    return out


def run_all(ctx, bin_name, cases, timeout=900, single_timeout=120):
    """sharded run; results missing because a shard died are recovered: first by re-running the missing cases in many small
    shards, then case by case (one process each), which names the offending case(s).
    -> results (None where unknown), crashes {idx: (rc, log)} for the cases on which the process died when run alone"""
    rc, log, res = sv.run_harness_sharded(ctx, bin_name, cases, timeout=timeout)
    crashes = {}
    missing = [i for i, r in enumerate(res) if r is None]
    if missing:
        ctx.log("%s: %d results missing (rc=%s) -> re-running in small shards, then case by case" % (bin_name, len(missing), rc))
        for _ in range(2):
            if len(missing) <= 48:
                break
            sub = [cases[i] for i in missing]
            _, _, r2 = sv.run_harness_sharded(ctx, bin_name, sub, shards=min(len(sub), 64), timeout=timeout)
            for i, r in zip(missing, r2):
                if r is not None:
                    res[i] = r
            missing = [i for i in missing if res[i] is None]
        single = rerun_single(ctx, bin_name, cases, missing[:240], timeout=single_timeout)
        for i, (rc1, r1, l1) in single.items():
            if r1 is None or rc1 != 0:
                crashes[i] = (rc1, l1)
            else:
                res[i] = r1
    return res, crashes


def sched_differential(ctx, programs, extra_opts=None, timeout=900, single_timeout=120):
    cases, index = [], []
    for pi, p in enumerate(programs):
        for sname, sopts in SCHEDULES:
            o = {"poison": True, "set_vars": HOST_VARS}
            o.update(sopts)
            o.update(extra_opts or {})
            o.update(p.get("opts", {}))
            cases.append({"src": p["src"], "opts": o})
            index.append((pi, sname))
    res, crashes = run_all(ctx, "eval", cases, timeout=timeout, single_timeout=single_timeout)
    failures = []
    st = {"programs": len(programs), "runs": len(cases), "agree": 0, "forced": 0, "safepoints": 0, "failing_outcomes": 0,
          "tr_items": 0, "default_threshold_collections_unknown": True, "forced_by_schedule": {}}
    per = {}
    for ci, (pi, sname) in enumerate(index):
        per.setdefault(pi, {})[sname] = (ci, res[ci])
    for pi, p in enumerate(programs):
        runs = per[pi]
        bad = False
        if any(r is None and ci not in crashes for ci, r in runs.values()):
            st["unknown_after_shard_death"] = st.get("unknown_after_shard_death", 0) + 1
            continue
        # the evaluator panics with the same message under EVERY schedule, GC disabled included (no collection ever runs there): the
        # program behaves identically with and without collections, which is what C03 states; the panic itself is C07's business
        # (e.g. the `len overflow` assertion of StarlarkStr::new on a string of 4 GiB, reached by a recursion that doubles a string)
        msgs = {str(r.get("panic")) if (r is not None and ci not in crashes and "panic" in r) else None for ci, r in runs.values()}
        if len(msgs) == 1 and None not in msgs and "nogc" in runs:
            st["same_panic_under_every_schedule"] = st.get("same_panic_under_every_schedule", 0) + 1
            ctx.log("NOTE program %s panics identically under every schedule incl. GC disabled (%s): not a GC effect, see C07"
                    % (p["id"], list(msgs)[0][:80]))
            continue
        for sname, (ci, r) in runs.items():
            if ci in crashes:
                rc, log = crashes.get(ci, (None, ""))
                failures.append({"key": "crash", "what": "program %s under schedule %s with poisoning: the evaluator process died (rc=%s %s) - "
                                 "a live value was lost/corrupted by a collection" % (p["id"], sname, rc, log.strip()[-120:]),
                                 "replay": {"src": p["src"], "schedule": sname, "opts": cases[ci]["opts"], "rc": rc}})
                bad = True
            elif "panic" in r:
                failures.append({"key": "panic", "what": "program %s under schedule %s: panic %s" % (p["id"], sname, str(r["panic"])[:200]),
                                 "replay": {"src": p["src"], "schedule": sname, "opts": cases[ci]["opts"], "impl": r}})
                bad = True
            elif garbled(r) or "steps" not in r:
                failures.append({"key": "garbled", "what": "program %s under schedule %s: poison pattern / invalid text in the transcript"
                                 % (p["id"], sname), "replay": {"src": p["src"], "schedule": sname, "opts": cases[ci]["opts"], "impl": r.get("steps", r)}})
                bad = True
        if bad:
            continue
        ref = runs["nogc"][1]
        view = lambda r: [(s["tr"], s["out"]) for s in r["steps"]]   # noqa: E731
        same = True
        for sname, (ci, r) in runs.items():
            if sname.startswith("k"):
                k = int(sname[1:])
                sp, forced = r["gc"]
                st["forced"] += forced
                st["safepoints"] += sp
                st["forced_by_schedule"][sname] = st["forced_by_schedule"].get(sname, 0) + forced
                if forced != sp // k:
                    failures.append({"key": "hook-count", "what": "program %s schedule %s: %d safepoints but %d forced collections (expected %d)"
                                     % (p["id"], sname, sp, forced, sp // k), "replay": {"src": p["src"], "schedule": sname}})
            if view(r) != view(ref):
                same = False
                a, b = view(ref), view(r)
                k = 0
                ta, tb = a[0][0], b[0][0]
                while k < min(len(ta), len(tb)) and ta[k] == tb[k]:
                    k += 1
                failures.append({"key": "schedule-diff", "what": "program %s: transcript/outcome under schedule %s differs from GC disabled: "
                                 "equal for %d items, then nogc=%s %s | %s=%s %s" % (p["id"], sname, k, ta[k:k + 1], json.dumps(a[0][1])[:200],
                                                                                    sname, tb[k:k + 1], json.dumps(b[0][1])[:200]),
                                 "replay": {"src": p["src"], "schedule": sname, "opts": cases[ci]["opts"], "nogc": ref["steps"], "impl": r["steps"]}})
                break
        if same and p.get("big"):
            # the specification's answer (length and position-weighted checksum computed by the generator on a Python list)
            spec = [t for s in ref["steps"] for t in s["tr"] if t.startswith('["spec"')]
            if spec and spec != ['["spec",True,True]']:
                same = False
                failures.append({"key": "big-spec", "what": "program %s: length / checksum of the big list after the mutations differ from the "
                                 "specification's (computed on a Python list) under every schedule: %s" % (p["id"], spec),
                                 "replay": {"src": p["src"], "schedule": "nogc", "impl": ref["steps"]}})
        if same:
            st["agree"] += 1
            st["tr_items"] += sum(len(s["tr"]) for s in ref["steps"])
            if any("err" in s["out"] for s in ref["steps"]):
                st["failing_outcomes"] += 1
    return failures, st


# ---- configuration x schedule x post-evaluation differential ----------------------------------------------------------
#
# "the observable behaviour does not depend on whether, when or how often the heap is collected" quantifies over every
# evaluator configuration and over everything an embedder can observe AFTER the evaluation as well: for every program and
# every (profile mode, statement hook) configuration the transcript, the outcome of every evaluated module, the statements
# seen by the hook, the module's variables, "profile data can be generated", the result of Module::freeze(), the frozen
# exports and "the retained heap profile of the frozen module can be generated" must be the same under every GC schedule.
# Mechanism asserted directly (requirement 1 in the comment above possible_gc): the heap profilers keep their call-enter /
# call-exit records as unreachable heap values in allocation order, so NO collection may run under a heap-profile mode.

PROFILE_MODES = ["heap-summary-allocated", "heap-summary-retained", "heap-flame-allocated", "heap-flame-retained", "heap-allocated",
                 "heap-retained", "statement", "coverage", "bytecode", "bytecode-pairs", "time-flame", "typecheck"]
HEAP_PROFILE_MODES = frozenset(m for m in PROFILE_MODES if m.startswith("heap-"))
CONFIGS = [(mode, hook) for mode in [None] + PROFILE_MODES for hook in (False, True)]
# "k0" = the evaluator's own threshold (collections happen when a program allocates > 100KB between two safepoints)
CFG_SCHEDULES = [("nogc", {"disable_gc": True}), ("k0", {"gc_every": 0}), ("k1", {"gc_every": 1}), ("k2", {"gc_every": 2}),
                 ("k7", {"gc_every": 7})]
ENC_COST_LIMIT = 4000

_NAME = re.compile(r"[A-Za-z_]\w*")


def enc_cost(lines, depth=24):
    """Upper bound (name granularity, over-approximating: every identifier mentioned in a statement is taken as linked into
    the statement's first identifier) of the number of nodes the harness' sharing-insensitive, depth-24 encoding of all module variables
    visits.  Programs whose container graph has two back edges in one cycle would make the frozen-exports encoding explode."""
    rep = {}

    def find(x):
        while rep.get(x, x) != x:
            x = rep[x]
        return x

    raw = []
    for line in lines:
        if line.startswith("emit("):
            continue
        ns = _NAME.findall(line)
        if not ns:
            continue
        m = re.match(r"([A-Za-z_]\w*) = ([A-Za-z_]\w*)$", line)
        if m and m.group(2) not in ("None", "True", "False"):
            if find(m.group(1)) != find(m.group(2)):
                rep[find(m.group(1))] = find(m.group(2))      # alias: the same object
            continue
        for y in ns[1:]:
            raw.append((ns[0], y))
    edges = {}
    for x, y in raw:
        edges.setdefault(find(x), []).append(find(y))
    nodes = set(edges) | {y for ys in edges.values() for y in ys}
    cost = {n: 1 for n in nodes}
    for _ in range(depth):
        cost = {n: min(10 ** 9, 1 + sum(cost[y] for y in edges.get(n, []))) for n in nodes}
    return sum(cost.values())


GARBAGE_STMTS = ["_tmp = list(range(1000))", "_tmp = [str(i) * 20 for i in range(200)]", "_tmp = make_table(60, \"garbage\")",
                 "_tmp = {str(i): [i] * 30 for i in range(60)}"]


def gen_post_program(rng):
    """Programs shaped like what a profiled build file does: functions calling functions that allocate the values the module
    retains, natives, closures, records, plus statements that only produce garbage - in the `heavy` variant enough of it
    (several 100KB) that the evaluator's own threshold triggers collections without any forcing.  The read-back of every
    variable is a second module evaluated by the same evaluator (`then`)."""
    seed = rng.getrandbits(48)
    r = random.Random(seed)
    heavy = r.random() < 0.4
    lines = ["def make_row(i, tag):\n    return [i, i + 1, tag + str(i)]",
             "def make_table(n, tag):\n    return [make_row(i, tag) for i in range(n)]",
             "def make_index(t):\n    idx = {}\n    for row in t:\n        idx[row[2]] = row\n    return idx",
             "def wrap(v):\n    def get(extra = None):\n        return [v, extra]\n    return get",
             "def deep(n, acc):\n    if n == 0:\n        return acc\n    return deep(n - 1, [acc, \"d\" + str(n)])"]
    live, stats = [], {"post_program": 1, "post_heavy": int(heavy)}
    k = 0

    def note(s):
        stats["post." + s] = stats.get("post." + s, 0) + 1

    def garbage():
        for _ in range(r.randrange(8, 30) if heavy else r.randrange(0, 3)):
            lines.append(r.choice(GARBAGE_STMTS))
            note("garbage_stmt")

    for _ in range(r.randrange(4, 12)):
        k += 1
        c = r.randrange(10)
        tables = [n for n, kind in live if kind == "table"]
        if c <= 1 or not tables:
            n = "T%d" % k
            lines.append("%s = make_table(%d, \"t%d_\")" % (n, r.randrange(1, 12), k))
            live.append((n, "table"))
            note("table_from_nested_calls")
        elif c == 2:
            n = "I%d" % k
            lines.append("%s = make_index(%s)" % (n, r.choice(tables)))
            live.append((n, "index"))
            note("dict_sharing_rows")
        elif c == 3:
            n = "W%d" % k
            lines.append("%s = wrap(%s)" % (n, r.choice(tables)))
            live.append((n, "fn"))
            note("closure_over_table")
        elif c == 4:
            n = "S%d" % k
            t = r.choice(tables)
            lines.append(r.choice(["%s = struct(t = %s, n = len(%s))", "%s = Rec(x = %s, y = len(%s))"]) % (n, t, t))
            live.append((n, "other"))
            note("struct_or_record")
        elif c == 5:
            t = r.choice(tables)
            lines.append("%s.append(make_row(%d, \"late\"))" % (t, 90 + k))
            note("mutation_after_garbage")
        elif c == 6:
            n = "D%d" % k
            lines.append("%s = deep(%d, %s)" % (n, r.randrange(1, 9), r.choice(['"leaf"', "[host_s]", "(1 << 80)"])))
            live.append((n, "other"))
            note("recursion")
        elif c == 7 and len(live) > 1:
            n, _ = live.pop(r.randrange(len(live)))
            lines.append("%s = None" % n)
            note("drop_reference")
        elif c == 8:
            n = "M%d" % k
            lines.append("%s = sorted([make_row(j, \"s\") for j in range(%d)], key = lambda row: -row[0])" % (n, r.randrange(1, 6)))
            live.append((n, "table"))
            note("native_calling_back")
        else:
            t = r.choice(tables)
            lines.append("emit(repr(%s[-1]))" % t)
            note("emit_between")
        garbage()
    lines.append("_tmp = None")
    then = []
    for n, kind in live:
        then.append("emit(repr(%s()))" % n if kind == "fn" else "emit(repr(%s))" % n)
    for n, kind in live:
        if kind == "table":
            then.append("%s.append(len(%s))\nemit(len(%s))" % (n, n, n))
            break
    return {"id": "p%d" % seed, "src": PREAMBLE + "\n".join(lines) + "\n", "then": ["\n".join(then) + "\n"], "stats": stats}


def gen_config_gc_program(rng):
    """a GcGen program (cycles, aliases, closures, ...) whose final read-back is a second module; bounded encoding cost"""
    while True:
        seed = rng.getrandbits(48)
        r = random.Random(seed)
        g = GcGen(r, r.choice([10, 16, 24]), link_budget=6)
        lines = list(g.program())
        if enc_cost(lines) > ENC_COST_LIMIT:
            continue
        keep = len(g.lines)
        for n in sorted(g.vars):
            g.emit_var(n)
        then = g.lines[keep:]
        stats = dict(g.stats)
        stats["config_gc_program"] = 1
        return {"id": "c%d" % seed, "src": PREAMBLE + "\n".join(lines[:keep]) + "\n", "then": ["\n".join(then) + "\n"] if then else [],
                "stats": stats}


def config_programs(ctx, corpus_sched):
    out = []
    for p in corpus_sched:
        if "opts" not in p and enc_cost(p["src"].split("\n")) <= ENC_COST_LIMIT:
            out.append(p)
    out += targeted_programs()
    out += [gen_post_program(ctx.rng) for _ in range(ctx.n(36, 400))]
    out += [gen_config_gc_program(ctx.rng) for _ in range(ctx.n(24, 300))]
    for _ in range(ctx.n(12, 150)):
        seed = ctx.rng.getrandbits(48)
        p = progs.generate(seed, max_stmts=18, max_depth=3, p_fail=0.25)
        st = {"progs_block": 1}
        st.update({"progs." + k: v for k, v in p["stats"].items()})
        out.append({"id": "m%d" % seed, "src": p["src"] + "\n", "stats": st})
    return out


def config_name(mode, hook):
    return "profile=%s stmt_hook=%s" % (mode or "none", "on" if hook else "off")


def post_view(r):
    """everything an embedder can observe during and after the evaluation (addresses and timings are not part of it)"""
    return {"steps": [[s["tr"], s["out"], s.get("stack_after")] for s in r["steps"]], "module_vars": r.get("exports"),
            "profile_generated": r.get("profile_ok"), "freeze": r.get("freeze"), "stmts_seen_by_hook": r.get("stmts"),
            "stmt_lines_seen_by_hook": r.get("stmt_lines")}


def config_differential(ctx, programs, configs=None):
    configs = list(configs or CONFIGS)
    cases, index = [], []
    for pi, p in enumerate(programs):
        for gi, (mode, hook) in enumerate(configs):
            for sname, sopts in CFG_SCHEDULES:
                o = {"poison": True, "set_vars": HOST_VARS, "exports": True, "freeze_main": True}
                if mode:
                    o["profile"] = mode
                if hook:
                    o["stmt_hook"] = True
                o.update(sopts)
                c = {"src": p["src"], "opts": o}
                if p.get("then"):
                    c["then"] = p["then"]
                cases.append(c)
                index.append((pi, gi, sname))
    res, crashes = run_all(ctx, "eval", cases, timeout=1500)
    st = {"programs": len(programs), "configurations": len(configs), "schedules": [s for s, _ in CFG_SCHEDULES], "runs": len(cases),
          "program_configs_identical": 0, "forced": 0, "safepoints": 0, "forced_under_heap_profile": 0, "frozen_ok": 0, "freeze_err": 0,
          "frozen_values_compared": 0, "retained_profiles_generated": 0, "profiles_generated": 0, "failing_outcomes": 0,
          "hook_statements": 0, "by_mode": {}}
    per = {}
    for ci, (pi, gi, sname) in enumerate(index):
        per.setdefault((pi, gi), {})[sname] = (ci, res[ci])
    failures = []
    for (pi, gi), runs in per.items():
        p, (mode, hook) = programs[pi], configs[gi]
        cfg = config_name(mode, hook)

        def rep(ci, sname, **kw):
            d = {"kind": "config", "src": p["src"], "then": p.get("then", []), "profile": mode, "stmt_hook": hook, "schedule": sname,
                 "opts": cases[ci]["opts"]}
            d.update(kw)
            return d

        if any(r is None and ci not in crashes for ci, r in runs.values()):
            st["unknown_after_shard_death"] = st.get("unknown_after_shard_death", 0) + 1
            continue
        bad = False
        for sname, (ci, r) in runs.items():
            if ci in crashes:
                rc, log = crashes[ci]
                failures.append({"key": "cfg-crash", "what": "program %s, configuration [%s], schedule %s, evaluate + freeze: the process died (rc=%s %s)"
                                 % (p["id"], cfg, sname, rc, log.strip()[-120:]), "replay": rep(ci, sname, rc=rc)})
                bad = True
            elif "panic" in r:
                others = sorted(s for s, (_, r2) in runs.items() if r2 is not None and "panic" not in r2)
                failures.append({"key": "cfg-panic", "what": "program %s, configuration [%s], schedule %s: panic during evaluate / freeze / reading the "
                                 "frozen module back: %s (no panic under schedules %s)" % (p["id"], cfg, sname, str(r["panic"])[:160], others),
                                 "replay": rep(ci, sname, impl=r)})
                bad = True
            elif garbled(r) or "steps" not in r:
                failures.append({"key": "cfg-garbled", "what": "program %s, configuration [%s], schedule %s: poison pattern / invalid text in the results"
                                 % (p["id"], cfg, sname), "replay": rep(ci, sname, impl=r if "steps" not in r else post_view(r))})
                bad = True
            else:
                sp, forced = r["gc"]
                if sname != "nogc":
                    st["forced"] += forced
                    st["safepoints"] += sp
                if sname in ("k1", "k2", "k7"):
                    k = int(sname[1:])
                    if mode in HEAP_PROFILE_MODES:
                        st["forced_under_heap_profile"] += forced
                        if forced:
                            failures.append({"key": "gc-under-heap-profile", "what": "program %s, configuration [%s], schedule %s: %d collections "
                                             "were performed at %d safepoints although a heap profile is being recorded (the profilers keep call "
                                             "records as unreachable heap values; possible_gc requirement 1: no GC while profiling)"
                                             % (p["id"], cfg, sname, forced, sp), "replay": rep(ci, sname, gc=[sp, forced])})
                            bad = True
                    elif forced != sp // k:
                        failures.append({"key": "cfg-hook-count", "what": "program %s, configuration [%s], schedule %s: %d safepoints but %d forced "
                                         "collections (expected %d)" % (p["id"], cfg, sname, sp, forced, sp // k),
                                         "replay": rep(ci, sname, gc=[sp, forced])})
        if bad:
            continue
        same = True
        ref = post_view(runs["nogc"][1])
        for sname, (ci, r) in runs.items():
            v = post_view(r)
            if v != ref:
                same = False
                part = next(k for k in ref if ref[k] != v[k])
                failures.append({"key": "cfg-schedule-diff:" + part, "what": "program %s, configuration [%s]: %s under schedule %s differs from "
                                 "GC disabled: nogc=%s | %s=%s" % (p["id"], cfg, part, sname, json.dumps(ref[part])[:220], sname,
                                                                   json.dumps(v[part])[:220]),
                                 "replay": rep(ci, sname, differs=part, nogc=ref, impl=v)})
                break
        if not same:
            continue
        st["program_configs_identical"] += 1
        r = runs["nogc"][1]
        bm = st["by_mode"].setdefault(mode or "none", {"identical": 0, "forced": 0})
        bm["identical"] += 1
        bm["forced"] += sum(rr["gc"][1] for s, (_, rr) in runs.items() if s != "nogc")
        fz = r.get("freeze") or {}
        if "ok" in fz:
            st["frozen_ok"] += 1
            st["frozen_values_compared"] += len(fz["ok"])
            if fz.get("heap_profile") is True:
                st["retained_profiles_generated"] += 1
        else:
            st["freeze_err"] += 1
        if r.get("profile_ok") is True:
            st["profiles_generated"] += 1
        if any("err" in s["out"] for s in r["steps"]):
            st["failing_outcomes"] += 1
        st["hook_statements"] += r.get("stmts") or 0
    return failures, st


# ---- object graph tie --------------------------------------------------------------------------------------------

def canon_graph(g):
    """harness graph -> (nodes [(tag, [ref])], roots [ref]) with ref = ('p', i) | ('i', text)"""
    nodes = [(n["t"], [tuple(r) for r in n["f"]]) for n in g["nodes"]]
    roots = [tuple(r[1]) for r in g["roots"]]
    return nodes, roots, [r[0] for r in g["roots"]]


def coq_graph_case(rng, nodes, roots):
    """renumber BEFORE at random, add garbage; -> (coq text, tag ids, leaf ids)"""
    n = len(nodes)
    ngarb = rng.randrange(0, 4)
    total = n + ngarb
    perm = list(range(total))
    rng.shuffle(perm)                       # old index i -> new index perm[i]; garbage = indices n..total-1
    tags, leaves = {}, {}

    def tid(t):
        return tags.setdefault(t, len(tags))

    def ref(r):
        if r[0] == "p":
            return "CP %d" % perm[r[1]]
        return "CI %s" % sv.zlit(leaves.setdefault(r[1], len(leaves)))

    cells = [None] * total
    for i, (t, fs) in enumerate(nodes):
        cells[perm[i]] = "(%d, [%s])" % (tid(t), "; ".join(ref(f) for f in fs))
    for j in range(n, total):
        fs = [("p", rng.randrange(total)) if rng.random() < 0.7 else ("i", "garbage") for _ in range(rng.randrange(0, 3))]
        t = rng.choice([x for x, _ in nodes]) if nodes else "list"
        cells[perm[j]] = "(%d, [%s])" % (tid(t), "; ".join(ref(f) for f in fs))
    text = "(gc_case [%s] [%s])" % ("; ".join(cells), "; ".join(ref(r) for r in roots))
    return text, tags, leaves


def expected_coq(nodes, roots, tags, leaves):
    def ref(r):
        return ["CP", r[1]] if r[0] == "p" else ["CI", leaves.get(r[1], -1)]
    return [["CC", tags.get(t, -1), [ref(f) for f in fs]] for t, fs in nodes], [ref(r) for r in roots]


def norm_coq(v):
    """parsed coq value -> comparable python"""
    ok, cells, roots = v

    def ref(r):
        return [r[0], r[1]]
    out = []
    for c in cells:
        if c == "CBad":
            out.append("CBad")
        else:
            out.append(["CC", c[1], [ref(f) for f in c[2]]])
    return ok, out, [ref(r) for r in roots]


def graph_tie(ctx, programs):
    cases = [{"src": p["src"], "drop": p.get("drop", ""), "then": p.get("then", ""), "opts": p["opts"]} for p in programs]
    res, crashes = run_all(ctx, "gc", cases)
    failures = []
    st = {"graphs": 0, "nodes": 0, "edges": 0, "cyclic": 0, "shared": 0, "with_extra_value": 0, "model_agree": 0, "collections": 0,
          "src_failed": 0, "bytes_reclaimed": 0}
    coq_items = []
    for i, p in enumerate(programs):
        r = res[i]
        if r is None and i not in crashes:
            st["unknown_after_shard_death"] = st.get("unknown_after_shard_death", 0) + 1
            continue
        if i in crashes:
            rc, log = crashes.get(i, (None, ""))
            failures.append({"key": "crash", "what": "graph program %s: the process died around a forced collection with poisoning (rc=%s %s)"
                             % (p["id"], rc, log.strip()[-120:]), "replay": dict(cases[i], kind="graph")})
            continue
        if "panic" in r:
            failures.append({"key": "panic", "what": "graph program %s: panic %s" % (p["id"], str(r["panic"])[:200]), "replay": dict(cases[i], kind="graph")})
            continue
        if "ok" not in r["src"] or (r["drop"] and "ok" not in r["drop"]):
            st["src_failed"] += 1
            continue
        if r["forced"] < r["rounds"]:
            failures.append({"key": "hook-count", "what": "graph program %s: %d collections requested, %d forced" % (p["id"], r["rounds"], r["forced"]),
                             "replay": dict(cases[i], kind="graph")})
            continue
        if garbled(r):
            failures.append({"key": "garbled", "what": "graph program %s: poison pattern / invalid text after the collection" % p["id"],
                             "replay": dict(cases[i], kind="graph", impl=r)})
            continue
        b, a, l = canon_graph(r["before"]), canon_graph(r["after"]), canon_graph(r["last"])
        if r["then"] and "ok" not in r["then"]:
            failures.append({"key": "read-back-failed", "what": "graph program %s: reading the values back after the collection failed: %s"
                             % (p["id"], json.dumps(r["then"])[:300]), "replay": dict(cases[i], kind="graph", impl=r["then"])})
            continue
        if b != a or a != l:
            which = "before/after" if b != a else "after/after-more-collections"
            j = next((k for k in range(min(len(b[0]), len(a[0]))) if b[0][k] != (a if b != a else l)[0][k]), None)
            failures.append({"key": "graph-diff", "what": "graph program %s: object graph %s a forced collection not isomorphic (first differing node %s: %s vs %s)"
                             % (p["id"], which, j, b[0][j] if j is not None else len(b[0]), (a if b != a else l)[0][j] if j is not None else len(a[0])),
                             "replay": dict(cases[i], kind="graph", before=r["before"], after=r["after"], last=r["last"])})
            continue
        nodes, roots, names = b
        st["graphs"] += 1
        st["nodes"] += len(nodes)
        st["edges"] += sum(1 for _, fs in nodes for f in fs if f[0] == "p")
        st["collections"] += r["forced"] + r["gc"][1]
        st["bytes_reclaimed"] += max(0, r["bytes"][0] - r["bytes"][1])
        indeg = {}
        for _, fs in nodes:
            for f in fs:
                if f[0] == "p":
                    indeg[f[1]] = indeg.get(f[1], 0) + 1
        for rr in roots:
            if rr[0] == "p":
                indeg[rr[1]] = indeg.get(rr[1], 0) + 1
        if any(v > 1 for v in indeg.values()):
            st["shared"] += 1
        if any(f[0] == "p" and f[1] <= k for k, (_, fs) in enumerate(nodes) for f in fs):
            st["cyclic"] += 1       # a back/self edge in first-visit numbering (approximation: includes cross edges)
        if "<extra_value>" in names:
            st["with_extra_value"] += 1
        text, tags, leaves = coq_graph_case(ctx.rng, nodes, roots)
        coq_items.append((i, text, expected_coq(a[0], a[1], tags, leaves)))
    # the Coq collector on the BEFORE graphs
    nshard = min(4 if len(coq_items) <= 400 else 12, max(1, len(coq_items)))
    files = []
    for s in range(nshard):
        part = coq_items[s::nshard]
        if not part:
            continue
        text = ("From Coq Require Import ZArith NArith List.\nFrom SV Require Import Heap.Copy Heap.Graph Heap.Cases.\n"
                "Import ListNotations.\nOpen Scope N_scope.\n")
        # one Eval per batch of 30 graphs (the per-Eval overhead of vm_compute dominates otherwise)
        for b in range(0, len(part), 30):
            text += "Eval vm_compute in [%s].\n" % ";\n ".join(t for _, t, _ in part[b:b + 30])
        files.append(("graph_%d" % s, text))
    outs = sv.coq_eval_files(ctx, files, timeout=500) if files else []
    broken = []
    for s, (rc, out) in enumerate(outs):
        part = coq_items[s::nshard]
        vals = [v for batch in sv.coq_values(out) for v in batch]
        if rc != 0 or len(vals) != len(part):
            broken.append(("model-run", "coqc rc=%s, %d of %d values: %s" % (rc, len(vals), len(part), out[-300:])))
            continue
        for (i, text, (ecells, eroots)), v in zip(part, vals):
            ok, cells, roots = norm_coq(v)
            if ok != "true":
                broken.append(("model-input", "graph %s is not well formed for the model" % programs[i]["id"]))
            elif cells != ecells or roots != eroots:
                failures.append({"key": "model-diff", "what": "graph program %s: Coq gc applied to the BEFORE graph differs from the AFTER graph of the implementation"
                                 % programs[i]["id"], "replay": dict(cases[i], kind="graph", coq=text, model=[cells, roots], impl=[ecells, eroots])})
            else:
                st["model_agree"] += 1
    return failures, st, broken


# ---- the translator's table ---------------------------------------------------------------------------------------

def trace_table():
    p = os.path.join(sv.ROOT, "tools", "extract_items", "trace.py")
    spec = importlib.util.spec_from_file_location("c03_trace_items", p)
    m = importlib.util.module_from_spec(spec)
    spec.loader.exec_module(m)
    return m.build()


def trace_roots():
    p = os.path.join(sv.ROOT, "tools", "extract_items", "trace.py")
    spec = importlib.util.spec_from_file_location("c03_trace_items_roots", p)
    m = importlib.util.module_from_spec(spec)
    spec.loader.exec_module(m)
    return m.build_roots()


def corpus_programs():
    d = os.path.join(sv.ROOT, "corpus", "C03")
    sched, graph = [], []
    if os.path.isdir(d):
        for f in sorted(os.listdir(d)):
            if not f.endswith(".jsonl"):
                continue
            for ln, line in enumerate(open(os.path.join(d, f), encoding="utf-8")):
                line = line.strip()
                if not line or line.startswith("#"):
                    continue
                c = json.loads(line)
                c["id"] = "corpus:%s:%d" % (f, ln + 1)
                c.setdefault("stats", {"corpus": 1})
                if c.get("kind") == "graph":
                    c.setdefault("opts", {})
                    c["opts"].setdefault("set_vars", dict(HOST_VARS))
                    c["opts"].setdefault("poison", True)
                    graph.append(c)
                else:
                    sched.append(c)
    return sched, graph


def merge_stats(items):
    agg = {}
    for p in items:
        for k, v in p.get("stats", {}).items():
            agg[k] = agg.get(k, 0) + v
    return agg


def correspond(ctx):
    rows, unparsed = trace_table()
    incomplete = [(n, sorted(set(d) - set(v))) for n, d, v in rows if not set(d) <= set(v)]
    broken = []
    if incomplete:
        broken.append(("trace-table", "value-bearing fields not visited by the Trace impl: %s" % incomplete[:5]))
    if len(rows) < 30:
        broken.append(("trace-table", "only %d rows extracted (the translator no longer finds the Trace impls)" % len(rows)))
    req, calls = trace_roots()
    unvisited = [q for q in req if not any((f, r) == q and u for f, r, u in calls)]
    if unvisited or len(req) < 8:
        broken.append(("root-completeness", "tables holding heap values that the root-set functions do not trace on every path: %s "
                       "(calls in source order: %s)" % (unvisited, calls)))
    csched, cgraph = corpus_programs()
    nsched = ctx.n(1500, 12000)
    ngraph = ctx.n(80, 1600)
    programs = csched + targeted_programs() + [gen_sched_program(ctx.rng, tier_big=(not ctx.quick() and i % 4 == 0)) for i in range(nsched)]
    failures, st = sched_differential(ctx, programs)
    ctx.log("schedule differential: %d programs x %d schedules, agree=%d, forced collections=%d at %d safepoints, failing outcomes=%d"
            % (st["programs"], len(SCHEDULES), st["agree"], st["forced"], st["safepoints"], st["failing_outcomes"]))
    # a slice under the profilers whose data is traced by Evaluator::trace (TimeFlameProfile) / allocated on the heap
    prof_programs = (targeted_programs() + programs[len(csched):][-ctx.n(60, 600):])
    for mode in ("time-flame", "heap-flame-allocated"):
        f2, st2 = sched_differential(ctx, prof_programs, extra_opts={"profile": mode})
        for f in f2:
            f["what"] = "[profile=%s] %s" % (mode, f["what"])
        failures += f2
        st["profile:" + mode] = {"programs": st2["programs"], "agree": st2["agree"], "forced": st2["forced"]}
    if st["forced"] == 0:
        broken.append(("gc-hook", "no forced collection happened: the cfg(starlark_verif) safepoint hook is inactive"))
    # size classes: big containers collected while reachable, then mutated further and read back (a corrupted heap kills the process:
    # short time-outs, the offending program is named by the case-by-case re-run)
    bprogs = big_programs(ctx, ctx.n(70, 900))
    bf, bst = sched_differential(ctx, bprogs, timeout=ctx.n(60, 200), single_timeout=40)
    for f in bf:
        f["what"] = "[big containers] " + f["what"]
    failures += bf
    ctx.log("big containers: %d programs x %d schedules, agree=%d, forced collections=%d" % (bst["programs"], len(SCHEDULES), bst["agree"], bst["forced"]))
    # roots reachable only through host APIs (string interner, extra_value), module with and without an embedder extra_value
    iprogs = intern_programs(ctx, ctx.n(90, 1200))
    hf, hst = sched_differential(ctx, iprogs, timeout=ctx.n(60, 200), single_timeout=40)
    for f in hf:
        f["what"] = "[host API roots] " + f["what"]
    failures += hf
    ctx.log("host API roots (intern / extra_value): %d programs x %d schedules, agree=%d, forced collections=%d"
            % (hst["programs"], len(SCHEDULES), hst["agree"], hst["forced"]))
    if (bst["agree"] == 0 and not bf) or (hst["agree"] == 0 and not hf):
        broken.append(("new-families", "no big-container / host-API program agreed across schedules (harness natives missing?)"))
    # every (profile mode, statement hook) configuration x GC schedule, followed by Module::freeze() and reading the frozen module back
    cprogs = config_programs(ctx, csched)
    cf, cst = config_differential(ctx, cprogs)
    failures += cf
    ctx.log("configuration differential: %d programs x %d configurations x %d schedules = %d runs (evaluate, then, freeze, read back), "
            "identical=%d, forced collections=%d (under heap-profile modes: %d), frozen modules=%d, retained profiles=%d"
            % (cst["programs"], cst["configurations"], len(CFG_SCHEDULES), cst["runs"], cst["program_configs_identical"], cst["forced"],
               cst["forced_under_heap_profile"], cst["frozen_ok"], cst["retained_profiles_generated"]))
    if cst["forced"] == 0 and not cf:
        broken.append(("gc-hook", "configuration differential: no forced collection happened"))
    if cst["retained_profiles_generated"] == 0 and not cf:
        broken.append(("freeze-profile", "configuration differential: no retained heap profile was generated from a frozen module"))
    gprogs = cgraph + [gen_graph_program(ctx.rng) for _ in range(ngraph)]
    gf, gst, gbroken = graph_tie(ctx, gprogs)
    failures += gf
    broken += gbroken
    ctx.log("graph tie: %d graphs (%d nodes, %d pointer edges, %d with sharing, %d with back edges, %d with extra_value), "
            "%d collections, Coq gc agrees on %d" % (gst["graphs"], gst["nodes"], gst["edges"], gst["shared"], gst["cyclic"],
                                                     gst["with_extra_value"], gst["collections"], gst["model_agree"]))
    if gst["graphs"] and gst["model_agree"] == 0 and not gf:
        broken.append(("model-run", "no graph case was evaluated by the Coq model"))
    cov = {
        "evaluations": st["runs"] + bst["runs"] + hst["runs"] + sum(st[k]["programs"] * len(SCHEDULES) for k in st if k.startswith("profile:")) + len(gprogs) + cst["runs"],
        "distinct_nontrivial": len({p["src"] for p in programs if p["src"].count("\n") >= 10}) + gst["graphs"],
        "rule": "schedule differential: distinct program texts with at least 10 lines (each run under 6 GC schedules with arena poisoning; "
                "the configuration differential - 26 evaluator configurations x 5 schedules + freeze - is counted in evaluations only); "
                "graph tie: programs whose object graph was walked before/after forced collections and replayed on the Coq collector",
        "schedules": [s for s, _ in SCHEDULES],
        "programs": st["programs"],
        "programs_identical_across_schedules": st["agree"],
        "forced_collections": st["forced"],
        "forced_collections_by_schedule": st["forced_by_schedule"],
        "safepoints_seen": st["safepoints"],
        "failing_outcomes_compared": st["failing_outcomes"],
        "transcript_items_compared": st["tr_items"],
        "profiled_slices": {k: v for k, v in st.items() if k.startswith("profile:")},
        "big_containers": {"programs": bst["programs"], "runs": bst["runs"], "agree": bst["agree"], "forced": bst["forced"],
                           "sizes": {"big": BIG_SIZES, "small": SMALL_SIZES}, "input_distribution": merge_stats(bprogs)},
        "host_api_roots": {"programs": hst["programs"], "runs": hst["runs"], "agree": hst["agree"], "forced": hst["forced"],
                           "natives": ["intern", "same", "set_extra", "get_extra"], "input_distribution": merge_stats(iprogs)},
        "graph_tie": gst,
        "configuration_differential": cst,
        "configuration_input_distribution": merge_stats(cprogs),
        "traces_validated_against_impl": st["agree"] + bst["agree"] + hst["agree"] + gst["model_agree"] + cst["program_configs_identical"],
        "trace_table_rows": len(rows),
        "trace_table_unparsed": unparsed,
        "trace_table_incomplete": incomplete,
        "root_required": ["%s:%s" % q for q in req],
        "root_calls": ["%s:%s:%s" % c for c in calls],
        "input_distribution": merge_stats(programs),
        "graph_input_distribution": merge_stats(gprogs),
        "corpus": {"schedule": len(csched), "graph": len(cgraph), "targeted_templates": len(TEMPLATES)},
        "exhaustive": False,
        "samples": [programs[len(csched) + 3]["src"], programs[-1]["src"], gprogs[-1]["src"]],
    }
    return {"coverage": cov, "failures": failures, "broken": broken}


SEARCH_N_SCHED, SEARCH_N_GRAPH = 2500, 300


def search(ctx, broken):
    """a broken obligation: if the translator's table names an unvisited field, hammer exactly that type's field first"""
    rows, _ = trace_table()
    incomplete = [(n, sorted(set(d) - set(v))) for n, d, v in rows if not set(d) <= set(v)]
    wanted = [n.split(":")[-1] for n, _ in incomplete]
    tp = targeted_programs()
    if wanted:
        first = [p for p in tp if any(w.split("::")[0] in t or t in w for w in wanted for t in p["types"])]
        ctx.log("search: unvisited fields %s -> %d targeted programs first" % (incomplete[:4], len(first)))
        tp = first + [p for p in tp if p not in first]
    # targeted programs with more padding variants and every schedule, then the thorough generator
    more = []
    for p in tp:
        for rep in (2, 5):
            more.append({"id": p["id"] + ":pad%d" % rep, "src": p["src"].replace(PAD, PAD * rep), "types": p["types"], "stats": {}})
    programs = tp + more + [gen_sched_program(ctx.rng, tier_big=(i % 3 == 0)) for i in range(SEARCH_N_SCHED)]
    failures, st = sched_differential(ctx, programs)
    for extra in (intern_programs(ctx, 600), big_programs(ctx, 300)):      # host-API roots (broken root-completeness), size classes
        f2, st2 = sched_differential(ctx, extra, timeout=120, single_timeout=40)
        failures += f2
        st["runs"] += st2["runs"]
    gf, gst, _ = graph_tie(ctx, [gen_graph_program(ctx.rng) for _ in range(SEARCH_N_GRAPH)])
    return {"failures": failures + gf, "coverage": {"evaluations": st["runs"] + gst["graphs"], "targeted_first": wanted}}


def replay(ctx, rep):
    r = rep.get("replay", {})
    if r.get("kind") == "graph":
        p = {"id": "replay", "src": r.get("src", ""), "drop": r.get("drop", ""), "then": r.get("then", ""), "opts": r.get("opts", {})}
        f, st, broken = graph_tie(ctx, [p])
        return {"coverage": {"evaluations": 1, "distinct_nontrivial": 1, "samples": [p["src"]]}, "failures": f, "broken": broken}
    if "src" not in r:
        return {"coverage": {}, "failures": []}
    if r.get("kind") == "config":
        p = {"id": "replay", "src": r["src"], "then": r.get("then") or []}
        f, st = config_differential(ctx, [p], configs=[(r.get("profile"), bool(r.get("stmt_hook")))])
        return {"coverage": {"evaluations": st["runs"], "distinct_nontrivial": 1, "samples": [r["src"]], "configuration_differential": st},
                "failures": f}
    p = {"id": "replay", "src": r["src"]}
    if isinstance(r.get("opts"), dict):
        keep = {k: r["opts"][k] for k in ("host_api", "extra_value") if k in r["opts"]}
        if keep:
            p["opts"] = keep
    if '["spec"' in r["src"]:
        p["big"] = True
    if isinstance(r.get("opts"), dict) and r["opts"].get("profile"):
        f, st = sched_differential(ctx, [p], extra_opts={"profile": r["opts"]["profile"]})
    else:
        f, st = sched_differential(ctx, [p])
    return {"coverage": {"evaluations": st["runs"], "distinct_nontrivial": 1, "samples": [r["src"]]}, "failures": f}


META = {
    "category": "proof",
    "level_text": "Partial (memory safety itself is outside the model). Proved in Coq for ALL heaps, root sets and fuel: the recursive copy "
                  "terminates with fuel = unforwarded cells + 1 for any visit mask (cycles included); the copy invariant (forwarding map injective, "
                  "onto the new heap, defined exactly on reachable cells; image = blackhole on the DFS stack or the cell with F applied pointwise) "
                  "holds initially and is preserved by every copy; hence with a complete visit mask a collection preserves the observation of "
                  "every root at every depth (content, cycles), preserves aliasing (F r1 = F r2 <-> r1 = r2 on reachable refs), is a graph "
                  "isomorphism between the reachable subgraph and the whole new heap, and leaves a well-formed heap (no Blackhole/Forward/dangling "
                  "pointer reachable); a mutator with allocation, field reads, field writes, drops, emits and identity tests gives the same "
                  "transcript under every placement of collections; Examples: fill-before-forward diverges on a 1-cycle, an incomplete visit "
                  "loses a value. visit_complete for the real code is discharged by vm_compute on the translator's table of (type, value-bearing "
                  "fields, fields visited) for every derived/manual Trace impl, Evaluator::trace, Module::trace and the forward-before-trace-"
                  "before-fill order of heap_copy_impl / tuple / array; root completeness (every value-holding table of Module / Evaluator / "
                  "the heap's string interner is traced unconditionally by Module::trace / Evaluator::trace) on the extracted call list. "
                  "The property on the real collector is decided by correspondence: "
                  "generated programs under 6 GC schedules with the freed arena poisoned must give identical transcripts/outcomes without a "
                  "crash, and object graphs walked with pointer identity before/after forced collections must be equal and equal to the Coq "
                  "gc's output on the before-graph; and for every evaluator configuration (13 profile settings x statement hook on/off) "
                  "evaluation + second module + Module::freeze() + frozen exports + retained heap profile must be identical under 5 GC "
                  "schedules, with no collection at all while a heap profile is recorded; big containers (1000..5000 elements, sizes straddling "
                  "the allocator / SmallMap thresholds) mutated after collections and read back against a Python-computed checksum; host-API "
                  "roots (string interner, extra_value) used across collections with and without an embedder extra_value.",
    "level_note": "Trusted: Coq kernel; Heap/Copy.v as mirror of heap_copy_impl/Tracer::adjust; the syntactic translator trace.py (best effort: "
                  "field-name granularity, accessor resolution by method name within a file); hooks set_gc_every/set_poison; harness bins. "
                  "Not modelled / searched only: reads of freed memory, arena layout, pointer tagging, drop order of the old arena, values held "
                  "only by native frames; closure captures / bound-method receivers / partial arguments are opaque to the graph walk (covered by "
                  "transcripts). Collections are only exercised at the safepoints the evaluator offers (module-level statement boundaries).",
    "technique": "Coq proof of a two-space copying collector model (invariant + isomorphism + simulation) ; extracted Trace-coverage table closed by "
                 "vm_compute ; schedule-differential testing with arena poisoning ; object-graph isomorphism tie replayed on the Coq collector ; "
                 "configuration x schedule x post-evaluation (freeze, frozen exports, retained profile) differential",
    "design_ref": "DESIGN.md section 4 C03, section 6, Appendix A (C03 / C04)",
}
