"""C09 Equality, hashing and ordering are coherent, so dict and set lookups are right.

Proof: coq/Eq/{Model,Spec,Proofs}.v + Properties/C09.v.  The model mirrors NumRef (eq / cmp / get_hash_64 with an
exact binary64), the two routes from the 64-bit pre-hash to the 32-bit StarlarkHashValue (fmix64 override vs the
default Fx hasher over write_hash; which numeric type takes which route is *extracted from the code on every run*),
structural equals/compare of tuples/lists/strings, and sorted().

Tie: the `eqhash` harness builds the same abstract value through different construction paths and representations
(literal / computed / parsed / converted / sliced / formatted / frozen in a loaded module) and reports ==, <, dict and
set lookups, len of two-key dicts, sorted(), hash(), plus Value::equals / compare / get_hashed from Rust.  Every
observation is compared with (1) the Coq model run on the implementation's own representation of the values
(Eq/Cases.v, vm_compute) and (2) the specification = mathematical equality / order of the abstract values (Python
exact arithmetic below).  Disagreements with the specification are classified by narrow keys."""
import struct
from fractions import Fraction
from functools import cmp_to_key

import sv

PROP = "C09"
HARNESS_BINS = ["eqhash"]
COQ_TARGETS = ["Properties/C09.vo", "Eq/Cases.vo"]
TRUSTED = ["binary64 modelled exactly as m*2^e in canonical form; num-bigint's to_f64 and `as` casts modelled as round-to-nearest-even / "
           "saturating truncation (validated on every run against float(z) of the implementation)",
           "string hashing modelled as an arbitrary function of the content (the observed 32-bit hashes are fed to the model; "
           "two equal contents with different hashes are reported directly)",
           "UTF-8 byte order = scalar value order for string comparison",
           "coqc vm_compute evaluation of Eq/Cases.v (cases.v route)"]
ASSUMPTIONS = ["dict/set/struct equality and ordering are checked against the specification only (not in the Coq model)",
               "sorted(): the theorem is proved for insertion sort as the representative stable sort; the tie compares sorted() "
               "of the implementation with it on lists that are pairwise comparable",
               "the model/implementation tie is differential testing over generated families of values"]

K_F1 = "C09/hash-incoherent/bigint-vs-float"
K_F3 = "C09/eq-not-transitive/int-float-above-2^53"
P53 = 2 ** 53
IMIN, IMAX = -2 ** 31, 2 ** 31 - 1


# ---------------------------------------------------------------------------------------------------------
# abstract values:  ('none',) ('bool',b) ('int',z) ('float',bits) ('str',s) ('tuple',[..]) ('list',[..]) ('dict',[(k,v)..])

def f2bits(x):
    return struct.unpack("<Q", struct.pack("<d", x))[0]


def bits2f(b):
    return struct.unpack("<d", struct.pack("<Q", b))[0]


def int_to_float_bits(z):
    """RNE conversion (the specification of float(int)); >= 2^1024 rounds to infinity."""
    try:
        return f2bits(float(z))
    except OverflowError:
        return f2bits(float("inf") if z > 0 else float("-inf"))


NAN_BITS = 0x7ff8000000000000


def is_nan_bits(b):
    return (b >> 52) & 0x7ff == 0x7ff and (b & ((1 << 52) - 1)) != 0


def num_key(v):
    """Total order key of the specification: -inf < reals < +inf < NaN; exact rational values."""
    if v[0] == "int":
        return (1, Fraction(v[1]))
    b = v[1]
    if is_nan_bits(b):
        return (3, 0)
    f = bits2f(b)
    if f == float("inf"):
        return (2, 0)
    if f == float("-inf"):
        return (0, 0)
    return (1, Fraction(f))


def is_num(v):
    return v[0] in ("int", "float")


def spec_eq(a, b):
    if is_num(a) and is_num(b):
        return num_key(a) == num_key(b)
    if a[0] != b[0]:
        return False
    t = a[0]
    if t == "none":
        return True
    if t in ("bool", "str"):
        return a[1] == b[1]
    if t in ("tuple", "list"):
        return len(a[1]) == len(b[1]) and all(spec_eq(x, y) for x, y in zip(a[1], b[1]))
    if t == "dict":
        if len(a[1]) != len(b[1]):
            return False
        for k, v in a[1]:
            m = [v2 for k2, v2 in b[1] if spec_eq(k, k2)]
            if len(m) != 1 or not spec_eq(v, m[0]):
                return False
        return True
    return a == b


def spec_cmp(a, b):
    """-1/0/1 or None (not comparable)."""
    if is_num(a) and is_num(b):
        ka, kb = num_key(a), num_key(b)
        return (ka > kb) - (ka < kb)
    if a[0] != b[0]:
        return None
    t = a[0]
    if t == "bool":
        return (a[1] > b[1]) - (a[1] < b[1])
    if t == "str":
        x, y = [ord(c) for c in a[1]], [ord(c) for c in b[1]]
        return (x > y) - (x < y)
    if t in ("tuple", "list"):
        for x, y in zip(a[1], b[1]):
            c = spec_cmp(x, y)
            if c is None:
                return None
            if c != 0:
                return c
        return (len(a[1]) > len(b[1])) - (len(a[1]) < len(b[1]))
    return None


def spec_hashable(a):
    if a[0] in ("list", "dict", "set", "other"):
        return False
    if a[0] == "tuple":
        return all(spec_hashable(x) for x in a[1])
    return True


def java_hash(s):
    h = 0
    u = s.encode("utf-16-be", "surrogatepass")
    for i in range(0, len(u), 2):
        h = (31 * h + (u[i] << 8 | u[i + 1])) & 0xffffffff
    return h - (1 << 32) if h >= 1 << 31 else h


def f3_pair(a, b):
    """One int and one float, |int| > 2^53, different exact values that coincide after rounding the int to binary64."""
    if not (is_num(a) and is_num(b)) or a[0] == b[0]:
        return False
    i, f = (a, b) if a[0] == "int" else (b, a)
    if abs(i[1]) <= P53 or is_nan_bits(f[1]):
        return False
    return num_key(i) != num_key(f) and int_to_float_bits(i[1]) == f[1]


def leaves(a, b):
    """Parallel walk: the leaf pairs at which two values of the same shape are compared."""
    if a[0] in ("tuple", "list") and a[0] == b[0]:
        out = []
        for x, y in zip(a[1], b[1]):
            out += leaves(x, y)
        return out
    return [(a, b)]


def has_f3(a, b):
    return any(f3_pair(x, y) for x, y in leaves(a, b))


def only_f3_differs(a, b):
    """spec says a != b, and every leaf pair on which the spec and a rounding comparison disagree is an F3 pair."""
    ls = leaves(a, b)
    bad = [(x, y) for x, y in ls if not spec_eq(x, y)]
    return bool(bad) and all(f3_pair(x, y) for x, y in bad)


def kind(d):
    """Representation kind of a described value."""
    if d["t"] == "int":
        return "smallint" if d.get("r") == "small" else "bigint"
    return d["t"]


# ---------------------------------------------------------------------------------------------------------
# implementation descriptions -> abstract values / Coq terms

def absval(d):
    t = d["t"]
    if t == "none":
        return ("none",)
    if t == "bool":
        return ("bool", bool(d["v"]))
    if t == "int":
        return ("int", int(d["v"]))
    if t == "float":
        return ("float", int(d["bits"]))
    if t == "str":
        return ("str", d["v"])
    if t in ("tuple", "list"):
        return (t, [absval(x) for x in d["v"]])
    if t == "dict":
        return ("dict", [(absval(k), absval(v)) for k, v in d["v"]])
    return ("other", d.get("repr"))


def modelable(d):
    t = d["t"]
    if t in ("none", "bool", "int", "float", "str"):
        return True
    if t in ("tuple", "list"):
        return all(modelable(x) for x in d["v"])
    return False


def coq_float(bits):
    s, e, m = bits >> 63, (bits >> 52) & 0x7ff, bits & ((1 << 52) - 1)
    if e == 0x7ff:
        return "NaN" if m else ("NInf" if s else "PInf")
    if e == 0:
        if m == 0:
            return "NegZero" if s else "(Fin 0 (-1074))"
        return "(Fin %s (-1074))" % sv.zlit(-m if s else m)
    mm = m + (1 << 52)
    return "(Fin %s %s)" % (sv.zlit(-mm if s else mm), sv.zlit(e - 1075))


def coq_str(s):
    return "[" + ";".join(str(ord(c)) for c in s) + "]"


def coq_val(d):
    t = d["t"]
    if t == "none":
        return "VNone"
    if t == "bool":
        return "(VBool %s)" % ("true" if d["v"] else "false")
    if t == "int":
        return "(VNum (NInt (%s %s)))" % ("Small" if d.get("r") == "small" else "Big", sv.zlit(int(d["v"])))
    if t == "float":
        return "(VNum (NFloat %s))" % coq_float(int(d["bits"]))
    if t == "str":
        return "(VStr %s)" % coq_str(d["v"])
    return "(%s [%s])" % ("VTuple" if t == "tuple" else "VList", ";".join(coq_val(x) for x in d["v"]))


def strings_of(d, out):
    if d["t"] == "str":
        out.append((d["v"], d.get("h")))
    elif d["t"] in ("tuple", "list"):
        for x in d["v"]:
            strings_of(x, out)


# ---------------------------------------------------------------------------------------------------------
# construction paths (Starlark source) for an abstract value

def slit(s):
    out = []
    for c in s:
        if c == "\\":
            out.append("\\\\")
        elif c == '"':
            out.append('\\"')
        elif c == "\n":
            out.append("\\n")
        elif c == "\t":
            out.append("\\t")
        else:
            out.append(c)
    return '"' + "".join(out) + '"'


def int_paths(z, rng):
    ps = [("lit", "(%d)" % z), ("parse", 'int("%d")' % z), ("hex", "(%s0x%x)" % ("-" if z < 0 else "", abs(z)))]
    k = rng.randint(1, 40)
    ps.append(("arith", "(opaque(%d) + %d)" % (z - k, k)))
    if z != 0:
        n = abs(z)
        tz = (n & -n).bit_length() - 1
        ps.append(("shift", "(opaque(%d) << %d)" % (z >> tz, tz)))
        ps.append(("mul", "(opaque(%d) * %d)" % (z, 1)))
    if abs(z) <= P53:
        ps.append(("from_float", "int(%s)" % repr(float(z))))
    return ps


def float_src(bits):
    if is_nan_bits(bits):
        return 'float("nan")'
    f = bits2f(bits)
    if f == float("inf"):
        return 'float("inf")'
    if f == float("-inf"):
        return 'float("-inf")'
    r = repr(f)
    if "e" not in r and "." not in r:
        r += ".0"
    return "(%s)" % r


def float_paths(bits, rng):
    src = float_src(bits)
    ps = [("lit", src)]
    if not src.startswith("float("):
        ps.append(("parse", 'float("%s")' % src.strip("()")))
    ps.append(("mul1", "(opaque(%s) * 1.0)" % src))
    if is_nan_bits(bits):
        ps.append(("inf-inf", '(float("inf") - opaque(float("inf")))'))
    else:
        f = bits2f(bits)
        if f == f and abs(f) != float("inf") and f == int(f) and not (f == 0 and bits >> 63):
            z = int(f)
            ps.append(("from_int", "float(%d)" % z))
            ps.append(("from_int_rt", "float(opaque(%d))" % z))
            if abs(z) < 2 ** 62:
                ps.append(("int_mul", "(opaque(%d) * 1.0)" % z))
    return ps


def str_paths(s, rng):
    ps = [("lit", slit(s))]
    k = rng.randint(0, len(s))
    ps.append(("concat", "(opaque(%s) + %s)" % (slit(s[:k]), slit(s[k:]))))
    pad = rng.choice(["x", "é", "ab", "😀"])
    ps.append(("slice", "opaque(%s)[%d:%d]" % (slit(pad + s + pad), len(pad), len(pad) + len(s))))
    ps.append(("percent", '("%%s" %% opaque(%s))' % slit(s)))
    ps.append(("format", '"{}".format(opaque(%s))' % slit(s)))
    ps.append(("join", '"".join([%s])' % ", ".join(slit(c) for c in s)))
    if len(s) == 1:
        ps.append(("index", "opaque(%s)[1]" % slit("q" + s + "q")))
    if s and s == s.lower() and s.upper().lower() == s and s.upper() != s and len(s.upper()) == len(s):
        ps.append(("lower", "opaque(%s).lower()" % slit(s.upper())))
    return ps


def src_of(v, rng, depth=0):
    """A random construction path for abstract value v: (tag, source)."""
    t = v[0]
    if t == "none":
        return rng.choice([("lit", "None"), ("call", "opaque(None)"), ("get", "{}.get(1)")])
    if t == "bool":
        if v[1]:
            return rng.choice([("lit", "True"), ("cmp", "(opaque(1) == 1)"), ("not", "(not opaque(False))"), ("bool", "bool(opaque(2))")])
        return rng.choice([("lit", "False"), ("cmp", "(opaque(1) == 2)"), ("not", "(not opaque(True))"), ("bool", "bool(opaque(0))")])
    if t == "int":
        return rng.choice(int_paths(v[1], rng))
    if t == "float":
        return rng.choice(float_paths(v[1], rng))
    if t == "str":
        return rng.choice(str_paths(v[1], rng))
    if t in ("tuple", "list"):
        parts = [src_of(x, rng, depth + 1)[1] for x in v[1]]
        inner = ", ".join(parts)
        if t == "tuple":
            forms = [("lit", "(%s%s)" % (inner, "," if len(parts) == 1 else "")), ("from_list", "tuple([%s])" % inner),
                     ("compr", "tuple([x for x in [%s]])" % inner)]
            if parts:
                forms.append(("concat", "((%s,) + (%s%s))" % (parts[0], ", ".join(parts[1:]), "," if len(parts) == 2 else "")))
        else:
            forms = [("lit", "[%s]" % inner), ("from_tuple", "list((%s%s))" % (inner, "," if len(parts) == 1 else "")),
                     ("compr", "[x for x in [%s]]" % inner), ("copy", "list([%s])" % inner), ("slice", "[%s][:]" % inner)]
        return rng.choice(forms)
    raise ValueError(v)


def float_from_int(z):
    return ("float", int_to_float_bits(z))


def next_float(bits, d):
    """Neighbouring finite float (by bit pattern, same sign)."""
    return bits + d


# ---------------------------------------------------------------------------------------------------------
# families of values -> cases

def make_case(vals, rng, tag, frozen_some=True):
    """vals: list of abstract values (intended).  Build each through a random path; some through a frozen module."""
    lib_lines, src_lines, names, paths = [], [], [], []
    loads = []
    for i, v in enumerate(vals):
        ptag, src = src_of(v, rng)
        name = "v%d" % i
        if frozen_some and rng.random() < 0.3:
            lib_lines.append("L%d = %s" % (i, src))
            loads.append("L%d" % i)
            src_lines.append("%s = L%d" % (name, i))
            ptag = "frozen:" + ptag
        else:
            src_lines.append("%s = %s" % (name, src))
        names.append(name)
        paths.append(ptag)
    src = ""
    if loads:
        src += "load('lib.star', %s)\n" % ", ".join("'%s'" % l for l in loads)
    src += "\n".join(src_lines) + "\n"
    src += "VS = [%s]\n" % ", ".join(names)
    n = len(vals)
    exprs = []
    for i in range(n):
        for j in range(i + 1, n):
            a, b = names[i], names[j]
            for k, e in (("eq", "%s == %s" % (a, b)), ("eq_r", "%s == %s" % (b, a)), ("ne", "%s != %s" % (a, b)),
                         ("lt", "%s < %s" % (a, b)), ("le", "%s <= %s" % (a, b)), ("gt", "%s > %s" % (a, b)),
                         ("get", "{%s: 1}.get(%s)" % (a, b)), ("get_r", "{%s: 1}.get(%s)" % (b, a)),
                         ("in_dict", "%s in {%s: 1}" % (b, a)), ("in_set", "%s in set([%s])" % (b, a)),
                         ("len2", "len(dict([(%s, 1), (%s, 2)]))" % (a, b))):
                exprs.append((k, i, j, e))
    exprs.append(("sorted", -1, 0, "sorted(range(%d), key = lambda i: VS[i])" % n))
    exprs.append(("sorted", -1, 1, "sorted(range(%d), key = lambda i: VS[i], reverse = True)" % n))
    for i, v in enumerate(vals):
        if v[0] == "str":
            exprs.append(("hash", i, i, "hash(%s)" % names[i]))
    return {"lib": "\n".join(lib_lines) + "\n" if lib_lines else None, "src": src, "values": names,
            "exprs": [e[3] for e in exprs], "meta": {"tag": tag, "paths": paths, "exprs": [list(e[:3]) for e in exprs],
                                                     "intended": [encode_abs(v) for v in vals]}}


def encode_abs(v):
    if v[0] in ("tuple", "list"):
        return [v[0], [encode_abs(x) for x in v[1]]]
    if v[0] in ("int", "float"):
        return [v[0], str(v[1])]
    return list(v)


def decode_abs(e):
    if e[0] in ("tuple", "list"):
        return (e[0], [decode_abs(x) for x in e[1]])
    if e[0] in ("int", "float"):
        return (e[0], int(e[1]))
    return tuple(e)


INT_ANCHORS = [0, 1, -1, 2 ** 31 - 1, 2 ** 31, -2 ** 31, -2 ** 31 - 1, 2 ** 32, 2 ** 40, -2 ** 40, 2 ** 53 - 1, 2 ** 53, 2 ** 53 + 1,
               2 ** 53 + 2, -2 ** 53, -2 ** 53 - 1, 2 ** 62, 2 ** 63 - 1, 2 ** 63, 2 ** 63 + 1, -2 ** 63, -2 ** 63 - 1, 2 ** 64,
               2 ** 64 + 1, 10 ** 18, 10 ** 19, 10 ** 24 + 3, 10 ** 24 + 5, 2 ** 100, 2 ** 1023, 2 ** 1024 - 2 ** 970, 2 ** 1024 - 2 ** 970 - 1,
               2 ** 1024, -2 ** 1030, 3 * 2 ** 60 + 1, 2 ** 54 + 2, 2 ** 54 + 3, 2 ** 54 + 6]
FLOAT_SPECIALS = [0.0, -0.0, 1.0, -1.0, 0.5, 1.5, 2.5, 1e100, 5e-324, 2.2250738585072014e-308, 1.7976931348623157e+308, 0.1, 3.0, 1e15, 1e16,
                  2147483647.0, 2147483648.0, -2147483648.0, -2147483649.0, 2147483647.5, 4294967296.0, 9007199254740992.0,
                  9007199254740994.0, -9007199254740992.0, 9.223372036854776e18, 1.8446744073709552e19]


def rand_int(rng):
    bits = rng.choice([1, 4, 16, 30, 31, 32, 33, 40, 52, 53, 54, 55, 60, 63, 64, 65, 80, 128, 300, 1023, 1024, 1025])
    z = rng.getrandbits(bits) | (1 << (bits - 1))
    if rng.random() < 0.4:
        z = (1 << bits) + rng.randint(-3, 3)
    return -z if rng.random() < 0.5 else z


def num_family(rng, anchor=None):
    """Values around an integer anchor: the int, its float, neighbours, the exact float if any."""
    z = anchor if anchor is not None else rand_int(rng)
    vals = [("int", z), ("int", z), float_from_int(z)]
    fb = int_to_float_bits(z)
    f = bits2f(fb)
    if f == f and abs(f) != float("inf"):
        vals.append(("int", int(f)))                       # the integer the float denotes exactly
        if fb & (2 ** 63 - 1) not in (0,) and (fb >> 52) & 0x7ff not in (0, 0x7fe):
            vals.append(("float", fb + rng.choice([1, -1])))   # neighbouring float
    vals.append(("int", z + rng.choice([1, -1, 2])))
    if rng.random() < 0.3:
        vals.append(("float", f2bits(rng.choice(FLOAT_SPECIALS))))
    rng.shuffle(vals)
    return vals[:7]


def float_family(rng):
    picks = [f2bits(x) for x in rng.sample(FLOAT_SPECIALS, 3)]
    vals = [("float", b) for b in picks] + [("float", picks[0])]
    vals += [("float", NAN_BITS), ("float", f2bits(float("inf"))), ("float", f2bits(-0.0)), ("float", f2bits(0.0)), ("int", 0),
             ("float", f2bits(float("-inf"))), ("float", NAN_BITS)]
    f = bits2f(picks[1])
    if f == int(f):
        vals.append(("int", int(f)))
    rng.shuffle(vals)
    return vals[:7]


ALPHABETS = ["abcxyz", "abc012 _-/:.", "aé", "éèüß", "😀😁a", "日本語テキスト", "aA", "\\\"'%{}"]


def rand_str(rng):
    n = rng.choice([0, 1, 1, 2, 3, 4, 7, 8, 9, 15, 16, 17, 24, 33, 40])
    al = rng.choice(ALPHABETS)
    return "".join(rng.choice(al) for _ in range(n))


def str_family(rng, s=None):
    s = rand_str(rng) if s is None else s
    vals = [("str", s)] * 3
    if s:
        vals.append(("str", s[:-1]))
        vals.append(("str", s[:-1] + chr(ord(s[-1]) + 1)))
        vals.append(("str", s + s[0]))
    else:
        vals.append(("str", "a"))
    vals.append(("str", rand_str(rng)))
    rng.shuffle(vals)
    return vals[:7]


def atom(rng):
    k = rng.random()
    if k < 0.35:
        return ("int", rng.choice(INT_ANCHORS + [rng.randint(-5, 5)] * 10))
    if k < 0.55:
        return ("float", f2bits(rng.choice(FLOAT_SPECIALS)))
    if k < 0.8:
        return ("str", rand_str(rng))
    if k < 0.9:
        return ("bool", rng.random() < 0.5)
    return ("none",)


def equal_variant(v, rng):
    """A value equal to v in the specification but in another representation where one exists."""
    if v[0] == "int":
        fb = int_to_float_bits(v[1])
        if num_key(("float", fb)) == num_key(v) and rng.random() < 0.7:
            return ("float", fb)
        return v
    if v[0] == "float":
        if is_nan_bits(v[1]):
            return v
        f = bits2f(v[1])
        if abs(f) != float("inf") and f == int(f) and rng.random() < 0.7:
            return ("int", int(f))
        if f == 0:
            return ("float", f2bits(-0.0) if rng.random() < 0.5 else 0)
        return v
    if v[0] in ("tuple", "list"):
        return (v[0], [equal_variant(x, rng) for x in v[1]])
    return v


def container_family(rng):
    n = rng.choice([0, 1, 2, 2, 3])
    kind_ = rng.choice(["tuple", "tuple", "list"])
    homog = rng.random() < 0.6
    if homog:
        base_kind = rng.choice(["num", "str"])
        elems = [(("int", rng.choice(INT_ANCHORS)) if base_kind == "num" else ("str", rand_str(rng))) for _ in range(n)]
    else:
        elems = [atom(rng) for _ in range(n)]
    if rng.random() < 0.3 and n:
        elems[rng.randrange(n)] = ("tuple", [atom(rng) for _ in range(rng.choice([0, 1, 2]))])
    if rng.random() < 0.15 and n:
        elems[rng.randrange(n)] = ("list", [atom(rng)])
    base = (kind_, elems)
    vals = [base, base, equal_variant(base, rng), equal_variant(base, rng)]
    if n:
        e2 = list(elems)
        i = rng.randrange(n)
        e2[i] = atom(rng) if not homog else ((("int", elems[i][1] + 1) if elems[i][0] == "int" else ("str", elems[i][1] + "a")) if elems[i][0] in ("int", "str") else atom(rng))
        vals.append((kind_, e2))
        vals.append((kind_, elems[:-1]))
    vals.append(("tuple" if kind_ == "list" else "list", elems))
    rng.shuffle(vals)
    return vals[:7]


def cross_family(rng):
    vals = [("int", 1), ("bool", True), ("float", f2bits(1.0)), ("str", "1"), ("tuple", [("int", 1)]), ("none",), ("list", [("int", 1)]),
            ("int", 0), ("bool", False), ("str", ""), ("tuple", []), ("list", [])]
    rng.shuffle(vals)
    return vals[:7]


def corpus_cases(rng):
    import glob
    import json
    import os
    out = []
    for p in sorted(glob.glob(os.path.join(sv.ROOT, "corpus", "C09", "*.json"))):
        for fam in json.load(open(p)).get("families", []):
            vals = [decode_abs(e) for e in fam["values"]]
            for rep in range(fam.get("repeat", 1)):
                out.append(make_case(vals, rng, "corpus:" + fam.get("name", os.path.basename(p))))
    return out


def gen_cases(ctx, scale=1.0):
    rng = ctx.rng
    cases = corpus_cases(rng)
    for z in INT_ANCHORS:
        cases.append(make_case(num_family(rng, z), rng, "num-anchor"))
    for _ in range(int(ctx.n(30, 400) * scale)):
        cases.append(make_case(num_family(rng), rng, "num-rand"))
    for _ in range(int(ctx.n(12, 100) * scale)):
        cases.append(make_case(float_family(rng), rng, "float"))
    for s in ["", "a", "é", "😀", "ab", "hello world, this is longer than sixteen bytes", "x" * 16, "y" * 17]:
        cases.append(make_case(str_family(rng, s), rng, "str-fixed"))
    for _ in range(int(ctx.n(25, 300) * scale)):
        cases.append(make_case(str_family(rng), rng, "str-rand"))
    for _ in range(int(ctx.n(45, 500) * scale)):
        cases.append(make_case(container_family(rng), rng, "container"))
    for _ in range(int(ctx.n(4, 30) * scale)):
        cases.append(make_case(cross_family(rng), rng, "cross"))
    return cases


# ---------------------------------------------------------------------------------------------------------
# evaluation

def as_bool(r):
    if r is None:
        return ("missing",)
    if "err" in r:
        return ("err", r["err"])
    if r.get("t") == "bool":
        return ("bool", bool(r["v"]))
    if r.get("t") == "int":
        return ("int", int(r["v"]))
    if r.get("t") == "none":
        return ("none",)
    if r.get("t") == "list":
        return ("list", [absval(x) for x in r["v"]])
    return ("other", str(r)[:80])


def classify_eq(a, b, da, db):
    """impl == differs from the specification."""
    if only_f3_differs(a, b):
        return K_F3
    return "C09/eq-differs-from-spec/%s-vs-%s" % tuple(sorted([kind(da), kind(db)]))


def classify_lookup(a, b, da, db, speq, found):
    if speq and not found:
        ks = sorted([kind(da), kind(db)])
        if ks == ["bigint", "float"]:
            return K_F1
        return "C09/hash-incoherent/%s-vs-%s" % tuple(ks)
    if has_f3(a, b):
        return K_F3
    return "C09/lookup-finds-unequal-key/%s-vs-%s" % tuple(sorted([kind(da), kind(db)]))


def evaluate(ctx, cases, with_model=True):
    rc, log, res = sv.run_harness_sharded(ctx, "eqhash", [{k: c[k] for k in ("lib", "src", "values", "exprs")} for c in cases], timeout=900)
    failures = []
    if rc != 0:
        failures.append({"key": "C09/harness-crash", "what": "eqhash exited with %s: %s" % (rc, log[-300:]), "replay": {"rc": rc}})
    evals = 0
    nontrivial = set()
    dist = {}
    str_hash = {}       # content -> observed 32-bit hash
    model_items = []    # (coq case text, (ci, kind, i, j))
    z2f_seen = set()

    def fail(key, what, ci, extra):
        c = cases[ci]
        failures.append({"key": key, "what": what, "replay": {"case": c, **extra}})

    for ci, (c, r) in enumerate(zip(cases, res)):
        meta = c["meta"]
        dist[meta["tag"]] = dist.get(meta["tag"], 0) + 1
        if r is None or "panic" in r:
            fail("C09/panic", "no result / panic: %s" % str(r)[:200], ci, {"impl": r})
            continue
        if "setup_err" in r:
            fail("C09/construct/setup-error", "case could not be set up (%s): %s" % (r.get("where"), r["setup_err"]), ci, {"impl": r})
            continue
        descs = r["values"]
        vals = [absval(d) for d in descs]
        intended = [decode_abs(e) for e in meta["intended"]]
        n = len(vals)
        # (0) each construction path builds the intended value (bit-exact for floats; NaN up to payload), canonically
        for i in range(n):
            evals += 1
            ok = vals[i] == intended[i] or (vals[i][0] == "float" == intended[i][0] and is_nan_bits(vals[i][1]) and is_nan_bits(intended[i][1]))
            if ok and descs[i]["t"] == "int":
                ok = (descs[i]["r"] == "small") == (IMIN <= vals[i][1] <= IMAX)
            if not ok:
                fail("C09/construct/%s" % meta["paths"][i].split(":")[-1],
                     "path %s built %s, intended %s" % (meta["paths"][i], descs[i], intended[i]), ci, {"index": i, "impl": descs[i]})
            ss = []
            strings_of(descs[i], ss)
            for content, h in ss:
                if h is not None and str_hash.setdefault(content, h) != h:
                    fail("C09/hash-incoherent/string-representations",
                         "string %r has hash %s here (path %s) and %s elsewhere" % (content, h, meta["paths"][i], str_hash[content]),
                         ci, {"index": i})
        eqm, cmpm, hashes = r["eq"], r["cmp"], r["hash"]
        # (1) Rust-level matrices against the specification
        for i in range(n):
            for j in range(n):
                evals += 2
                a, b = vals[i], vals[j]
                se, sc = spec_eq(a, b), spec_cmp(a, b)
                if eqm[i][j] != se:
                    fail(classify_eq(a, b, descs[i], descs[j]) if (eqm[i][j] and not se) else
                         "C09/eq-differs-from-spec/%s-vs-%s" % tuple(sorted([kind(descs[i]), kind(descs[j])])),
                         "Value::equals(%s, %s) = %s, specification %s (paths %s / %s)" % (show(a), show(b), eqm[i][j], se, meta["paths"][i], meta["paths"][j]),
                         ci, {"i": i, "j": j, "impl": eqm[i][j], "spec": se})
                if eqm[i][j] != eqm[j][i]:
                    fail("C09/eq-not-symmetric", "equals(%s,%s)=%s but equals(%s,%s)=%s" % (show(a), show(b), eqm[i][j], show(b), show(a), eqm[j][i]), ci, {"i": i, "j": j})
                if cmpm[i][j] != sc:
                    key = K_F3 if (has_f3(a, b) and cmpm[i][j] == 0) else "C09/order-differs-from-spec/%s-vs-%s" % tuple(sorted([kind(descs[i]), kind(descs[j])]))
                    fail(key, "Value::compare(%s, %s) = %s, specification %s" % (show(a), show(b), cmpm[i][j], sc), ci,
                         {"i": i, "j": j, "impl": cmpm[i][j], "spec": sc})
                if (hashes[i] is not None) != spec_hashable(a):
                    fail("C09/hashability", "get_hashed(%s) %s, specification hashable=%s" % (show(a), hashes[i], spec_hashable(a)), ci, {"i": i})
                if i < j and se and a != b or (i < j and se and meta["paths"][i] != meta["paths"][j]):
                    nontrivial.add((str(descs[i]), str(descs[j])))
            if not eqm[i][i]:
                fail("C09/eq-not-reflexive", "equals(%s, itself) is false" % show(vals[i]), ci, {"i": i})
        # triples: transitivity of the implementation's own equality and order
        for i in range(n):
            for j in range(n):
                if not eqm[i][j]:
                    continue
                for k in range(n):
                    evals += 1
                    if eqm[j][k] and not eqm[i][k]:
                        trip = (vals[i], vals[j], vals[k])
                        f3 = has_f3(trip[0], trip[1]) or has_f3(trip[1], trip[2]) or has_f3(trip[0], trip[2])
                        fail(K_F3 if f3 else "C09/eq-not-transitive/other",
                             "%s == %s and %s == %s but %s != %s" % (show(trip[0]), show(trip[1]), show(trip[1]), show(trip[2]), show(trip[0]), show(trip[2])),
                             ci, {"i": i, "j": j, "k": k})
        for i in range(n):
            for j in range(n):
                if cmpm[i][j] is None or cmpm[i][j] > 0:
                    continue
                for k in range(n):
                    if cmpm[j][k] is None or cmpm[j][k] > 0 or cmpm[i][k] is None:
                        continue
                    evals += 1
                    want = -1 if (cmpm[i][j] < 0 or cmpm[j][k] < 0) else 0
                    if cmpm[i][k] != want:
                        trip = (vals[i], vals[j], vals[k])
                        f3 = has_f3(trip[0], trip[1]) or has_f3(trip[1], trip[2]) or has_f3(trip[0], trip[2])
                        fail(K_F3 if f3 else "C09/order-not-transitive",
                             "compare chain %s %s %s gives %s,%s but ends %s" % (show(trip[0]), show(trip[1]), show(trip[2]), cmpm[i][j], cmpm[j][k], cmpm[i][k]),
                             ci, {"i": i, "j": j, "k": k})
        # (2) Starlark-level observations against the specification and the Rust-level answers
        for (kd, i, j), out in zip(meta["exprs"], r["exprs"]):
            evals += 1
            o = as_bool(out)
            if kd == "sorted":
                rev = bool(j)
                comparable = all(spec_cmp(x, y) is not None for x in vals for y in vals)
                none_comparable = n >= 2 and all(spec_cmp(x, y) is None for xi, x in enumerate(vals) for yi, y in enumerate(vals) if xi != yi)
                if comparable:
                    sgn = -1 if rev else 1
                    want = sorted(range(n), key=cmp_to_key(lambda x, y: sgn * spec_cmp(vals[x], vals[y])))
                    got = [v[1] for v in o[1]] if o[0] == "list" else None
                    if got != want:
                        f3 = any(has_f3(x, y) for x in vals for y in vals)
                        fail(K_F3 if f3 else "C09/sorted-differs-from-spec", "sorted(reverse=%s) over keys %s = %s, specification (stable) %s"
                             % (rev, [show(v) for v in vals], got if got is not None else o, want), ci, {"expr": "sorted", "rev": rev, "impl": str(o), "spec": want})
                elif none_comparable and o[0] != "err":
                    fail("C09/sorted-accepts-incomparable", "sorted over pairwise incomparable keys returned %s" % (o,), ci, {"expr": "sorted"})
                if (comparable or none_comparable) and with_model and all(modelable(d) for d in descs):
                    model_items.append(("CSort %s [%s]" % ("true" if rev else "false", ";".join(coq_val(d) for d in descs)), (ci, "sorted", rev, o)))
                continue
            a, b = vals[i], vals[j]
            if kd == "hash":
                want = java_hash(a[1])
                if o != ("int", want):
                    fail("C09/hash-builtin", "hash(%r) = %s, specification %s" % (a[1], o, want), ci, {"i": i})
                if with_model:
                    model_items.append(("CJava %s" % coq_str(a[1]), (ci, "hash", i, o)))
                continue
            se, sc = spec_eq(a, b), spec_cmp(a, b)
            hashable = spec_hashable(a) and spec_hashable(b)
            if kd in ("eq", "eq_r", "ne"):
                want = ("bool", se if kd != "ne" else not se)
                rust = ("bool", eqm[i][j] if kd != "ne" else not eqm[i][j])
                if o != rust:
                    fail("C09/starlark-vs-rust/%s" % kd, "%s on (%s, %s) gives %s but Value::equals says %s" % (kd, show(a), show(b), o, eqm[i][j]), ci, {"i": i, "j": j, "expr": kd})
                elif o != want:
                    fail(classify_eq(a, b, descs[i], descs[j]) if not se else "C09/eq-differs-from-spec/%s-vs-%s" % tuple(sorted([kind(descs[i]), kind(descs[j])])),
                         "`%s` on (%s, %s) [paths %s / %s] = %s, specification %s" % (kd, show(a), show(b), meta["paths"][i], meta["paths"][j], o, want),
                         ci, {"i": i, "j": j, "expr": kd, "impl": str(o), "spec": str(want)})
            elif kd in ("lt", "le", "gt"):
                if sc is None:
                    want = ("err", "unsupported")
                else:
                    want = ("bool", {"lt": sc < 0, "le": sc <= 0, "gt": sc > 0}[kd])
                if o != want:
                    key = K_F3 if (has_f3(a, b) and cmpm[i][j] == 0) else "C09/order-differs-from-spec/%s-vs-%s" % tuple(sorted([kind(descs[i]), kind(descs[j])]))
                    fail(key, "`%s` on (%s, %s) = %s, specification %s" % (kd, show(a), show(b), o, want), ci,
                         {"i": i, "j": j, "expr": kd, "impl": str(o), "spec": str(want)})
            else:
                if not hashable:
                    # a dict literal hashes its keys left to right; `b in {a: 1}` hashes a first
                    if o[0] != "err" or o[1] != "unhashable":
                        fail("C09/hashability", "`%s` on (%s, %s) = %s, specification: unhashable error" % (kd, show(a), show(b), o), ci, {"i": i, "j": j, "expr": kd})
                    continue
                want = {"get": ("int", 1) if se else ("none",), "get_r": ("int", 1) if se else ("none",), "in_dict": ("bool", se),
                        "in_set": ("bool", se), "len2": ("int", 1 if se else 2)}[kd]
                if o != want:
                    found = o in (("int", 1), ("bool", True)) if kd != "len2" else o == ("int", 1)
                    fail(classify_lookup(a, b, descs[i], descs[j], se, found),
                         "`%s` with a=%s b=%s [paths %s / %s]: a == b is %s, result %s, specification %s"
                         % ({"get": "{a: 1}.get(b)", "get_r": "{b: 1}.get(a)", "in_dict": "b in {a: 1}", "in_set": "b in set([a])", "len2": "len(dict([(a, 1), (b, 2)]))"}[kd],
                            show(a), show(b), meta["paths"][i], meta["paths"][j], eqm[i][j], o, want),
                         ci, {"i": i, "j": j, "expr": kd, "impl": str(o), "spec": str(want)})
        # (3) the Coq model on the implementation's representation of every pair
        if with_model:
            for i in range(n):
                if descs[i]["t"] == "float" and meta["paths"][i].split(":")[-1] in ("from_int", "from_int_rt"):
                    pass
                for j in range(i, n):
                    if modelable(descs[i]) and modelable(descs[j]):
                        model_items.append(("CPair %s %s" % (coq_val(descs[i]), coq_val(descs[j])), (ci, "pair", i, j)))
            for i in range(n):
                if intended[i][0] == "int" and abs(intended[i][1]) > 1 and intended[i][1] not in z2f_seen:
                    z2f_seen.add(intended[i][1])
    # float(z) of the implementation against the model and the specification, for every integer seen
    zs = sorted(z2f_seen)
    if zs:
        zcases = [{"lib": None, "src": "\n".join("f%d = float(opaque(%d))" % (k, z) for k, z in enumerate(chunk)) + "\n",
                   "values": ["f%d" % k for k in range(len(chunk))], "exprs": []} for chunk in [zs[k:k + 50] for k in range(0, len(zs), 50)]]
        rc2, _, zres = sv.run_harness_sharded(ctx, "eqhash", zcases, timeout=600)
        flat = []
        for zc, zr in zip(zcases, zres):
            vs = (zr or {}).get("values") or []
            flat += [int(v["bits"]) if v.get("t") == "float" else None for v in vs] + [None] * (len(zc["values"]) - len(vs))
        for z, got in zip(zs, flat):
            evals += 1
            want = int_to_float_bits(z)
            if got != want:
                failures.append({"key": "C09/int-to-float-rounding", "what": "float(%d) has bits %s, round-to-nearest-even gives %s" % (z, got, want),
                                 "replay": {"z": str(z), "impl": got, "spec": want}})
            if with_model and got is not None:
                model_items.append(("CZ2F %s" % sv.zlit(z), (-1, "z2f", z, got)))

    # run the model
    mm = 0
    mrun = 0
    if with_model and model_items:
        tab = "[" + ";".join("(%s, %d)" % (coq_str(s), h) for s, h in sorted(str_hash.items())) + "]"
        nshard = sv.NPROC
        files = []
        for s in range(nshard):
            part = model_items[s::nshard]
            if not part:
                continue
            text = ("From Coq Require Import ZArith List.\nFrom SV Require Import Int.Model Eq.Model Eq.Cases.\nImport ListNotations.\n"
                    "Open Scope Z_scope.\nDefinition tab : list (list Z * Z) := %s.\n" % tab)
            for k in range(0, len(part), 150):
                text += "Eval vm_compute in (run_cases tab [\n%s]).\n" % ";\n".join(t for t, _ in part[k:k + 150])
            files.append(("eq_%d" % s, text))
        outs = sv.coq_eval_files(ctx, files, timeout=900)
        si = 0
        for s in range(nshard):
            part = model_items[s::nshard]
            if not part:
                continue
            rc3, out = outs[si]
            si += 1
            vals3 = sv.coq_values(out) if rc3 == 0 else None
            rows = [x for v in (vals3 or []) for x in v]
            if rc3 != 0 or len(rows) != len(part):
                failures.append({"key": "C09/model-run-failed", "what": "coqc failed on model cases (%s rows of %d): %s" % (len(rows), len(part), out[-400:]),
                                 "replay": {"out": out[-1500:]}})
                continue
            for row, (_, info) in zip(rows, part):
                mrun += 1
                bad = compare_model(row, info, cases, res)
                for key, what, extra in bad:
                    mm += 1
                    ci = info[0]
                    failures.append({"key": key, "what": what, "replay": {"case": cases[ci] if ci >= 0 else None, **extra}})
    stats = {"evaluations": evals, "nontrivial": nontrivial, "dist": dist, "model_rows": mrun, "model_mismatches": mm,
             "strings_hashed": len(str_hash), "ints_converted": len(zs)}
    return failures, stats


def show(v):
    t = v[0]
    if t == "int":
        z = v[1]
        if abs(z) >= 2 ** 70:
            return "int(~2^%d)" % (abs(z).bit_length() - 1) + ("" if z > 0 else "-")
        return str(z)
    if t == "float":
        return "float(%r)" % bits2f(v[1])
    if t == "str":
        return repr(v[1][:30])
    if t in ("tuple", "list"):
        inner = ", ".join(show(x) for x in v[1])
        return "(%s)" % inner if t == "tuple" else "[%s]" % inner
    if t == "none":
        return "None"
    if t == "bool":
        return str(v[1])
    return str(v)[:60]


def compare_model(row, info, cases, res):
    """row: list of ints printed by Eq/Cases.v; returns [(key, what, extra)] for disagreements model vs implementation."""
    ci, kd = info[0], info[1]
    bad = []
    if kd == "z2f":
        z, got = info[2], info[3]
        if row != [got]:
            bad.append(("C09/model-differs/int-to-float", "float(%d): implementation bits %s, Coq model %s" % (z, got, row), {"z": str(z)}))
        return bad
    r = res[ci]
    if kd == "hash":
        i, o = info[2], info[3]
        if o != ("int", row[0]):
            bad.append(("C09/model-differs/hash-builtin", "hash() = %s, Coq model %s" % (o, row), {"i": i}))
        return bad
    if kd == "sorted":
        rev, o = info[2], info[3]
        want = ("err", "unsupported") if row == [-1] else ("list", [("int", x) for x in row])
        if o != want:
            bad.append(("C09/model-differs/sorted", "sorted(reverse=%s) = %s, Coq model %s" % (rev, o, row), {"expr": "sorted", "rev": rev}))
        return bad
    i, j = info[2], info[3]
    veq_ab, veq_ba, cab, cba, ha, hb, fab, fba, wf = row
    descs = r["values"]
    a, b = absval(descs[i]), absval(descs[j])

    def nn(x, none_code):
        return none_code if x is None else x
    checks = [("equals(a,b)", int(r["eq"][i][j]), veq_ab), ("equals(b,a)", int(r["eq"][j][i]), veq_ba),
              ("compare(a,b)", nn(r["cmp"][i][j], 2), cab), ("compare(b,a)", nn(r["cmp"][j][i], 2), cba),
              ("hash(a)", nn(r["hash"][i], -1), ha), ("hash(b)", nn(r["hash"][j], -1), hb), ("canonical-representation", 1, wf)]
    for name, impl, model in checks:
        if impl != model:
            if name == "hash(a)":
                kk = kind(descs[i])
            elif name == "hash(b)":
                kk = kind(descs[j])
            else:
                kk = "%s-vs-%s" % tuple(sorted([kind(descs[i]), kind(descs[j])]))
            bad.append(("C09/model-differs/%s/%s" % (name.split("(")[0], kk),
                        "%s with a=%s b=%s: implementation %s, Coq model %s" % (name, show(a), show(b), impl, model), {"i": i, "j": j}))
    if i < j:
        meta = cases[ci]["meta"]
        for (kd2, i2, j2), out in zip(meta["exprs"], r["exprs"]):
            if (i2, j2) != (i, j) or kd2 not in ("get", "get_r", "in_dict", "in_set", "len2"):
                continue
            o = as_bool(out)
            f = fba if kd2 == "get_r" else fab
            if f == -1:
                want = ("err", "unhashable")
            elif kd2 in ("get", "get_r"):
                want = ("int", 1) if f else ("none",)
            elif kd2 == "len2":
                want = ("int", 1 if f else 2)
            else:
                want = ("bool", bool(f))
            if o != want:
                bad.append(("C09/model-differs/lookup/%s-vs-%s" % tuple(sorted([kind(descs[i]), kind(descs[j])])),
                            "%s with a=%s b=%s: implementation %s, Coq model %s" % (kd2, show(a), show(b), o, want), {"i": i, "j": j, "expr": kd2}))
    return bad


def table_state(ctx):
    """The hash-route table compiled into the Coq model on this run (read back from Eq/Model.vo)."""
    text = ("From Coq Require Import List.\nFrom SV Require Import Eq.Model.\nImport ListNotations.\n"
            "Eval vm_compute in [hp_small hash_path; hp_big hash_path; hp_float hash_path; uniform hash_path].\n")
    try:
        (rc, out), = sv.coq_eval_files(ctx, [("eq_table", text)], timeout=120)
        v = sv.coq_values(out)[0]
        return dict(zip(["small_overrides_get_hash", "big_overrides_get_hash", "float_overrides_get_hash", "uniform"], [x == "true" for x in v]))
    except Exception:  # noqa: BLE001
        return {}


def correspond(ctx):
    cases = gen_cases(ctx)
    ctx.log("generated %d cases (%d expressions)" % (len(cases), sum(len(c["exprs"]) for c in cases)))
    failures, st = evaluate(ctx, cases)
    tab = table_state(ctx)
    ctx.log("evaluations=%d model_rows=%d model_mismatches=%d failures=%d hash routes=%s"
            % (st["evaluations"], st["model_rows"], st["model_mismatches"], len(failures), tab))
    keys = {}
    for f in failures:
        keys[f["key"]] = keys.get(f["key"], 0) + 1
    if keys:
        ctx.log("failure keys: %s" % keys)
    slim = lambda c: {"src": c["src"], "lib": c["lib"], "exprs": c["exprs"][:4]}  # noqa: E731
    cov = {
        "evaluations": st["evaluations"],
        "distinct_nontrivial": len(st["nontrivial"]),
        "rule": "families of values around integer anchors (0, +-2^31, +-2^53, +-2^63, 2^64, 2^1024 ...), floats incl. NaN/inf/-0.0/subnormals, "
                "strings (ASCII, non-ASCII, empty, > 16 bytes) and tuples/lists, each value built through a random construction path "
                "(literal, hex, parsed, arithmetic, shift, int<->float conversion, concat, slice, %-format, .format, join, comprehension, copy, "
                "frozen in a loaded module); per case all ordered pairs and all triples; evaluations = Rust-level equals/compare/get_hashed "
                "entries + Starlark expressions + triples + conversions; non-trivial = a pair of distinct variables that are equal in the "
                "specification and differ in representation or construction path, distinct by the described values",
        "traces_validated_against_impl": st["model_rows"],
        "model_mismatches": st["model_mismatches"],
        "input_distribution": st["dist"],
        "strings_hashed": st["strings_hashed"],
        "ints_converted_to_float": st["ints_converted"],
        "extracted_hash_routes": tab,
        "exhaustive": False,
        "samples": [slim(cases[0]), slim(cases[len(cases) // 2]), slim(cases[-1])],
    }
    return {"coverage": cov, "failures": failures}


def search(ctx, broken):
    """A proof obligation or the tie broke: random pairs/triples against the specification with the deep generators."""
    old = ctx.tier
    ctx.tier = "thorough"
    try:
        cases = gen_cases(ctx, scale=0.5)
        failures, st = evaluate(ctx, cases, with_model=False)
    finally:
        ctx.tier = old
    return {"failures": failures, "coverage": {"evaluations": st["evaluations"], "cases": len(cases)}}


def replay(ctx, rep):
    c = (rep.get("replay") or {}).get("case")
    if not c:
        return {"coverage": {}, "failures": []}
    failures, st = evaluate(ctx, [c])
    return {"coverage": {"evaluations": st["evaluations"], "distinct_nontrivial": len(st["nontrivial"]), "samples": [c["src"]]}, "failures": failures}


META = {
    "category": "proof",
    "level_text": "Full for the model, with two refutations that are genuine findings. Coq theorems (Properties/C09.v, closed under the global "
                  "context): equality is reflexive and symmetric; the 64-bit numeric pre-hash and write_hash are coherent with equality for every "
                  "small int / big int / float (exact binary64 model incl. NaN, infinities, -0.0, subnormals, rounding of int->float); the 32-bit "
                  "hash used by dict/set is coherent iff all numeric types take the same route from get_hash_64 to the 32-bit value - decided for "
                  "the table extracted from the code on every run (currently refuted: F1, big ints inherit the default get_hash); equality is "
                  "transitive and equals mathematical equality on values whose integers are <= 2^53 in magnitude and is refuted beyond (F3); "
                  "ordering is antisymmetric, agrees with equality, is transitive on float-free values, total within a type, and is the order of Z "
                  "on integers; insertion sort (the model's stable sort) returns a stably ordered permutation.",
    "level_note": "Trusted: Coq kernel; tools/extract.py (hash routes, mixing constants); harness bin eqhash; the Python specification oracle; string "
                  "hashing is an abstract content function in the model; dict/set/struct equality is checked against the specification only; "
                  "sorted() is tied to the model by testing, its stability theorem is about the insertion-sort representative. The tie is "
                  "differential testing, so a code change outside the generated families' reach can escape.",
    "technique": "Coq proof over an exact binary64/Small-Big model; translator-extracted hash-route table and constants; model (vm_compute) and "
                 "specification oracle vs implementation on families of construction paths; pairs and triples",
    "design_ref": "DESIGN.md section 4 C09, section 9 F1/F3",
}
