"""C09 Equality, hashing and ordering are coherent, so dict and set lookups are right.

Proof: coq/Eq/{Model,Spec,Proofs}.v + Properties/C09.v.  The model mirrors NumRef (eq / cmp / get_hash_64 with an
exact binary64), the two routes from the 64-bit pre-hash to the 32-bit StarlarkHashValue (fmix64 override vs the
default Fx hasher over write_hash; which numeric type takes which route is *extracted from the code on every run*),
structural equals/compare of tuples/lists/strings, and sorted().

Tie: the `eqhash` harness builds the same abstract value through different construction paths and representations
(literal / computed / parsed / converted / sliced / formatted / frozen in a loaded module) and reports ==, <, dict and
set lookups, len of two-key dicts, sorted(), hash(), plus Value::equals / compare / get_hashed from Rust.  Every
observation is compared with (1) the Coq model run on the implementation's own representation of the values
(Eq/Cases.v, vm_compute) and (2) the specification = mathematical equality / order of the abstract values (Python
exact arithmetic below).  Disagreements with the specification are classified by narrow keys.

Sorting tie: sorted(xs) / sorted(xs, reverse=True) WITHOUT key, sorted with key=, min and max, on lists of every length
0..200 around the thresholds of the usual sort algorithms (16, 20, 21, 32, 33, 64, 128; also 255..1000, thorough up to
5000) whose elements are equal but distinguishable (1 / 1.0, 0 / 0.0 / -0.0, tuples and lists of such twins, tagged tuples
under a key), in random / sorted / reversed / few-keys / runs / sawtooth / organ-pipe / nearly-sorted / all-equal orders.
The result is compared as the exact sequence of (value, type) with the specification `stable sort under the exact order`
(min / max: the first extremal element) and, for a sample, with the Coq model's isort, the object of C09_sort_stable_perm."""
import struct
from fractions import Fraction
from functools import cmp_to_key

import sv

PROP = "C09"
HARNESS_BINS = ["eqhash"]
COQ_TARGETS = ["Properties/C09.vo", "Eq/Cases.vo"]
TRUSTED = ["binary64 modelled exactly as m*2^e in canonical form; num-bigint's to_f64 and `as` casts modelled as round-to-nearest-even / "
           "saturating truncation (validated on every run against float(z) of the implementation)",
           "string hashing modelled as an arbitrary function of the content (the observed 32-bit hashes are fed to the model; "
           "two equal contents with different hashes are reported directly)",
           "UTF-8 byte order = scalar value order for string comparison",
           "coqc vm_compute evaluation of Eq/Cases.v (cases.v route)"]
ASSUMPTIONS = ["dict/set/struct equality and ordering are checked against the specification only (not in the Coq model)",
               "sorted(): the theorem is proved for insertion sort as the representative stable sort; the tie compares sorted() "
               "of the implementation with it on lists that are pairwise comparable (lists of up to 33 elements and lists that must be "
               "refused through sorted_model = all-pairs comparability test + isort; longer lists, pairwise comparable in the "
               "specification, through isort (key_leb reverse) alone), and with the specification's stable sort on every generated list",
               "min()/max() are checked against the specification `first minimal / maximal element` (Python's rule, which the code "
               "follows) and against the head of the model's stable ascending / descending sort",
               "the model/implementation tie is differential testing over generated families of values"]

K_F1 = "C09/hash-incoherent/bigint-vs-float"
K_F3 = "C09/eq-not-transitive/int-float-above-2^53"
K_PANIC_INCOMPARABLE = "C09/sorted-panics/incomparable-elements"
K_PANIC_F3 = "C09/sorted-panics/int-float-above-2^53"
P53 = 2 ** 53
IMIN, IMAX = -2 ** 31, 2 ** 31 - 1


# ---------------------------------------------------------------------------------------------------------
# abstract values:  ('none',) ('bool',b) ('int',z) ('float',bits) ('str',s) ('tuple',[..]) ('list',[..]) ('dict',[(k,v)..])

def f2bits(x):
    return struct.unpack("<Q", struct.pack("<d", x))[0]


def bits2f(b):
    return struct.unpack("<d", struct.pack("<Q", b))[0]


def int_to_float_bits(z):
    """RNE conversion (the specification of float(int)); >= 2^1024 rounds to infinity."""
    try:
        return f2bits(float(z))
    except OverflowError:
        return f2bits(float("inf") if z > 0 else float("-inf"))


NAN_BITS = 0x7ff8000000000000


def is_nan_bits(b):
    return (b >> 52) & 0x7ff == 0x7ff and (b & ((1 << 52) - 1)) != 0


def num_key(v):
    """Total order key of the specification: -inf < reals < +inf < NaN; exact rational values."""
    if v[0] == "int":
        return (1, Fraction(v[1]))
    b = v[1]
    if is_nan_bits(b):
        return (3, 0)
    f = bits2f(b)
    if f == float("inf"):
        return (2, 0)
    if f == float("-inf"):
        return (0, 0)
    return (1, Fraction(f))


def is_num(v):
    return v[0] in ("int", "float")


def spec_eq(a, b):
    if is_num(a) and is_num(b):
        return num_key(a) == num_key(b)
    if a[0] != b[0]:
        return False
    t = a[0]
    if t == "none":
        return True
    if t in ("bool", "str"):
        return a[1] == b[1]
    if t in ("tuple", "list"):
        return len(a[1]) == len(b[1]) and all(spec_eq(x, y) for x, y in zip(a[1], b[1]))
    if t == "dict":
        if len(a[1]) != len(b[1]):
            return False
        for k, v in a[1]:
            m = [v2 for k2, v2 in b[1] if spec_eq(k, k2)]
            if len(m) != 1 or not spec_eq(v, m[0]):
                return False
        return True
    return a == b


def spec_cmp(a, b):
    """-1/0/1 or None (not comparable)."""
    if is_num(a) and is_num(b):
        ka, kb = num_key(a), num_key(b)
        return (ka > kb) - (ka < kb)
    if a[0] != b[0]:
        return None
    t = a[0]
    if t == "bool":
        return (a[1] > b[1]) - (a[1] < b[1])
    if t == "str":
        x, y = [ord(c) for c in a[1]], [ord(c) for c in b[1]]
        return (x > y) - (x < y)
    if t in ("tuple", "list"):
        for x, y in zip(a[1], b[1]):
            c = spec_cmp(x, y)
            if c is None:
                return None
            if c != 0:
                return c
        return (len(a[1]) > len(b[1])) - (len(a[1]) < len(b[1]))
    return None


def spec_hashable(a):
    if a[0] in ("list", "dict", "set", "other"):
        return False
    if a[0] == "tuple":
        return all(spec_hashable(x) for x in a[1])
    return True


def java_hash(s):
    h = 0
    u = s.encode("utf-16-be", "surrogatepass")
    for i in range(0, len(u), 2):
        h = (31 * h + (u[i] << 8 | u[i + 1])) & 0xffffffff
    return h - (1 << 32) if h >= 1 << 31 else h


def f3_pair(a, b):
    """One int and one float, |int| > 2^53, different exact values that coincide after rounding the int to binary64."""
    if not (is_num(a) and is_num(b)) or a[0] == b[0]:
        return False
    i, f = (a, b) if a[0] == "int" else (b, a)
    if abs(i[1]) <= P53 or is_nan_bits(f[1]):
        return False
    return num_key(i) != num_key(f) and int_to_float_bits(i[1]) == f[1]


def leaves(a, b):
    """Parallel walk: the leaf pairs at which two values of the same shape are compared."""
    if a[0] in ("tuple", "list") and a[0] == b[0]:
        out = []
        for x, y in zip(a[1], b[1]):
            out += leaves(x, y)
        return out
    return [(a, b)]


def has_f3(a, b):
    return any(f3_pair(x, y) for x, y in leaves(a, b))


def only_f3_differs(a, b):
    """spec says a != b, and every leaf pair on which the spec and a rounding comparison disagree is an F3 pair."""
    ls = leaves(a, b)
    bad = [(x, y) for x, y in ls if not spec_eq(x, y)]
    return bool(bad) and all(f3_pair(x, y) for x, y in bad)


def kind(d):
    """Representation kind of a described value."""
    if d["t"] == "int":
        return "smallint" if d.get("r") == "small" else "bigint"
    return d["t"]


# ---------------------------------------------------------------------------------------------------------
# implementation descriptions -> abstract values / Coq terms

def absval(d):
    t = d["t"]
    if t == "none":
        return ("none",)
    if t == "bool":
        return ("bool", bool(d["v"]))
    if t == "int":
        return ("int", int(d["v"]))
    if t == "float":
        return ("float", int(d["bits"]))
    if t == "str":
        return ("str", d["v"])
    if t in ("tuple", "list"):
        return (t, [absval(x) for x in d["v"]])
    if t == "dict":
        return ("dict", [(absval(k), absval(v)) for k, v in d["v"]])
    return ("other", d.get("repr"))


def modelable(d):
    t = d["t"]
    if t in ("none", "bool", "int", "float", "str"):
        return True
    if t in ("tuple", "list"):
        return all(modelable(x) for x in d["v"])
    return False


def coq_float(bits):
    s, e, m = bits >> 63, (bits >> 52) & 0x7ff, bits & ((1 << 52) - 1)
    if e == 0x7ff:
        return "NaN" if m else ("NInf" if s else "PInf")
    if e == 0:
        if m == 0:
            return "NegZero" if s else "(Fin 0 (-1074))"
        return "(Fin %s (-1074))" % sv.zlit(-m if s else m)
    mm = m + (1 << 52)
    return "(Fin %s %s)" % (sv.zlit(-mm if s else mm), sv.zlit(e - 1075))


def coq_str(s):
    return "[" + ";".join(str(ord(c)) for c in s) + "]"


def coq_val(d):
    t = d["t"]
    if t == "none":
        return "VNone"
    if t == "bool":
        return "(VBool %s)" % ("true" if d["v"] else "false")
    if t == "int":
        return "(VNum (NInt (%s %s)))" % ("Small" if d.get("r") == "small" else "Big", sv.zlit(int(d["v"])))
    if t == "float":
        return "(VNum (NFloat %s))" % coq_float(int(d["bits"]))
    if t == "str":
        return "(VStr %s)" % coq_str(d["v"])
    return "(%s [%s])" % ("VTuple" if t == "tuple" else "VList", ";".join(coq_val(x) for x in d["v"]))


def strings_of(d, out):
    if d["t"] == "str":
        out.append((d["v"], d.get("h")))
    elif d["t"] in ("tuple", "list"):
        for x in d["v"]:
            strings_of(x, out)


# ---------------------------------------------------------------------------------------------------------
# construction paths (Starlark source) for an abstract value

def slit(s):
    out = []
    for c in s:
        if c == "\\":
            out.append("\\\\")
        elif c == '"':
            out.append('\\"')
        elif c == "\n":
            out.append("\\n")
        elif c == "\t":
            out.append("\\t")
        else:
            out.append(c)
    return '"' + "".join(out) + '"'


def int_paths(z, rng):
    ps = [("lit", "(%d)" % z), ("parse", 'int("%d")' % z), ("hex", "(%s0x%x)" % ("-" if z < 0 else "", abs(z)))]
    k = rng.randint(1, 40)
    ps.append(("arith", "(opaque(%d) + %d)" % (z - k, k)))
    if z != 0:
        n = abs(z)
        tz = (n & -n).bit_length() - 1
        ps.append(("shift", "(opaque(%d) << %d)" % (z >> tz, tz)))
        ps.append(("mul", "(opaque(%d) * %d)" % (z, 1)))
    if abs(z) <= P53:
        ps.append(("from_float", "int(%s)" % repr(float(z))))
    return ps


def float_src(bits):
    if is_nan_bits(bits):
        return 'float("nan")'
    f = bits2f(bits)
    if f == float("inf"):
        return 'float("inf")'
    if f == float("-inf"):
        return 'float("-inf")'
    r = repr(f)
    if "e" not in r and "." not in r:
        r += ".0"
    return "(%s)" % r


def float_paths(bits, rng):
    src = float_src(bits)
    ps = [("lit", src)]
    if not src.startswith("float("):
        ps.append(("parse", 'float("%s")' % src.strip("()")))
    ps.append(("mul1", "(opaque(%s) * 1.0)" % src))
    if is_nan_bits(bits):
        ps.append(("inf-inf", '(float("inf") - opaque(float("inf")))'))
    else:
        f = bits2f(bits)
        if f == f and abs(f) != float("inf") and f == int(f) and not (f == 0 and bits >> 63):
            z = int(f)
            ps.append(("from_int", "float(%d)" % z))
            ps.append(("from_int_rt", "float(opaque(%d))" % z))
            if abs(z) < 2 ** 62:
                ps.append(("int_mul", "(opaque(%d) * 1.0)" % z))
    return ps


def str_paths(s, rng):
    ps = [("lit", slit(s))]
    k = rng.randint(0, len(s))
    ps.append(("concat", "(opaque(%s) + %s)" % (slit(s[:k]), slit(s[k:]))))
    pad = rng.choice(["x", "é", "ab", "😀"])
    ps.append(("slice", "opaque(%s)[%d:%d]" % (slit(pad + s + pad), len(pad), len(pad) + len(s))))
    ps.append(("percent", '("%%s" %% opaque(%s))' % slit(s)))
    ps.append(("format", '"{}".format(opaque(%s))' % slit(s)))
    ps.append(("join", '"".join([%s])' % ", ".join(slit(c) for c in s)))
    if len(s) == 1:
        ps.append(("index", "opaque(%s)[1]" % slit("q" + s + "q")))
    if s and s == s.lower() and s.upper().lower() == s and s.upper() != s and len(s.upper()) == len(s):
        ps.append(("lower", "opaque(%s).lower()" % slit(s.upper())))
    return ps


def src_of(v, rng, depth=0):
    """A random construction path for abstract value v: (tag, source)."""
    t = v[0]
    if t == "none":
        return rng.choice([("lit", "None"), ("call", "opaque(None)"), ("get", "{}.get(1)")])
    if t == "bool":
        if v[1]:
            return rng.choice([("lit", "True"), ("cmp", "(opaque(1) == 1)"), ("not", "(not opaque(False))"), ("bool", "bool(opaque(2))")])
        return rng.choice([("lit", "False"), ("cmp", "(opaque(1) == 2)"), ("not", "(not opaque(True))"), ("bool", "bool(opaque(0))")])
    if t == "int":
        return rng.choice(int_paths(v[1], rng))
    if t == "float":
        return rng.choice(float_paths(v[1], rng))
    if t == "str":
        return rng.choice(str_paths(v[1], rng))
    if t in ("tuple", "list"):
        parts = [src_of(x, rng, depth + 1)[1] for x in v[1]]
        inner = ", ".join(parts)
        if t == "tuple":
            forms = [("lit", "(%s%s)" % (inner, "," if len(parts) == 1 else "")), ("from_list", "tuple([%s])" % inner),
                     ("compr", "tuple([x for x in [%s]])" % inner)]
            if parts:
                forms.append(("concat", "((%s,) + (%s%s))" % (parts[0], ", ".join(parts[1:]), "," if len(parts) == 2 else "")))
        else:
            forms = [("lit", "[%s]" % inner), ("from_tuple", "list((%s%s))" % (inner, "," if len(parts) == 1 else "")),
                     ("compr", "[x for x in [%s]]" % inner), ("copy", "list([%s])" % inner), ("slice", "[%s][:]" % inner)]
        return rng.choice(forms)
    raise ValueError(v)


def float_from_int(z):
    return ("float", int_to_float_bits(z))


def next_float(bits, d):
    """Neighbouring finite float (by bit pattern, same sign)."""
    return bits + d


# ---------------------------------------------------------------------------------------------------------
# families of values -> cases

def make_case(vals, rng, tag, frozen_some=True):
    """vals: list of abstract values (intended).  Build each through a random path; some through a frozen module."""
    lib_lines, src_lines, names, paths = [], [], [], []
    loads = []
    for i, v in enumerate(vals):
        ptag, src = src_of(v, rng)
        name = "v%d" % i
        if frozen_some and rng.random() < 0.3:
            lib_lines.append("L%d = %s" % (i, src))
            loads.append("L%d" % i)
            src_lines.append("%s = L%d" % (name, i))
            ptag = "frozen:" + ptag
        else:
            src_lines.append("%s = %s" % (name, src))
        names.append(name)
        paths.append(ptag)
    src = ""
    if loads:
        src += "load('lib.star', %s)\n" % ", ".join("'%s'" % l for l in loads)
    src += "\n".join(src_lines) + "\n"
    src += "VS = [%s]\n" % ", ".join(names)
    n = len(vals)
    exprs = []
    for i in range(n):
        for j in range(i + 1, n):
            a, b = names[i], names[j]
            for k, e in (("eq", "%s == %s" % (a, b)), ("eq_r", "%s == %s" % (b, a)), ("ne", "%s != %s" % (a, b)),
                         ("lt", "%s < %s" % (a, b)), ("le", "%s <= %s" % (a, b)), ("gt", "%s > %s" % (a, b)),
                         ("get", "{%s: 1}.get(%s)" % (a, b)), ("get_r", "{%s: 1}.get(%s)" % (b, a)),
                         ("in_dict", "%s in {%s: 1}" % (b, a)), ("in_set", "%s in set([%s])" % (b, a)),
                         ("len2", "len(dict([(%s, 1), (%s, 2)]))" % (a, b))):
                exprs.append((k, i, j, e))
    exprs.append(("sorted", -1, 0, "sorted(range(%d), key = lambda i: VS[i])" % n))
    exprs.append(("sorted", -1, 1, "sorted(range(%d), key = lambda i: VS[i], reverse = True)" % n))
    for i, v in enumerate(vals):
        if v[0] == "str":
            exprs.append(("hash", i, i, "hash(%s)" % names[i]))
    return {"lib": "\n".join(lib_lines) + "\n" if lib_lines else None, "src": src, "values": names,
            "exprs": [e[3] for e in exprs], "meta": {"tag": tag, "paths": paths, "exprs": [list(e[:3]) for e in exprs],
                                                     "intended": [encode_abs(v) for v in vals]}}


def encode_abs(v):
    if v[0] in ("tuple", "list"):
        return [v[0], [encode_abs(x) for x in v[1]]]
    if v[0] in ("int", "float"):
        return [v[0], str(v[1])]
    return list(v)


def decode_abs(e):
    if e[0] in ("tuple", "list"):
        return (e[0], [decode_abs(x) for x in e[1]])
    if e[0] in ("int", "float"):
        return (e[0], int(e[1]))
    return tuple(e)


INT_ANCHORS = [0, 1, -1, 2 ** 31 - 1, 2 ** 31, -2 ** 31, -2 ** 31 - 1, 2 ** 32, 2 ** 40, -2 ** 40, 2 ** 53 - 1, 2 ** 53, 2 ** 53 + 1,
               2 ** 53 + 2, -2 ** 53, -2 ** 53 - 1, 2 ** 62, 2 ** 63 - 1, 2 ** 63, 2 ** 63 + 1, -2 ** 63, -2 ** 63 - 1, 2 ** 64,
               2 ** 64 + 1, 10 ** 18, 10 ** 19, 10 ** 24 + 3, 10 ** 24 + 5, 2 ** 100, 2 ** 1023, 2 ** 1024 - 2 ** 970, 2 ** 1024 - 2 ** 970 - 1,
               2 ** 1024, -2 ** 1030, 3 * 2 ** 60 + 1, 2 ** 54 + 2, 2 ** 54 + 3, 2 ** 54 + 6]
FLOAT_SPECIALS = [0.0, -0.0, 1.0, -1.0, 0.5, 1.5, 2.5, 1e100, 5e-324, 2.2250738585072014e-308, 1.7976931348623157e+308, 0.1, 3.0, 1e15, 1e16,
                  2147483647.0, 2147483648.0, -2147483648.0, -2147483649.0, 2147483647.5, 4294967296.0, 9007199254740992.0,
                  9007199254740994.0, -9007199254740992.0, 9.223372036854776e18, 1.8446744073709552e19]


def rand_int(rng):
    bits = rng.choice([1, 4, 16, 30, 31, 32, 33, 40, 52, 53, 54, 55, 60, 63, 64, 65, 80, 128, 300, 1023, 1024, 1025])
    z = rng.getrandbits(bits) | (1 << (bits - 1))
    if rng.random() < 0.4:
        z = (1 << bits) + rng.randint(-3, 3)
    return -z if rng.random() < 0.5 else z


def num_family(rng, anchor=None):
    """Values around an integer anchor: the int, its float, neighbours, the exact float if any."""
    z = anchor if anchor is not None else rand_int(rng)
    vals = [("int", z), ("int", z), float_from_int(z)]
    fb = int_to_float_bits(z)
    f = bits2f(fb)
    if f == f and abs(f) != float("inf"):
        vals.append(("int", int(f)))                       # the integer the float denotes exactly
        if fb & (2 ** 63 - 1) not in (0,) and (fb >> 52) & 0x7ff not in (0, 0x7fe):
            vals.append(("float", fb + rng.choice([1, -1])))   # neighbouring float
    vals.append(("int", z + rng.choice([1, -1, 2])))
    if rng.random() < 0.3:
        vals.append(("float", f2bits(rng.choice(FLOAT_SPECIALS))))
    rng.shuffle(vals)
    return vals[:7]


def float_family(rng):
    picks = [f2bits(x) for x in rng.sample(FLOAT_SPECIALS, 3)]
    vals = [("float", b) for b in picks] + [("float", picks[0])]
    vals += [("float", NAN_BITS), ("float", f2bits(float("inf"))), ("float", f2bits(-0.0)), ("float", f2bits(0.0)), ("int", 0),
             ("float", f2bits(float("-inf"))), ("float", NAN_BITS)]
    f = bits2f(picks[1])
    if f == int(f):
        vals.append(("int", int(f)))
    rng.shuffle(vals)
    return vals[:7]


ALPHABETS = ["abcxyz", "abc012 _-/:.", "aé", "éèüß", "😀😁a", "日本語テキスト", "aA", "\\\"'%{}"]


def rand_str(rng):
    n = rng.choice([0, 1, 1, 2, 3, 4, 7, 8, 9, 15, 16, 17, 24, 33, 40])
    al = rng.choice(ALPHABETS)
    return "".join(rng.choice(al) for _ in range(n))


def str_family(rng, s=None):
    s = rand_str(rng) if s is None else s
    vals = [("str", s)] * 3
    if s:
        vals.append(("str", s[:-1]))
        vals.append(("str", s[:-1] + chr(ord(s[-1]) + 1)))
        vals.append(("str", s + s[0]))
    else:
        vals.append(("str", "a"))
    vals.append(("str", rand_str(rng)))
    rng.shuffle(vals)
    return vals[:7]


def atom(rng):
    k = rng.random()
    if k < 0.35:
        return ("int", rng.choice(INT_ANCHORS + [rng.randint(-5, 5)] * 10))
    if k < 0.55:
        return ("float", f2bits(rng.choice(FLOAT_SPECIALS)))
    if k < 0.8:
        return ("str", rand_str(rng))
    if k < 0.9:
        return ("bool", rng.random() < 0.5)
    return ("none",)


def equal_variant(v, rng):
    """A value equal to v in the specification but in another representation where one exists."""
    if v[0] == "int":
        fb = int_to_float_bits(v[1])
        if num_key(("float", fb)) == num_key(v) and rng.random() < 0.7:
            return ("float", fb)
        return v
    if v[0] == "float":
        if is_nan_bits(v[1]):
            return v
        f = bits2f(v[1])
        if abs(f) != float("inf") and f == int(f) and rng.random() < 0.7:
            return ("int", int(f))
        if f == 0:
            return ("float", f2bits(-0.0) if rng.random() < 0.5 else 0)
        return v
    if v[0] in ("tuple", "list"):
        return (v[0], [equal_variant(x, rng) for x in v[1]])
    return v


def container_family(rng):
    n = rng.choice([0, 1, 2, 2, 3])
    kind_ = rng.choice(["tuple", "tuple", "list"])
    homog = rng.random() < 0.6
    if homog:
        base_kind = rng.choice(["num", "str"])
        elems = [(("int", rng.choice(INT_ANCHORS)) if base_kind == "num" else ("str", rand_str(rng))) for _ in range(n)]
    else:
        elems = [atom(rng) for _ in range(n)]
    if rng.random() < 0.3 and n:
        elems[rng.randrange(n)] = ("tuple", [atom(rng) for _ in range(rng.choice([0, 1, 2]))])
    if rng.random() < 0.15 and n:
        elems[rng.randrange(n)] = ("list", [atom(rng)])
    base = (kind_, elems)
    vals = [base, base, equal_variant(base, rng), equal_variant(base, rng)]
    if n:
        e2 = list(elems)
        i = rng.randrange(n)
        e2[i] = atom(rng) if not homog else ((("int", elems[i][1] + 1) if elems[i][0] == "int" else ("str", elems[i][1] + "a")) if elems[i][0] in ("int", "str") else atom(rng))
        vals.append((kind_, e2))
        vals.append((kind_, elems[:-1]))
    vals.append(("tuple" if kind_ == "list" else "list", elems))
    rng.shuffle(vals)
    return vals[:7]


def cross_family(rng):
    vals = [("int", 1), ("bool", True), ("float", f2bits(1.0)), ("str", "1"), ("tuple", [("int", 1)]), ("none",), ("list", [("int", 1)]),
            ("int", 0), ("bool", False), ("str", ""), ("tuple", []), ("list", [])]
    rng.shuffle(vals)
    return vals[:7]


def corpus_cases(rng):
    import glob
    import json
    import os
    out = []
    for p in sorted(glob.glob(os.path.join(sv.ROOT, "corpus", "C09", "*.json"))):
        for fam in json.load(open(p)).get("families", []):
            vals = [decode_abs(e) for e in fam["values"]]
            for rep in range(fam.get("repeat", 1)):
                out.append(make_case(vals, rng, "corpus:" + fam.get("name", os.path.basename(p))))
    return out


def gen_cases(ctx, scale=1.0):
    rng = ctx.rng
    cases = corpus_cases(rng)
    for z in INT_ANCHORS:
        cases.append(make_case(num_family(rng, z), rng, "num-anchor"))
    for _ in range(int(ctx.n(30, 400) * scale)):
        cases.append(make_case(num_family(rng), rng, "num-rand"))
    for _ in range(int(ctx.n(12, 100) * scale)):
        cases.append(make_case(float_family(rng), rng, "float"))
    for s in ["", "a", "é", "😀", "ab", "hello world, this is longer than sixteen bytes", "x" * 16, "y" * 17]:
        cases.append(make_case(str_family(rng, s), rng, "str-fixed"))
    for _ in range(int(ctx.n(25, 300) * scale)):
        cases.append(make_case(str_family(rng), rng, "str-rand"))
    for _ in range(int(ctx.n(45, 500) * scale)):
        cases.append(make_case(container_family(rng), rng, "container"))
    for _ in range(int(ctx.n(4, 30) * scale)):
        cases.append(make_case(cross_family(rng), rng, "cross"))
    # numbers NESTED in hashable containers: an element is hashed through the container's `write_hash`, not through the
    # number's own `get_hash`, so equal numbers of different representation must also agree there - for every sign and
    # magnitude class (negative small ints sign-extend), at every position and depth
    nested = [-1, -2, -7, -100, -2 ** 31, -2 ** 31 + 1, 0, 1, 7, 2 ** 31 - 1, 2 ** 31, -2 ** 31 - 1, 2 ** 40, -2 ** 40, 2 ** 53, -2 ** 53]
    for z in nested + [rng.randint(-2 ** 31, -1) for _ in range(ctx.n(6, 60))] + [rng.randint(0, 2 ** 31 - 1) for _ in range(ctx.n(3, 30))]:
        i_, f_ = ("int", z), ("float", int_to_float_bits(z))
        if num_key(f_) != num_key(i_):
            continue
        other = atom(rng)
        cases.append(make_case([("tuple", [i_, other]), ("tuple", [f_, other]), ("tuple", [other, i_]), ("tuple", [other, f_]),
                                ("tuple", [i_]), ("tuple", [f_]), ("tuple", [i_, i_])], rng, "nested-twins"))
        cases.append(make_case([("tuple", [("tuple", [i_])]), ("tuple", [("tuple", [f_])]), ("tuple", [("tuple", [other, f_]), i_]),
                                ("tuple", [("tuple", [other, i_]), f_]), ("tuple", [f_, f_]), ("tuple", [i_, f_]), ("tuple", [f_, i_])],
                               rng, "nested-twins"))
    return cases


# ---------------------------------------------------------------------------------------------------------
# evaluation

def as_bool(r):
    if r is None:
        return ("missing",)
    if "err" in r:
        return ("err", r["err"])
    if r.get("t") == "bool":
        return ("bool", bool(r["v"]))
    if r.get("t") == "int":
        return ("int", int(r["v"]))
    if r.get("t") == "none":
        return ("none",)
    if r.get("t") == "list":
        return ("list", [absval(x) for x in r["v"]])
    return ("other", str(r)[:80])


def classify_eq(a, b, da, db):
    """impl == differs from the specification."""
    if only_f3_differs(a, b):
        return K_F3
    return "C09/eq-differs-from-spec/%s-vs-%s" % tuple(sorted([kind(da), kind(db)]))


def classify_lookup(a, b, da, db, speq, found):
    if speq and not found:
        ks = sorted([kind(da), kind(db)])
        if ks == ["bigint", "float"]:
            return K_F1
        return "C09/hash-incoherent/%s-vs-%s" % tuple(ks)
    if has_f3(a, b):
        return K_F3
    return "C09/lookup-finds-unequal-key/%s-vs-%s" % tuple(sorted([kind(da), kind(db)]))


def evaluate(ctx, cases, with_model=True):
    rc, log, res = sv.run_harness_sharded(ctx, "eqhash", [{k: c[k] for k in ("lib", "src", "values", "exprs")} for c in cases], timeout=900)
    failures = []
    if rc != 0:
        failures.append({"key": "C09/harness-crash", "what": "eqhash exited with %s: %s" % (rc, log[-300:]), "replay": {"rc": rc}})
    evals = 0
    nontrivial = set()
    dist = {}
    str_hash = {}       # content -> observed 32-bit hash
    model_items = []    # (coq case text, (ci, kind, i, j))
    z2f_seen = set()

    def fail(key, what, ci, extra):
        c = cases[ci]
        failures.append({"key": key, "what": what, "replay": {"case": c, **extra}})

    for ci, (c, r) in enumerate(zip(cases, res)):
        meta = c["meta"]
        dist[meta["tag"]] = dist.get(meta["tag"], 0) + 1
        if r is None or "panic" in r:
            fail("C09/panic", "no result / panic: %s" % str(r)[:200], ci, {"impl": r})
            continue
        if "setup_err" in r:
            fail("C09/construct/setup-error", "case could not be set up (%s): %s" % (r.get("where"), r["setup_err"]), ci, {"impl": r})
            continue
        descs = r["values"]
        vals = [absval(d) for d in descs]
        intended = [decode_abs(e) for e in meta["intended"]]
        n = len(vals)
        # (0) each construction path builds the intended value (bit-exact for floats; NaN up to payload), canonically
        for i in range(n):
            evals += 1
            ok = vals[i] == intended[i] or (vals[i][0] == "float" == intended[i][0] and is_nan_bits(vals[i][1]) and is_nan_bits(intended[i][1]))
            if ok and descs[i]["t"] == "int":
                ok = (descs[i]["r"] == "small") == (IMIN <= vals[i][1] <= IMAX)
            if not ok:
                fail("C09/construct/%s" % meta["paths"][i].split(":")[-1],
                     "path %s built %s, intended %s" % (meta["paths"][i], descs[i], intended[i]), ci, {"index": i, "impl": descs[i]})
            ss = []
            strings_of(descs[i], ss)
            for content, h in ss:
                if h is not None and str_hash.setdefault(content, h) != h:
                    fail("C09/hash-incoherent/string-representations",
                         "string %r has hash %s here (path %s) and %s elsewhere" % (content, h, meta["paths"][i], str_hash[content]),
                         ci, {"index": i})
        eqm, cmpm, hashes = r["eq"], r["cmp"], r["hash"]
        # (1) Rust-level matrices against the specification
        for i in range(n):
            for j in range(n):
                evals += 2
                a, b = vals[i], vals[j]
                se, sc = spec_eq(a, b), spec_cmp(a, b)
                if eqm[i][j] != se:
                    fail(classify_eq(a, b, descs[i], descs[j]) if (eqm[i][j] and not se) else
                         "C09/eq-differs-from-spec/%s-vs-%s" % tuple(sorted([kind(descs[i]), kind(descs[j])])),
                         "Value::equals(%s, %s) = %s, specification %s (paths %s / %s)" % (show(a), show(b), eqm[i][j], se, meta["paths"][i], meta["paths"][j]),
                         ci, {"i": i, "j": j, "impl": eqm[i][j], "spec": se})
                if eqm[i][j] != eqm[j][i]:
                    fail("C09/eq-not-symmetric", "equals(%s,%s)=%s but equals(%s,%s)=%s" % (show(a), show(b), eqm[i][j], show(b), show(a), eqm[j][i]), ci, {"i": i, "j": j})
                if cmpm[i][j] != sc:
                    key = K_F3 if (has_f3(a, b) and cmpm[i][j] == 0) else "C09/order-differs-from-spec/%s-vs-%s" % tuple(sorted([kind(descs[i]), kind(descs[j])]))
                    fail(key, "Value::compare(%s, %s) = %s, specification %s" % (show(a), show(b), cmpm[i][j], sc), ci,
                         {"i": i, "j": j, "impl": cmpm[i][j], "spec": sc})
                if (hashes[i] is not None) != spec_hashable(a):
                    fail("C09/hashability", "get_hashed(%s) %s, specification hashable=%s" % (show(a), hashes[i], spec_hashable(a)), ci, {"i": i})
                if i < j and se and a != b or (i < j and se and meta["paths"][i] != meta["paths"][j]):
                    nontrivial.add((str(descs[i]), str(descs[j])))
            if not eqm[i][i]:
                fail("C09/eq-not-reflexive", "equals(%s, itself) is false" % show(vals[i]), ci, {"i": i})
        # triples: transitivity of the implementation's own equality and order
        for i in range(n):
            for j in range(n):
                if not eqm[i][j]:
                    continue
                for k in range(n):
                    evals += 1
                    if eqm[j][k] and not eqm[i][k]:
                        trip = (vals[i], vals[j], vals[k])
                        f3 = has_f3(trip[0], trip[1]) or has_f3(trip[1], trip[2]) or has_f3(trip[0], trip[2])
                        fail(K_F3 if f3 else "C09/eq-not-transitive/other",
                             "%s == %s and %s == %s but %s != %s" % (show(trip[0]), show(trip[1]), show(trip[1]), show(trip[2]), show(trip[0]), show(trip[2])),
                             ci, {"i": i, "j": j, "k": k})
        for i in range(n):
            for j in range(n):
                if cmpm[i][j] is None or cmpm[i][j] > 0:
                    continue
                for k in range(n):
                    if cmpm[j][k] is None or cmpm[j][k] > 0 or cmpm[i][k] is None:
                        continue
                    evals += 1
                    want = -1 if (cmpm[i][j] < 0 or cmpm[j][k] < 0) else 0
                    if cmpm[i][k] != want:
                        trip = (vals[i], vals[j], vals[k])
                        f3 = has_f3(trip[0], trip[1]) or has_f3(trip[1], trip[2]) or has_f3(trip[0], trip[2])
                        fail(K_F3 if f3 else "C09/order-not-transitive",
                             "compare chain %s %s %s gives %s,%s but ends %s" % (show(trip[0]), show(trip[1]), show(trip[2]), cmpm[i][j], cmpm[j][k], cmpm[i][k]),
                             ci, {"i": i, "j": j, "k": k})
        # (2) Starlark-level observations against the specification and the Rust-level answers
        for (kd, i, j), out in zip(meta["exprs"], r["exprs"]):
            evals += 1
            o = as_bool(out)
            if kd == "sorted":
                rev = bool(j)
                comparable = all(spec_cmp(x, y) is not None for x in vals for y in vals)
                none_comparable = n >= 2 and all(spec_cmp(x, y) is None for xi, x in enumerate(vals) for yi, y in enumerate(vals) if xi != yi)
                if comparable:
                    sgn = -1 if rev else 1
                    want = sorted(range(n), key=cmp_to_key(lambda x, y: sgn * spec_cmp(vals[x], vals[y])))
                    got = [v[1] for v in o[1]] if o[0] == "list" else None
                    if got != want:
                        f3 = any(has_f3(x, y) for x in vals for y in vals)
                        fail(K_F3 if f3 else "C09/sorted-differs-from-spec", "sorted(reverse=%s) over keys %s = %s, specification (stable) %s"
                             % (rev, [show(v) for v in vals], got if got is not None else o, want), ci, {"expr": "sorted", "rev": rev, "impl": str(o), "spec": want})
                elif none_comparable and o[0] != "err":
                    fail("C09/sorted-accepts-incomparable", "sorted over pairwise incomparable keys returned %s" % (o,), ci, {"expr": "sorted"})
                if (comparable or none_comparable) and with_model and all(modelable(d) for d in descs):
                    model_items.append(("CSort %s [%s]" % ("true" if rev else "false", ";".join(coq_val(d) for d in descs)), (ci, "sorted", rev, o)))
                continue
            a, b = vals[i], vals[j]
            if kd == "hash":
                want = java_hash(a[1])
                if o != ("int", want):
                    fail("C09/hash-builtin", "hash(%r) = %s, specification %s" % (a[1], o, want), ci, {"i": i})
                if with_model:
                    model_items.append(("CJava %s" % coq_str(a[1]), (ci, "hash", i, o)))
                continue
            se, sc = spec_eq(a, b), spec_cmp(a, b)
            hashable = spec_hashable(a) and spec_hashable(b)
            if kd in ("eq", "eq_r", "ne"):
                want = ("bool", se if kd != "ne" else not se)
                rust = ("bool", eqm[i][j] if kd != "ne" else not eqm[i][j])
                if o != rust:
                    fail("C09/starlark-vs-rust/%s" % kd, "%s on (%s, %s) gives %s but Value::equals says %s" % (kd, show(a), show(b), o, eqm[i][j]), ci, {"i": i, "j": j, "expr": kd})
                elif o != want:
                    fail(classify_eq(a, b, descs[i], descs[j]) if not se else "C09/eq-differs-from-spec/%s-vs-%s" % tuple(sorted([kind(descs[i]), kind(descs[j])])),
                         "`%s` on (%s, %s) [paths %s / %s] = %s, specification %s" % (kd, show(a), show(b), meta["paths"][i], meta["paths"][j], o, want),
                         ci, {"i": i, "j": j, "expr": kd, "impl": str(o), "spec": str(want)})
            elif kd in ("lt", "le", "gt"):
                if sc is None:
                    want = ("err", "unsupported")
                else:
                    want = ("bool", {"lt": sc < 0, "le": sc <= 0, "gt": sc > 0}[kd])
                if o != want:
                    key = K_F3 if (has_f3(a, b) and cmpm[i][j] == 0) else "C09/order-differs-from-spec/%s-vs-%s" % tuple(sorted([kind(descs[i]), kind(descs[j])]))
                    fail(key, "`%s` on (%s, %s) = %s, specification %s" % (kd, show(a), show(b), o, want), ci,
                         {"i": i, "j": j, "expr": kd, "impl": str(o), "spec": str(want)})
            else:
                if not hashable:
                    # a dict literal hashes its keys left to right; `b in {a: 1}` hashes a first
                    if o[0] != "err" or o[1] != "unhashable":
                        fail("C09/hashability", "`%s` on (%s, %s) = %s, specification: unhashable error" % (kd, show(a), show(b), o), ci, {"i": i, "j": j, "expr": kd})
                    continue
                want = {"get": ("int", 1) if se else ("none",), "get_r": ("int", 1) if se else ("none",), "in_dict": ("bool", se),
                        "in_set": ("bool", se), "len2": ("int", 1 if se else 2)}[kd]
                if o != want:
                    found = o in (("int", 1), ("bool", True)) if kd != "len2" else o == ("int", 1)
                    fail(classify_lookup(a, b, descs[i], descs[j], se, found),
                         "`%s` with a=%s b=%s [paths %s / %s]: a == b is %s, result %s, specification %s"
                         % ({"get": "{a: 1}.get(b)", "get_r": "{b: 1}.get(a)", "in_dict": "b in {a: 1}", "in_set": "b in set([a])", "len2": "len(dict([(a, 1), (b, 2)]))"}[kd],
                            show(a), show(b), meta["paths"][i], meta["paths"][j], eqm[i][j], o, want),
                         ci, {"i": i, "j": j, "expr": kd, "impl": str(o), "spec": str(want)})
        # (3) the Coq model on the implementation's representation of every pair
        if with_model:
            for i in range(n):
                if descs[i]["t"] == "float" and meta["paths"][i].split(":")[-1] in ("from_int", "from_int_rt"):
                    pass
                for j in range(i, n):
                    if modelable(descs[i]) and modelable(descs[j]):
                        model_items.append(("CPair %s %s" % (coq_val(descs[i]), coq_val(descs[j])), (ci, "pair", i, j)))
            for i in range(n):
                if intended[i][0] == "int" and abs(intended[i][1]) > 1 and intended[i][1] not in z2f_seen:
                    z2f_seen.add(intended[i][1])
    # float(z) of the implementation against the model and the specification, for every integer seen
    zs = sorted(z2f_seen)
    if zs:
        zcases = [{"lib": None, "src": "\n".join("f%d = float(opaque(%d))" % (k, z) for k, z in enumerate(chunk)) + "\n",
                   "values": ["f%d" % k for k in range(len(chunk))], "exprs": []} for chunk in [zs[k:k + 50] for k in range(0, len(zs), 50)]]
        rc2, _, zres = sv.run_harness_sharded(ctx, "eqhash", zcases, timeout=600)
        flat = []
        for zc, zr in zip(zcases, zres):
            vs = (zr or {}).get("values") or []
            flat += [int(v["bits"]) if v.get("t") == "float" else None for v in vs] + [None] * (len(zc["values"]) - len(vs))
        for z, got in zip(zs, flat):
            evals += 1
            want = int_to_float_bits(z)
            if got != want:
                failures.append({"key": "C09/int-to-float-rounding", "what": "float(%d) has bits %s, round-to-nearest-even gives %s" % (z, got, want),
                                 "replay": {"z": str(z), "impl": got, "spec": want}})
            if with_model and got is not None:
                model_items.append(("CZ2F %s" % sv.zlit(z), (-1, "z2f", z, got)))

    # run the model
    mm = 0
    mrun = 0
    if with_model and model_items:
        tab = "[" + ";".join("(%s, %d)" % (coq_str(s), h) for s, h in sorted(str_hash.items())) + "]"
        nshard = sv.NPROC
        files = []
        for s in range(nshard):
            part = model_items[s::nshard]
            if not part:
                continue
            text = ("From Coq Require Import ZArith List.\nFrom SV Require Import Int.Model Eq.Model Eq.Cases.\nImport ListNotations.\n"
                    "Open Scope Z_scope.\nDefinition tab : list (list Z * Z) := %s.\n" % tab)
            for k in range(0, len(part), 150):
                text += "Eval vm_compute in (run_cases tab [\n%s]).\n" % ";\n".join(t for t, _ in part[k:k + 150])
            files.append(("eq_%d" % s, text))
        outs = sv.coq_eval_files(ctx, files, timeout=900)
        si = 0
        for s in range(nshard):
            part = model_items[s::nshard]
            if not part:
                continue
            rc3, out = outs[si]
            si += 1
            vals3 = sv.coq_values(out) if rc3 == 0 else None
            rows = [x for v in (vals3 or []) for x in v]
            if rc3 != 0 or len(rows) != len(part):
                failures.append({"key": "C09/model-run-failed", "what": "coqc failed on model cases (%s rows of %d): %s" % (len(rows), len(part), out[-400:]),
                                 "replay": {"out": out[-1500:]}})
                continue
            for row, (_, info) in zip(rows, part):
                mrun += 1
                bad = compare_model(row, info, cases, res)
                for key, what, extra in bad:
                    mm += 1
                    ci = info[0]
                    failures.append({"key": key, "what": what, "replay": {"case": cases[ci] if ci >= 0 else None, **extra}})
    stats = {"evaluations": evals, "nontrivial": nontrivial, "dist": dist, "model_rows": mrun, "model_mismatches": mm,
             "strings_hashed": len(str_hash), "ints_converted": len(zs)}
    return failures, stats


def show(v):
    t = v[0]
    if t == "int":
        z = v[1]
        if abs(z) >= 2 ** 70:
            return "int(~2^%d)" % (abs(z).bit_length() - 1) + ("" if z > 0 else "-")
        return str(z)
    if t == "float":
        return "float(%r)" % bits2f(v[1])
    if t == "str":
        return repr(v[1][:30])
    if t in ("tuple", "list"):
        inner = ", ".join(show(x) for x in v[1])
        return "(%s)" % inner if t == "tuple" else "[%s]" % inner
    if t == "none":
        return "None"
    if t == "bool":
        return str(v[1])
    return str(v)[:60]


def compare_model(row, info, cases, res):
    """row: list of ints printed by Eq/Cases.v; returns [(key, what, extra)] for disagreements model vs implementation."""
    ci, kd = info[0], info[1]
    bad = []
    if kd == "z2f":
        z, got = info[2], info[3]
        if row != [got]:
            bad.append(("C09/model-differs/int-to-float", "float(%d): implementation bits %s, Coq model %s" % (z, got, row), {"z": str(z)}))
        return bad
    r = res[ci]
    if kd == "hash":
        i, o = info[2], info[3]
        if o != ("int", row[0]):
            bad.append(("C09/model-differs/hash-builtin", "hash() = %s, Coq model %s" % (o, row), {"i": i}))
        return bad
    if kd == "sorted":
        rev, o = info[2], info[3]
        want = ("err", "unsupported") if row == [-1] else ("list", [("int", x) for x in row])
        if o != want:
            bad.append(("C09/model-differs/sorted", "sorted(reverse=%s) = %s, Coq model %s" % (rev, o, row), {"expr": "sorted", "rev": rev}))
        return bad
    i, j = info[2], info[3]
    veq_ab, veq_ba, cab, cba, ha, hb, fab, fba, wf = row
    descs = r["values"]
    a, b = absval(descs[i]), absval(descs[j])

    def nn(x, none_code):
        return none_code if x is None else x
    checks = [("equals(a,b)", int(r["eq"][i][j]), veq_ab), ("equals(b,a)", int(r["eq"][j][i]), veq_ba),
              ("compare(a,b)", nn(r["cmp"][i][j], 2), cab), ("compare(b,a)", nn(r["cmp"][j][i], 2), cba),
              ("hash(a)", nn(r["hash"][i], -1), ha), ("hash(b)", nn(r["hash"][j], -1), hb), ("canonical-representation", 1, wf)]
    for name, impl, model in checks:
        if impl != model:
            if name == "hash(a)":
                kk = kind(descs[i])
            elif name == "hash(b)":
                kk = kind(descs[j])
            else:
                kk = "%s-vs-%s" % tuple(sorted([kind(descs[i]), kind(descs[j])]))
            bad.append(("C09/model-differs/%s/%s" % (name.split("(")[0], kk),
                        "%s with a=%s b=%s: implementation %s, Coq model %s" % (name, show(a), show(b), impl, model), {"i": i, "j": j}))
    if i < j:
        meta = cases[ci]["meta"]
        for (kd2, i2, j2), out in zip(meta["exprs"], r["exprs"]):
            if (i2, j2) != (i, j) or kd2 not in ("get", "get_r", "in_dict", "in_set", "len2"):
                continue
            o = as_bool(out)
            f = fba if kd2 == "get_r" else fab
            if f == -1:
                want = ("err", "unhashable")
            elif kd2 in ("get", "get_r"):
                want = ("int", 1) if f else ("none",)
            elif kd2 == "len2":
                want = ("int", 1 if f else 2)
            else:
                want = ("bool", bool(f))
            if o != want:
                bad.append(("C09/model-differs/lookup/%s-vs-%s" % tuple(sorted([kind(descs[i]), kind(descs[j])])),
                            "%s with a=%s b=%s: implementation %s, Coq model %s" % (kd2, show(a), show(b), o, want), {"i": i, "j": j, "expr": kd2}))
    return bad


# ---------------------------------------------------------------------------------------------------------
# sorted() / min() / max() over lists of length 0..200 (and beyond) that contain many elements which compare equal
# but can be told apart (1 / 1.0, 0 / 0.0 / -0.0, tuples and lists of such twins), with and without key=, both
# directions, in several initial orders.  The oracle is the specification "stable sort of the keys under the exact
# order" (and for a sample of the lists the Coq model's isort through Eq/Cases.v); results are compared as the exact
# sequence of (value, type) so that the position of `1` relative to `1.0` is visible.

# lengths straddle the thresholds of the usual sort algorithms (insertion sort <= 16/20, small-sort <= 32, run
# detection / pseudo-median at 64 and 128, on-stack scratch buffers of 256 / 512 elements, sqrt run length above 4096)
SORT_LENS = [0, 1, 2, 3, 4, 5, 8, 9, 10, 15, 16, 17, 19, 20, 21, 22, 24, 31, 32, 33, 34, 40, 48, 50, 63, 64, 65, 96, 100,
             127, 128, 129, 150, 200]
SORT_LENS_LONG = [255, 256, 257, 300, 511, 512, 513, 1000]
SORT_LENS_HUGE = [2047, 2048, 2049, 4095, 4096, 4097, 5000]
SORT_ORDERS = ["random", "sorted", "reversed", "few", "runs", "sawtooth", "organ", "nearly", "allequal", "blocks", "tail"]
SORT_FLAVOURS = ["num", "num", "num-half", "tuple1", "tuple2", "list1", "nested", "zeros", "strtuple", "tagged", "ints", "strs", "special"]
NUM_FLAVOURS = ("num", "num-half", "zeros", "ints", "special")
TUPLE_FLAVOURS = ("tuple1", "tuple2", "nested", "strtuple", "tagged")
SORT_MODEL_MAX_N = 200


def rank_seq(n, order, rng):
    """n ranks (small non-negative integers; equal ranks become equal keys) in the given initial order."""
    if n == 0:
        return []
    k = rng.choice([2, 3, 4, 5, 8, 12, 20, 40])
    if order == "few":
        k = rng.choice([1, 2, 2, 3, 4])
    if order == "allequal":
        k = 1
    rs = [rng.randrange(k) for _ in range(n)]
    if order == "sorted":
        return sorted(rs)
    if order == "reversed":
        return sorted(rs, reverse=True)
    if order == "runs":
        out = []
        while len(out) < n:
            run = sorted(rng.randrange(k) for _ in range(rng.choice([1, 2, 3, 5, 8, 16, 20, 33, 64])))
            if rng.random() < 0.3:
                run.reverse()
            out += run
        return out[:n]
    if order == "sawtooth":
        p = rng.choice([2, 3, 5, 7, k])
        return [(i % p) % k for i in range(n)]
    if order == "organ":
        s = sorted(rs)
        return s[::2] + s[1::2][::-1]
    if order == "nearly":
        s = sorted(rs)
        for _ in range(rng.choice([1, 2, 3, 5])):
            i, j = rng.randrange(n), rng.randrange(n)
            s[i], s[j] = s[j], s[i]
        return s
    if order == "blocks":
        b = rng.choice([2, 4, 8, 16, 32])
        return [((n - 1 - i) // b) % k for i in range(n)]
    if order == "tail":
        t = min(n, rng.choice([1, 2, 3, 8]))
        return sorted(rs[:n - t]) + rs[n - t:]
    return rs          # random / few / allequal


def num_rep(z, as_float, rng):
    """The number z (|z| <= 2^53) as an int or as the float equal to it (zero: 0.0 or -0.0)."""
    if not as_float:
        return ("int", z)
    if z == 0 and rng.random() < 0.5:
        return ("float", f2bits(-0.0))
    return ("float", f2bits(float(z)))


SPECIAL_LADDER = [("f", float("-inf")), ("z", -2 ** 40), ("z", -1), ("z", 0), ("f", 0.5), ("z", 1), ("f", 1.5), ("z", 2 ** 31),
                  ("z", 2 ** 40), ("f", 1e300), ("f", float("inf")), ("nan", None)]


def make_elems(flavour, ranks, rng):
    n = len(ranks)
    mode = rng.choice(["rand", "rand", "rand", "alt", "halves", "mostly-int", "mostly-float"])

    def fl(i):
        if mode == "alt":
            return i % 2 == 1
        if mode == "halves":
            return i >= n // 2
        return rng.random() < {"rand": 0.5, "mostly-int": 0.15, "mostly-float": 0.85}[mode]
    base = rng.choice([0, 0, 0, -3, 2 ** 31 - 3, -(2 ** 31) - 2, 2 ** 40, 2 ** 53 - 64])
    m = rng.choice([2, 3, 4])
    out = []
    for i, r in enumerate(ranks):
        if flavour == "num":
            v = num_rep(base + r, fl(i), rng)
        elif flavour == "num-half":
            b = base if abs(base) <= 3 else 0
            v = num_rep(b + r // 2, fl(i), rng) if r % 2 == 0 else ("float", f2bits(b + r / 2))
        elif flavour == "tuple1":
            v = ("tuple", [num_rep(base + r, fl(i), rng), ("str", "a")])
        elif flavour == "tuple2":
            v = ("tuple", [num_rep(r // m, fl(i), rng), num_rep(r % m, rng.random() < 0.5, rng)])
        elif flavour == "list1":
            v = ("list", [num_rep(base + r, fl(i), rng)])
        elif flavour == "nested":
            v = ("tuple", [num_rep(r // 2, fl(i), rng), ("tuple", [num_rep(r % 2, rng.random() < 0.5, rng), ("str", "x")])])
        elif flavour == "zeros":
            v = num_rep(0, fl(i), rng)
        elif flavour == "strtuple":
            v = ("tuple", [("str", "k%02d" % r), num_rep(0, fl(i), rng)])
        elif flavour == "tagged":
            v = ("tuple", [num_rep(base + r, fl(i), rng), ("int", i)])
        elif flavour == "ints":
            v = ("int", r - 3)
        elif flavour == "strs":
            v = ("str", "%02d" % r + "".join(rng.choice("ab") for _ in range(rng.choice([0, 0, 1, 2]))))
        elif flavour == "special":
            kd, x = SPECIAL_LADDER[r % len(SPECIAL_LADDER)]
            v = num_rep(x, fl(i), rng) if kd == "z" else ("float", NAN_BITS if kd == "nan" else f2bits(x))
        else:
            raise ValueError(flavour)
        out.append(v)
    return out


def lit_src(v):
    t = v[0]
    if t == "int":
        return "%d" % v[1]
    if t == "float":
        return float_src(v[1])
    if t == "str":
        return slit(v[1])
    if t == "tuple":
        return "(%s%s)" % (", ".join(lit_src(x) for x in v[1]), "," if len(v[1]) == 1 else "")
    if t == "list":
        return "[%s]" % ", ".join(lit_src(x) for x in v[1])
    if t == "bool":
        return "True" if v[1] else "False"
    return "None"


def _neg(v):
    return ("int", -v[1]) if v[0] == "int" else ("float", v[1] ^ (1 << 63))


def _abs(v):
    return ("int", abs(v[1])) if v[0] == "int" else ("float", v[1] & ~(1 << 63))


# key functions: name -> (Starlark source, the same function on abstract values)
def key_fn(name):
    if name.startswith("div"):
        m = int(name[3:])
        return "lambda x: x // %d" % m, lambda v: ("int", v[1] // m)
    if name.startswith("mod"):
        m = int(name[3:])
        return "lambda x: x %% %d" % m, lambda v: ("int", v[1] % m)
    return {
        "ident": ("lambda x: x", lambda v: v),
        "neg": ("lambda x: -x", _neg),
        "abs": ("abs", _abs),
        "const": ("lambda x: 0", lambda v: ("int", 0)),
        "wrap": ("lambda x: (x,)", lambda v: ("tuple", [v])),
        "wrap2": ("lambda x: [0.0, x]", lambda v: ("list", [("float", 0), v])),
        "fst": ("lambda t: t[0]", lambda v: v[1][0]),
        "snd": ("lambda t: t[1]", lambda v: v[1][1]),
        "len": ("len", lambda v: ("int", len(v[1]))),
        "pre": ("lambda s: s[:2]", lambda v: ("str", v[1][:2])),
        "pre1": ("lambda s: s[:1]", lambda v: ("str", v[1][:1])),
    }[name]


def key_names_for(flavour):
    ks = ["ident", "const", "wrap", "wrap2"]
    if flavour in NUM_FLAVOURS and flavour != "special":
        ks += ["neg", "abs"]
    if flavour == "special":
        ks += ["neg"]
    if flavour in TUPLE_FLAVOURS:
        ks += ["fst", "fst", "snd"]
    if flavour == "ints":
        ks += ["div2", "div5", "mod2", "mod3", "mod7"]
    if flavour == "strs":
        ks += ["len", "pre", "pre1"]
    return ks


def form_src(f, n):
    """Starlark source of one observation on the list XS."""
    it = f.get("it", "XS")
    if f["kind"] == "sorted":
        if f["out"] == "index":
            args = ["range(%d)" % n, "key = lambda i: XS[i]"]
        else:
            args = [it] + (["key = %s" % key_fn(f["key"])[0]] if f["key"] else [])
        if f["rev"]:
            args.append("reverse = True")
        return "sorted(%s)" % ", ".join(args)
    kw = ["key = %s" % key_fn(f["key"])[0]] if f["key"] else []
    args = kw + ["*XS"] if f.get("star") else [it] + kw          # a named argument has to precede *args
    return "%s(%s)" % (f["kind"], ", ".join(args))


def sort_forms(flavour, n, rng, expect_err=False):
    its = ["XS", "XS", "tuple(XS)", "XS[:]", "list(XS)"]
    forms = [{"kind": "sorted", "key": None, "rev": False, "out": "elems", "it": rng.choice(its)},
             {"kind": "sorted", "key": None, "rev": True, "out": "elems", "it": rng.choice(its)}]
    ks = key_names_for(flavour) if not expect_err else ["ident", "wrap"]
    for kn in rng.sample(ks, min(3, len(ks))):
        forms.append({"kind": "sorted", "key": kn, "rev": rng.random() < 0.5, "out": "elems", "it": rng.choice(its)})
    if n <= 300:
        forms.append({"kind": "sorted", "key": None, "rev": rng.random() < 0.5, "out": "index"})
    for kind_ in ("min", "max"):
        forms.append({"kind": kind_, "key": None, "it": rng.choice(its), "star": n >= 2 and n <= 200 and rng.random() < 0.3})
        forms.append({"kind": kind_, "key": rng.choice(ks), "it": "XS", "star": n >= 2 and n <= 200 and rng.random() < 0.2})
    return forms


def sort_case(elems, forms, tag, rng=None, frozen=False, info=None):
    """A harness case observing `forms` on the list XS of `elems`.  With rng, some elements go through a random
    construction path (others, and all elements without rng, are literals)."""
    parts = [(src_of(v, rng)[1] if rng is not None and rng.random() < 0.1 else lit_src(v)) for v in elems]
    body = "[%s]" % ", ".join(parts)
    if frozen:
        lib, src = "L = %s\n" % body, "load('lib.star', 'L')\nXS = L\n"
    else:
        lib, src = None, "XS = %s\n" % body
    n = len(elems)
    return {"lib": lib, "src": src, "values": ["XS"], "exprs": [form_src(f, n) for f in forms],
            "meta": dict({"kind": "sort", "tag": tag, "n": n, "forms": forms, "intended": [encode_abs(v) for v in elems]}, **(info or {}))}


def corpus_sort_cases():
    """Hand-written / minimised lists (corpus/C09/*.json, key "sort_lists"), run first, literal elements."""
    import glob
    import json
    import os
    out = []
    for p in sorted(glob.glob(os.path.join(sv.ROOT, "corpus", "C09", "*.json"))):
        for e in json.load(open(p)).get("sort_lists", []):
            elems = [decode_abs(x) for x in e["elems"]]
            out.append(sort_case(elems, e["forms"], "corpus:" + e.get("name", os.path.basename(p)), None,
                                 frozen=bool(e.get("frozen")), info=dict({"flavour": e.get("flavour", "corpus"), "order": e.get("order", "fixed")},
                                           **({"expect_err": True} if e.get("expect_err") else {}))))
    return out


def gen_sort_cases(ctx, scale=1.0):
    rng = ctx.rng
    cases = []

    def one(n, flavour, order, tag):
        ranks = rank_seq(n, order, rng)
        elems = make_elems(flavour, ranks, rng)
        cases.append(sort_case(elems, sort_forms(flavour, n, rng), tag, rng, frozen=rng.random() < 0.2,
                               info={"flavour": flavour, "order": order}))
    lens = list(SORT_LENS)
    per_len = max(1, int(ctx.n(5, 40) * scale))
    for n in lens:
        one(n, "num", "few", "sort-len")                       # int/float twins, few distinct keys, random order
        one(n, rng.choice(["tuple1", "tuple2", "list1", "nested"]), "random", "sort-len")
        for _ in range(per_len):
            one(n, rng.choice(SORT_FLAVOURS), rng.choice(SORT_ORDERS), "sort-len")
    for n in SORT_LENS_LONG:
        one(n, "num", "few", "sort-long")
        for _ in range(max(1, int(ctx.n(2, 12) * scale))):
            one(n, rng.choice(SORT_FLAVOURS), rng.choice(SORT_ORDERS), "sort-long")
    if not ctx.quick():
        for n in SORT_LENS_HUGE:
            one(n, "num", "few", "sort-huge")
            for _ in range(max(1, int(3 * scale))):
                one(n, rng.choice(SORT_FLAVOURS), rng.choice(SORT_ORDERS), "sort-huge")
    for _ in range(int(ctx.n(60, 800) * scale)):
        one(rng.randint(0, 200), rng.choice(SORT_FLAVOURS), rng.choice(SORT_ORDERS), "sort-rand")
    # one element of another type among n - 1 numbers: every sort / min / max must refuse (one observation per case, so
    # that a panic of the library is attributed to the observation that caused it)
    for n in [2, 3, 17, 20, 21, 33, 64, 100]:
        elems = make_elems("num", rank_seq(n - 1, rng.choice(["random", "sorted", "reversed"]), rng), rng)
        elems.insert(rng.choice([0, n // 2, n - 1, rng.randrange(n)]), ("str", "s"))
        for f in sort_forms("num", n, rng, expect_err=True):
            cases.append(sort_case(elems, [f], "sort-odd-one-out", None, info={"flavour": "odd-one-out", "order": "random", "expect_err": True}))
    # the known non-transitive neighbourhood of 2^53 (F3): recorded, classified as the known finding
    for n in [3, 20, 21, 33, 64]:
        pool = [("int", P53 + 1), ("float", f2bits(float(P53))), ("int", P53)]
        if rng.random() < 0.5:
            pool += [("int", P53 + 2), ("float", f2bits(float(P53 + 2))), ("int", P53 + 3), ("int", P53 - 1)]
        elems = [rng.choice(pool) for _ in range(n)]
        for rev in (False, True):
            cases.append(sort_case(elems, [{"kind": "sorted", "key": None, "rev": rev, "out": "elems", "it": "XS"}], "sort-f3", None,
                                   info={"flavour": "f3", "order": "random"}))
    return cases


def any_f3(elems):
    seen = {}
    for e in elems:
        seen.setdefault(repr(e), e)
    ds = list(seen.values())
    return any(has_f3(x, y) for x in ds for y in ds)


def norm_abs(v):
    """NaN payloads are not distinguished."""
    if v[0] == "float" and is_nan_bits(v[1]):
        return ("float", NAN_BITS)
    if v[0] in ("tuple", "list"):
        return (v[0], [norm_abs(x) for x in v[1]])
    return v


def spec_stable_order(keys, rev):
    """Indices 0..n-1 stably sorted by the specification's order of the keys (Python's sorted is a stable sort)."""
    sgn = -1 if rev else 1
    return sorted(range(len(keys)), key=cmp_to_key(lambda x, y: sgn * spec_cmp(keys[x], keys[y])))


def spec_first_extremal(keys, want_min):
    """Index of the first element whose key is minimal (maximal)."""
    best = 0
    for i in range(1, len(keys)):
        c = spec_cmp(keys[best], keys[i])
        if (c > 0) if want_min else (c < 0):
            best = i
    return best


def sort_defect(elems, keys, rev, got):
    """Which clause of `stably ordered permutation` a result (a list of abstract values, one per position) breaks."""
    if sorted(repr(x) for x in got) != sorted(repr(x) for x in elems):
        return "not-a-permutation"
    # recover the key of each output element from the input (elements with the same exact value have the same key)
    kof = {}
    for e, k in zip(elems, keys):
        kof.setdefault(repr(e), k)
    gk = [kof[repr(x)] for x in got]
    sgn = -1 if rev else 1
    if any(sgn * spec_cmp(gk[i], gk[i + 1]) > 0 for i in range(len(gk) - 1)):
        return "not-ordered"
    return "not-stable"


def show_list(vs, limit=70):
    s = ", ".join(show(v) for v in vs[:limit])
    return "[%s%s]" % (s, ", ... (%d more)" % (len(vs) - limit) if len(vs) > limit else "")


def out_value(o):
    if o is None:
        return ("missing",)
    if "err" in o:
        return ("err", o["err"], o.get("msg", "")[:120])
    return norm_abs(absval(o))


def check_sort_case(c, r, nontrivial=None):
    """One sort case against the specification.  -> (failures [(key, what, extra)], evaluations, elems or None)"""
    meta = c["meta"]
    bad = []
    if r is None or "panic" in r:
        key = "C09/panic"
        msg = str((r or {}).get("panic"))
        intended = [decode_abs(e) for e in meta["intended"]]
        if "total order" in msg and all(f["kind"] == "sorted" for f in meta["forms"]):
            # Vec::sort_by detected that the comparison it was given is not a total order and panicked
            if meta.get("expect_err"):
                key = K_PANIC_INCOMPARABLE
            elif any_f3(intended):
                key = K_PANIC_F3
            else:
                key = "C09/sorted-panics/other"
        return [(key, "%s on %s [n=%d, %s]: no result / panic: %s; specification: %s"
                 % (c["exprs"], show_list(intended, 24), meta["n"], meta.get("flavour"), str(r)[:200],
                    "an error (an element cannot be compared with the others)" if meta.get("expect_err") else "the stably sorted list"),
                 {"impl": r, "exprs": c["exprs"]})], 1, None
    if "setup_err" in r:
        return [("C09/construct/setup-error", "sort case could not be set up (%s): %s" % (r.get("where"), r["setup_err"]), {"impl": r})], 1, None
    d = r["values"][0]
    intended = [norm_abs(decode_abs(e)) for e in meta["intended"]]
    elems = [norm_abs(absval(x)) for x in d["v"]] if d.get("t") == "list" else None
    evals = 1
    if elems != intended:
        bad.append(("C09/construct/sort-list", "XS was built as %s, intended %s" % (str(elems)[:200], str(intended)[:200]), {}))
        return bad, evals, None
    n = len(elems)
    expect_err = meta.get("expect_err", False)
    for fi, (f, o) in enumerate(zip(meta["forms"], r["exprs"])):
        evals += 1
        got = out_value(o)
        src = c["exprs"][fi]
        keys = [key_fn(f["key"])[1](e) for e in elems] if f.get("key") else elems
        form = "nokey" if not f.get("key") and f.get("out") != "index" else "key"
        where = "n=%d, %s elements in %s order" % (n, meta.get("flavour"), meta.get("order"))
        if expect_err or (n == 0 and f["kind"] != "sorted"):
            if got[0] != "err" or (expect_err and got[1] != "unsupported"):
                bad.append(("C09/%s-accepts-incomparable" % f["kind"] if expect_err else "C09/min-max/empty-accepted",
                            "%s [%s] returned %s, specification: an error" % (src, where, str(got)[:200]), {"expr": src, "form": fi}))
            continue
        if f["kind"] == "sorted":
            order = spec_stable_order(keys, f["rev"])
            want_elems = [elems[i] for i in order]
            want = ("list", [("int", i) for i in order] if f["out"] == "index" else want_elems)
            if nontrivial is not None and n >= 2:
                # stability is observable: two adjacent results have equal keys but are different values
                if any(spec_cmp(keys[order[i]], keys[order[i + 1]]) == 0 and elems[order[i]] != elems[order[i + 1]] for i in range(n - 1)) \
                        or (f["out"] == "index" and any(spec_cmp(keys[order[i]], keys[order[i + 1]]) == 0 for i in range(n - 1))):
                    nontrivial.add(("sort", sv.digest([meta["intended"], src])[:16]))
            if got == want:
                continue
            if got[0] != "list":
                bad.append(("C09/sorted/error/%s" % form, "%s [%s] returned %s, specification (stable sort) %s"
                            % (src, where, str(got)[:200], show_list(want_elems)), {"expr": src, "form": fi, "impl": str(got)[:300]}))
                continue
            if f["out"] == "index":
                ok_idx = all(x[0] == "int" and 0 <= x[1] < n for x in got[1])
                got_elems = [elems[x[1]] for x in got[1]] if ok_idx else None
                defect = "not-a-permutation" if not ok_idx or sorted(x[1] for x in got[1]) != list(range(n)) else \
                    sort_defect(list(range(n)), keys, f["rev"], [x[1] for x in got[1]])
            else:
                got_elems = got[1]
                defect = sort_defect(elems, keys, f["rev"], got_elems)
            pos = next((i for i, (x, y) in enumerate(zip(got[1], want[1])) if x != y), min(len(got[1]), len(want[1])))
            bad.append((K_F3 if any_f3(elems) else "C09/sorted/%s/%s" % (defect, form),
                        "%s [%s] is %s: first difference at position %d: implementation %s, specification (stable sort) %s; "
                        "input %s; implementation %s; specification %s"
                        % (src, where, defect.replace("-", " "), pos, show(got[1][pos]) if pos < len(got[1]) else "<end>",
                           show(want[1][pos]) if pos < len(want[1]) else "<end>", show_list(elems),
                           show_list(got_elems) if got_elems is not None else str(got)[:300], show_list(want_elems)),
                        {"expr": src, "form": fi, "first_difference": pos, "defect": defect,
                         "impl": [show(x) for x in got[1]], "spec": [show(x) for x in want[1]]}))
        else:
            want_min = f["kind"] == "min"
            bi = spec_first_extremal(keys, want_min)
            if nontrivial is not None and any(i != bi and spec_cmp(keys[i], keys[bi]) == 0 and elems[i] != elems[bi] for i in range(n)):
                nontrivial.add(("minmax", sv.digest([meta["intended"], src])[:16]))
            if got == elems[bi]:
                continue
            if got[0] == "err":
                defect = "error"
            else:
                idx = [i for i in range(n) if elems[i] == got]
                defect = "not-an-element" if not idx else ("not-first-among-equals" if any(spec_cmp(keys[i], keys[bi]) == 0 for i in idx) else "not-extremal")
            bad.append((K_F3 if any_f3(elems) else "C09/min-max/%s/%s" % (defect, f["kind"]),
                        "%s [%s] = %s, specification (first %s element, as in Python) %s at index %d; input %s"
                        % (src, where, show(got) if got[0] != "err" else str(got), "minimal" if want_min else "maximal", show(elems[bi]), bi, show_list(elems)),
                        {"expr": src, "form": fi, "defect": defect, "impl": str(got)[:200], "spec": show(elems[bi])}))
    return bad, evals, elems


def run_sort_cases(ctx, cases):
    rc, log, res = sv.run_harness_sharded(ctx, "eqhash", [{k: c[k] for k in ("lib", "src", "values", "exprs")} for c in cases], timeout=900)
    return rc, log, res


def shrink_sort_failure(ctx, c, form_index, key):
    """Delta-debug the list of a failing sort case (literal elements, the one failing observation) keeping the key."""
    meta = c["meta"]
    f = dict(meta["forms"][form_index])
    info = {k: meta.get(k) for k in ("flavour", "order", "expect_err") if k in meta}
    elems = [decode_abs(e) for e in meta["intended"]]

    def build(es):
        return sort_case(es, [f], "sort-minimised", None, frozen=False, info=dict(info, minimised_from=meta["n"]))

    def failing(cands):
        cs = [build(es) for es in cands]
        _, _, res = run_sort_cases(ctx, cs)
        out = []
        for es, cc, rr in zip(cands, cs, res):
            bad, _, _ = check_sort_case(cc, rr)
            hit = [b for b in bad if b[0] == key]
            if hit:
                out.append((es, cc, hit[0]))
        return out
    cur = failing([elems])
    if not cur:
        return None
    best = cur[0]
    chunk = max(1, len(elems) // 2)
    rounds = 0
    while rounds < 60:
        rounds += 1
        es = best[0]
        cands = [es[:i] + es[i + chunk:] for i in range(0, len(es), chunk)]
        cands = [x for x in cands if (2 if f.get("star") else 0) <= len(x) < len(es)]
        hits = failing(cands) if cands else []
        if hits:
            best = min(hits, key=lambda h: len(h[0]))
            chunk = max(1, min(chunk, len(best[0]) // 2))
        elif chunk == 1:
            break
        else:
            chunk = max(1, chunk // 2)
    return best


def coq_rows(ctx, items, prefix, per_eval=1500):
    """items: (list literal, [case constructors applied to it, e.g. "CSort false"], size, cost).  Runs Eq/Cases.v's `run`
    on every (constructor, list), balanced over coqc processes by cost; -> per item the list of rows (None where coqc
    failed) and an error text.  The list is bound by an un-annotated Definition first: elaborating a long list literal
    against an expected type is ~30x slower."""
    if not items:
        return [], None
    nshard = min(sv.NPROC, len(items))
    shards = [[] for _ in range(nshard)]
    load = [0] * nshard
    for idx in sorted(range(len(items)), key=lambda i: -items[i][3]):
        k = load.index(min(load))
        shards[k].append(idx)
        load[k] += items[idx][3]
    files = []
    for s, part in enumerate(shards):
        text = ("From Coq Require Import ZArith List.\nFrom SV Require Import Int.Model Eq.Model Eq.Cases.\nImport ListNotations.\n"
                "Open Scope Z_scope.\n")
        chunk, w = [], 0
        for idx in part + [None]:
            if idx is None or (chunk and w + items[idx][2] > per_eval):
                text += "Eval vm_compute in (run_cases [] [\n%s]).\n" % ";\n".join(chunk)
                chunk, w = [], 0
            if idx is not None:
                lit, ctors, size, _ = items[idx]
                if lit == "[]":
                    name = "(@nil value)"
                else:
                    name = "l%d" % idx
                    text += "Definition %s := %s.\n" % (name, lit)
                chunk += ["%s %s" % (ct, name) for ct in ctors]
                w += size
        files.append(("%s_%d" % (prefix, s), text))
    outs = sv.coq_eval_files(ctx, files, timeout=900)
    rows = [None] * len(items)
    err = None
    for part, (rc, out) in zip(shards, outs):
        vals = sv.coq_values(out) if rc == 0 else None
        got = [x for v in (vals or []) for x in v]
        want = sum(len(items[idx][1]) for idx in part)
        if rc != 0 or len(got) != want:
            err = "coqc failed on model cases (%s rows of %d): %s" % (len(got), want, out[-400:])
            continue
        k = 0
        for idx in part:
            rows[idx] = got[k:k + len(items[idx][1])]
            k += len(items[idx][1])
    return rows, err


def evaluate_sort(ctx, cases, with_model=True, model_budget=None):
    rc, log, res = run_sort_cases(ctx, cases)
    failures = []
    if rc != 0:
        failures.append({"key": "C09/harness-crash", "what": "eqhash exited with %s: %s" % (rc, log[-300:]), "replay": {"rc": rc}})
    evals = 0
    nontrivial = set()
    dist = {}
    lens = set()
    observations = {"sorted-nokey": 0, "sorted-key": 0, "min-max": 0}
    good = []          # (ci, elems) of cases whose list was built as intended
    for ci, (c, r) in enumerate(zip(cases, res)):
        meta = c["meta"]
        dist[meta["tag"]] = dist.get(meta["tag"], 0) + 1
        lens.add(meta["n"])
        bad, ev, elems = check_sort_case(c, r, nontrivial)
        evals += ev
        for f in meta["forms"]:
            observations["min-max" if f["kind"] != "sorted" else ("sorted-key" if f.get("key") or f.get("out") == "index" else "sorted-nokey")] += 1
        for key, what, extra in bad:
            failures.append({"key": key, "what": what, "replay": {"case": c, **extra}})
        if elems is not None:
            good.append(ci)
    # minimise the first failure of each key that comes from an observation on a list
    first = {}
    for f in failures:
        if f["key"] not in first and "form" in f["replay"] and f["key"].split("/")[1] in ("sorted", "min-max"):
            first[f["key"]] = f
    for key, f in first.items():
        try:
            best = shrink_sort_failure(ctx, f["replay"]["case"], f["replay"]["form"], key)
        except Exception as e:  # noqa: BLE001
            ctx.log("minimisation of %s failed: %r" % (key, e))
            best = None
        if best is not None and len(best[0]) < f["replay"]["case"]["meta"]["n"]:
            es, cc, (k2, what, extra) = best
            failures.insert(0, {"key": key, "what": "minimised from n=%d to n=%d: %s" % (f["replay"]["case"]["meta"]["n"], len(es), what),
                                "replay": {"case": cc, **extra}})
    # the Coq model (isort over the implementation's own representation of the elements) on a sample of the lists
    mrun = mm = 0
    if with_model:
        # cost of a row = number of exact comparisons the model performs (each builds ~1100-bit integers for floats):
        # lists of up to 33 elements (and the lists that must be refused) go through sorted_model (all-pairs comparability
        # test + isort), longer ones, which are pairwise comparable in the specification, through isort alone
        budget = model_budget if model_budget is not None else ctx.n(150000, 4000000)
        pick = [ci for ci in good if cases[ci]["meta"]["n"] <= SORT_MODEL_MAX_N and cases[ci]["meta"].get("flavour") != "f3"
                and all(modelable(x) for x in res[ci]["values"][0]["v"])]
        ctx.rng.shuffle(pick)
        pick.sort(key=lambda ci: not cases[ci]["meta"]["tag"].startswith("corpus:"))      # corpus lists first
        items, infos, used = [], [], 0
        for ci in pick:
            meta = cases[ci]["meta"]
            n = meta["n"]
            descs = res[ci]["values"][0]["v"]
            full = n <= 33 or meta.get("expect_err")
            for kname, ks in (("ident", descs), ("fst", [x["v"][0] for x in descs] if descs and all(x["t"] == "tuple" and x["v"] for x in descs) else None)):
                if ks is None or (kname == "fst" and not any(f.get("key") == "fst" for f in meta["forms"])):
                    continue
                aks = [absval(x) for x in ks]
                cost = 50
                for rev in (False, True):
                    if meta.get("expect_err"):
                        cost += 2 * n * n
                    else:
                        order = spec_stable_order(aks, rev)
                        cls = [0] * n
                        for a_, b_ in zip(order, order[1:]):
                            cls[b_] = cls[a_] + (1 if spec_cmp(aks[a_], aks[b_]) != 0 else 0)
                        cost += n + sum(1 for i in range(n) for j in range(i + 1, n) if cls[j] < cls[i]) + (n * n if full else 0)
                if used + cost > budget or cost > budget // 8:
                    continue
                ctor = "CSort" if full else "CISort"
                items.append(("[%s]" % ";".join(coq_val(x) for x in ks), [ctor + " false", ctor + " true"], n + 5, cost))
                infos.append((ci, kname))
                used += cost
        ctx.log("sort: implementation vs specification done; running the Coq model on %d rows (%d lists, %d comparisons)"
                % (2 * len(items), len({i[0] for i in infos}), used))
        rows, err = coq_rows(ctx, items, "eqsort")
        ctx.log("sort: Coq model rows done")
        if err:
            failures.append({"key": "C09/model-run-failed", "what": err, "replay": {"out": err}})
        for (ci, kname), rev, row in [(inf, rev, rr[k]) for inf, rr in zip(infos, rows) if rr is not None for k, rev in enumerate((False, True))]:
            mrun += 1
            c, r = cases[ci], res[ci]
            elems = [norm_abs(absval(x)) for x in r["values"][0]["v"]]
            n = len(elems)
            model_err = row == [-1]
            for fi, (f, o) in enumerate(zip(c["meta"]["forms"], r["exprs"])):
                fk = f.get("key") or "ident"
                if fk != kname:
                    continue
                got = out_value(o)
                if f["kind"] == "sorted":
                    if f["rev"] != rev:
                        continue
                    want = ("err", "unsupported") if model_err else ("list", [("int", i) for i in row] if f["out"] == "index" else [elems[i] for i in row])
                    if (got[:2] if got[0] == "err" else got) != want:
                        mm += 1
                        failures.append({"key": "C09/model-differs/sorted", "what": "%s (n=%d) = %s, Coq model (isort) %s"
                                         % (c["exprs"][fi], n, str(got)[:300], str(want)[:300]), "replay": {"case": c, "form": fi, "expr": c["exprs"][fi]}})
                elif n >= 1 and rev == (f["kind"] == "max"):
                    # min = head of the stable ascending sort, max = head of the stable descending sort
                    want = ("err", "unsupported") if model_err else elems[row[0]]
                    if (got[:2] if got[0] == "err" else got) != want:
                        mm += 1
                        failures.append({"key": "C09/model-differs/min-max", "what": "%s (n=%d) = %s, head of the Coq model's stable sort %s"
                                         % (c["exprs"][fi], n, str(got)[:200], str(want)[:200]), "replay": {"case": c, "form": fi, "expr": c["exprs"][fi]}})
    stats = {"evaluations": evals, "nontrivial": nontrivial, "dist": dist, "model_rows": mrun, "model_mismatches": mm,
             "lengths": sorted(lens), "observations": observations}
    return failures, stats


def table_state(ctx):
    """The hash-route table compiled into the Coq model on this run (read back from Eq/Model.vo)."""
    text = ("From Coq Require Import List.\nFrom SV Require Import Eq.Model.\nImport ListNotations.\n"
            "Eval vm_compute in [hp_small hash_path; hp_big hash_path; hp_float hash_path; uniform hash_path].\n")
    try:
        (rc, out), = sv.coq_eval_files(ctx, [("eq_table", text)], timeout=120)
        v = sv.coq_values(out)[0]
        return dict(zip(["small_overrides_get_hash", "big_overrides_get_hash", "float_overrides_get_hash", "uniform"], [x == "true" for x in v]))
    except Exception:  # noqa: BLE001
        return {}


def correspond(ctx):
    cases = gen_cases(ctx)
    ctx.log("generated %d cases (%d expressions)" % (len(cases), sum(len(c["exprs"]) for c in cases)))
    failures, st = evaluate(ctx, cases)
    tab = table_state(ctx)
    ctx.log("evaluations=%d model_rows=%d model_mismatches=%d failures=%d hash routes=%s"
            % (st["evaluations"], st["model_rows"], st["model_mismatches"], len(failures), tab))
    scases = corpus_sort_cases() + gen_sort_cases(ctx)
    ctx.log("generated %d sort cases (%d observations, lengths %d..%d)"
            % (len(scases), sum(len(c["exprs"]) for c in scases), min(c["meta"]["n"] for c in scases), max(c["meta"]["n"] for c in scases)))
    sfailures, sst = evaluate_sort(ctx, scases)
    ctx.log("sort: evaluations=%d observations=%s model_rows=%d model_mismatches=%d failures=%d"
            % (sst["evaluations"], sst["observations"], sst["model_rows"], sst["model_mismatches"], len(sfailures)))
    failures = failures + sfailures
    keys = {}
    for f in failures:
        keys[f["key"]] = keys.get(f["key"], 0) + 1
    if keys:
        ctx.log("failure keys: %s" % keys)
    slim = lambda c: {"src": c["src"][:1500], "lib": c["lib"] and c["lib"][:1500], "exprs": c["exprs"][:4]}  # noqa: E731
    dist = dict(st["dist"])
    dist.update(sst["dist"])
    big = [c for c in scases if c["meta"]["n"] >= 33 and c["lib"] is None]
    cov = {
        "evaluations": st["evaluations"] + sst["evaluations"],
        "distinct_nontrivial": len(st["nontrivial"]) + len(sst["nontrivial"]),
        "rule": "families of values around integer anchors (0, +-2^31, +-2^53, +-2^63, 2^64, 2^1024 ...), floats incl. NaN/inf/-0.0/subnormals, "
                "strings (ASCII, non-ASCII, empty, > 16 bytes) and tuples/lists, each value built through a random construction path "
                "(literal, hex, parsed, arithmetic, shift, int<->float conversion, concat, slice, %-format, .format, join, comprehension, copy, "
                "frozen in a loaded module); per case all ordered pairs and all triples; evaluations = Rust-level equals/compare/get_hashed "
                "entries + Starlark expressions + triples + conversions; non-trivial = a pair of distinct variables that are equal in the "
                "specification and differ in representation or construction path, distinct by the described values.  "
                "Sorting: lists of every length in sort_lengths (0..200 around 16/20/21/32/33/64/128, plus 255..1000; thorough up to 5000) "
                "of int/float twins, +-0.0, tuples/lists of twins, tagged tuples, strings, in random / sorted / reversed / few-keys / runs / "
                "sawtooth / organ-pipe / nearly-sorted / all-equal / blocks orders; observed: sorted(xs), sorted(xs, reverse=True) without key, "
                "sorted with key= (identity, -x, abs, constant, wrappers, t[0], t[1], //, %, len, prefixes, index), min/max with and without key, "
                "each compared as the exact sequence of (value, type) with the specification (stable sort / first extremal element under the "
                "exact order) and, for a sample, with the Coq model's isort; non-trivial sort observation = stability is observable (two "
                "neighbours of the expected result have equal keys but are different values), distinct by (input, expression)",
        "traces_validated_against_impl": st["model_rows"] + sst["model_rows"],
        "model_mismatches": st["model_mismatches"] + sst["model_mismatches"],
        "input_distribution": dist,
        "sort_lengths": sst["lengths"],
        "sort_observations": sst["observations"],
        "sort_nontrivial": len(sst["nontrivial"]),
        "sort_model_rows": sst["model_rows"],
        "strings_hashed": st["strings_hashed"],
        "ints_converted_to_float": st["ints_converted"],
        "extracted_hash_routes": tab,
        "exhaustive": False,
        "samples": [slim(cases[0]), slim(cases[len(cases) // 2]), slim(cases[-1])] + [slim(c) for c in big[:1]],
    }
    return {"coverage": cov, "failures": failures}


def search(ctx, broken):
    """A proof obligation or the tie broke: random pairs/triples and sort lists against the specification with the deep generators."""
    old = ctx.tier
    ctx.tier = "thorough"
    try:
        cases = gen_cases(ctx, scale=0.5)
        failures, st = evaluate(ctx, cases, with_model=False)
        scases = corpus_sort_cases() + gen_sort_cases(ctx, scale=0.5)
        sfailures, sst = evaluate_sort(ctx, scases, with_model=False)
    finally:
        ctx.tier = old
    return {"failures": failures + sfailures,
            "coverage": {"evaluations": st["evaluations"] + sst["evaluations"], "cases": len(cases), "sort_cases": len(scases)}}


def replay(ctx, rep):
    c = (rep.get("replay") or {}).get("case")
    if not c:
        return {"coverage": {}, "failures": []}
    if (c.get("meta") or {}).get("kind") == "sort":
        failures, st = evaluate_sort(ctx, [c])
    else:
        failures, st = evaluate(ctx, [c])
    return {"coverage": {"evaluations": st["evaluations"], "distinct_nontrivial": len(st["nontrivial"]), "samples": [c["src"][:1500]]}, "failures": failures}


META = {
    "category": "proof",
    "level_text": "Full for the model, with two refutations that are genuine findings. Coq theorems (Properties/C09.v, closed under the global "
                  "context): equality is reflexive and symmetric; the 64-bit numeric pre-hash and write_hash are coherent with equality for every "
                  "small int / big int / float (exact binary64 model incl. NaN, infinities, -0.0, subnormals, rounding of int->float); the 32-bit "
                  "hash used by dict/set is coherent iff all numeric types take the same route from get_hash_64 to the 32-bit value - decided for "
                  "the table extracted from the code on every run (currently refuted: F1, big ints inherit the default get_hash); equality is "
                  "transitive and equals mathematical equality on values whose integers are <= 2^53 in magnitude and is refuted beyond (F3); "
                  "ordering is antisymmetric, agrees with equality, is transitive on float-free values, total within a type, and is the order of Z "
                  "on integers; insertion sort (the model's stable sort) returns a stably ordered permutation.  sorted() with and without "
                  "key=, in both directions, and min()/max() are tied to that model and to the specification (stable sort of the exact "
                  "order, compared as sequences of (value, type)) on lists of length 0..1000 (thorough 5000) of equal-but-distinguishable "
                  "elements; two panics of sorted() on the unchanged tree are known findings (F17, F17b).",
    "level_note": "Trusted: Coq kernel; tools/extract.py (hash routes, mixing constants); harness bin eqhash; the Python specification oracle; string "
                  "hashing is an abstract content function in the model; dict/set/struct equality is checked against the specification only; "
                  "sorted() is tied to the model by testing, its stability theorem is about the insertion-sort representative. The tie is "
                  "differential testing, so a code change outside the generated families' reach can escape.",
    "technique": "Coq proof over an exact binary64/Small-Big model; translator-extracted hash-route table and constants; model (vm_compute) and "
                 "specification oracle vs implementation on families of construction paths; pairs and triples",
    "design_ref": "DESIGN.md section 4 C09, section 9 F1/F3",
}
