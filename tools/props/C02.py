"""C02 Compile-time optimisation never changes what a program does.

Proof: coq/Opt/{Model,Sem,Proofs}.v - the optimiser of eval/compiler/{expr,expr_bool,stmt,call,def_inline}.rs as Gallina
functions over a mirror of ExprCompiled/StmtCompiled, a big-step semantics with an abstract world and arbitrary effectful
native functions, and the theorems of coq/Properties/C02.v (every smart constructor, `optimize`, `optimize_stmts`, inlining
under the guard of try_inline, substitution of module slots, the opacifying rewrite).

Tie (metamorphic, implementation vs implementation, licensed by C02_opacify_preserves): every program is run
  (a) as written (constants visible: folding, inlining, speculative execution fire),
  (b) opacified (every constant / callee / receiver behind the harness' native identity `opaque`, or fetched through a
      list cell; module-level names bound twice so that they are never inlined),
  (c) wrapped in a def called inside its defining module before freezing,
  (d) the same def in a library module that is frozen and called through load().
Transcript of emit()/print, result and error text (location stripped) must be identical.  Programs: type-directed random
programs (tools/gen/progs.py) and targeted template families over the full dialect with operand sweeps (fold of a raising
operation in live/dead positions, short-circuit with effects, effectful statements, inlining with unassigned or effectful
arguments, module variables bound twice, not-not, len/type on mutated values, speculative execution that fails, % and
.format specialisation, for over empty iterables, struct/record/enum/annotations/f-strings/string methods;
raising CONSTRUCTORS - dict displays with an unhashable or repeated constant key, nested in other displays, with controls - in the
full product with every truth-value position (if / elif / conditional expression / and / or / not / bool / comprehension `if` /
loop exits / wrapped in a display whose truth is known from its shape) and every position that discards the value or uses only
its shape (expression statement, type / len of a display, index of another element, unused argument or default ...), plus a
sample of the 128 other raising operations (dict()/int()/range() ..., % and .format arity, indexing and slicing of displays,
operators, methods) in the same positions; call shapes - wrong arity, keyword-only parameter passed positionally, unknown
keyword, *args / **kwargs - against tiny defs that are specialised (return type(x) == T) or inlined (return x / const / pass)
at every kind of call site, callee frozen or not, visible or hidden).
White-box: the Coq optimiser's folding decision on integer operators (cases.v route) against the implementation."""
import json
import os
import re

import sv
from gen import opacify, progs

PROP = "C02"
HARNESS_BINS = ["eval"]
COQ_TARGETS = ["Properties/C02.vo", "Opt/Cases.vo"]
TRUSTED = ["tools/extract_items/opt.py (regular expressions that recognise the optimiser's guards in the Rust text)",
           "coq/Opt/Sem.v: meaning of the optimiser's IR (by-value fresh containers; the mutable heap is an abstract world reached "
           "through native calls); coq/Opt/Model.v mirrors the Rust optimiser by hand (function by function, cited in comments)",
           "harness global `opaque` is a native identity function invisible to the optimiser (harness/src/lib.rs)",
           "tools/gen/opacify.py (opacifying rewrites), tools/gen/progs.py (program generator), harness bin eval"]
ASSUMPTIONS = ["the real bytecode compiler/VM, definitely_assigned.rs, known_methods.rs, the fusion of two list displays by `+`, "
               "FormatOne/try_format and enum-value folding are not modelled in Coq: covered by the metamorphic tie only",
               "functions marked speculative_exec_safe are assumed pure on frozen arguments in the model (o_spec); the tie runs "
               "them with frozen arguments that fail",
               "programs whose frozen-and-loaded run fails because it mutates a frozen value are not comparable and are skipped (counted)"]

KEY_EMPTY_STR = "C02/for-over-constant-empty-string"
KEY_STALE = "C02/stale-module-constant-across-eval-module"
KEY_SLICE = "C02/slice-fold-drops-nonconstant-bounds"
KEY_KWONLY = "C02/type-is-def-keyword-only-param-called-positionally"


# ---------------------------------------------------------------------------------------------------------------
# observation of one run

def norm_msg(m):
    m = re.sub(r"\b(main\d+|lib|case)\.star\b", "F", m or "")
    m = re.sub(r"0x[0-9a-f]+", "0x", m)
    m = re.sub(r"\b(F|lib)\.(\w+)", r"\2", m)        # function names are qualified by the file of their def
    return m.strip()


def sig(r):
    """(transcript, outcome) of a harness result; every step of a multi-step case is included."""
    if r is None:
        return ("CRASH", "no result")
    if "panic" in r:
        return ("CRASH", r["panic"][:200])
    tr = list(r.get("lib_tr", []))
    for x in r.get("lib", []):
        if "err" in x:
            return (tuple(tr), ("err", x["err"].get("kind"), norm_msg(x["err"].get("msg"))))
    outs = []
    for st in r["steps"]:
        tr += st["tr"]
        tr.append("|")
        o = st["out"]
        outs.append(("ok", o["ok"]) if "ok" in o else ("err", o["err"].get("kind"), norm_msg(o["err"].get("msg"))))
    return (tuple(tr), tuple(outs))


def outcomes(s):
    """The outcome tuples of a signature (a library failure gives one flat outcome)."""
    o = s[1]
    if isinstance(o, tuple) and o and isinstance(o[0], str):
        return [o]
    return list(o) if isinstance(o, tuple) else []


def is_parse_error(s):
    """The program text was rejected (not a run).  `int("x")` fails at RUN time with an error of kind Parser: that is a run."""
    return any(o[0] == "err" and o[1] in ("Parser", "Scope") and not (o[2] or "").startswith("Cannot parse `") for o in outcomes(s))


def frozen_mutation(s):
    txt = json.dumps(s)
    return re.search(r"[Ii]mmutable|frozen|Frozen", txt) is not None


# ---------------------------------------------------------------------------------------------------------------
# groups: {"id", "family", "variants": {name: case}, "pairs": [(a, b)], "note"}

def case(src, mods=None, then=None):
    c = {"src": src, "opts": {}}
    if mods:
        c["mods"] = mods
    if then:
        c["then"] = then
    return c


def indent(text, n=1):
    return "".join(("    " * n + l if l.strip() else l) for l in text.splitlines(True))


def template_group(gid, family, body, lib="", then=None, loaded=True, cell=True):
    """body / lib: template texts with <<hideable>> markers.  lib = module-level helpers and constants."""
    v, pairs = {}, []
    for mode in ("plain", "opaque", "cell") if cell else ("plain", "opaque"):
        v[mode] = case(opacify.render(lib + body, mode), then=[opacify.render(t, mode) for t in then] if then else None)
    pairs += [("plain", "opaque"), ("plain", "cell")] if cell else [("plain", "opaque")]
    if then is None:
        for mode in ("plain", "opaque"):
            fn = opacify.render(lib, mode) + "def run__():\n" + indent(opacify.render(body, mode)) + "    return None\n"
            v["fn_" + mode] = case(fn + "run__()\n")
            if loaded:
                v["loaded_" + mode] = case('load("lib", "run__")\nrun__()\n', mods=[{"name": "lib", "src": fn}])
        pairs.append(("fn_plain", "fn_opaque"))
        if loaded:
            pairs += [("loaded_plain", "loaded_opaque"), ("fn_plain", "loaded_plain")]
    return {"id": gid, "family": family, "variants": v, "pairs": pairs}


def program_group(gid, prog):
    v = {}
    src, _ = progs.source_of(prog)
    v["plain"] = case(src)
    v["opaque"] = case(progs.source_of(opacify.opacify(prog, "opaque"))[0])
    v["cell"] = case(progs.source_of(opacify.opacify(prog, "cell", double_assign=False))[0])
    single, lib_src, main_src = opacify.library_variants(prog)
    v["single"] = case(single)
    v["loaded"] = case(main_src, mods=[{"name": "lib", "src": lib_src}])
    osingle, olib, omain = opacify.library_variants(opacify.opacify(prog, "opaque", double_assign=False))
    v["loaded_opaque"] = case(omain, mods=[{"name": "lib", "src": olib}])
    return {"id": gid, "family": "random-program", "variants": v, "prog": prog,
            "pairs": [("plain", "opaque"), ("plain", "cell"), ("single", "loaded"), ("loaded", "loaded_opaque")]}


# ---- targeted families --------------------------------------------------------------------------------------
SCALARS = ["0", "1", "-1", "7", "-7", "2147483647", "-2147483648", "2147483648", "9223372036854775808", "18446744073709551616",
           '"a"', '""', '"%s"', '"ab"', "None", "True", "False", "(1,)", "()", "(1, 2)", "[1]", "[]", "1.5", "0.0", "{}", '{"a": 1}']
BIG = {"2147483647", "-2147483648", "2147483648", "9223372036854775808", "18446744073709551616"}
NOBIG = [x for x in SCALARS if x not in BIG]
TRUTHY = ["0", "1", '""', '"a"', "[]", "[1]", "()", "(0,)", "None", "True", "False", "{}", '{"k": 0}', "0.0", "2.5"]
BINOPS = ["+", "-", "*", "//", "%", "&", "|", "^", "<<", ">>", "==", "!=", "<", "<=", ">", ">=", "in", "not in", "/"]
HELP_T = "def t(x):\n    emit(x)\n    return x\n"


def positions(e, tag):
    """The risky expression e (template text) in live and dead positions."""
    return [
        ("live", "emit(%s)\n" % e),
        ("dead-if", "if <<False>>:\n    emit(%s)\nemit(<<1>>)\n" % e),
        ("live-if", "emit(<<0>>)\nif <<True>>:\n    emit(%s)\nemit(<<1>>)\n" % e),
        ("dead-ifx", "emit(<<3>> if <<True>> else %s)\n" % e),
        ("live-ifx", "emit(%s if <<1>> else <<3>>)\n" % e),
        ("dead-and", "emit(<<0>> and %s)\n" % e),
        ("live-and", "emit(<<1>> and %s)\n" % e),
        ("dead-or", "emit(<<\"x\">> or %s)\n" % e),
        ("live-or", "emit(<<\"\">> or %s)\n" % e),
        ("stmt", "emit(<<0>>)\n%s\nemit(<<1>>)\n" % e),
        ("compr-empty", "emit([%s for _ in <<[]>>])\n" % e),
        ("compr-one", "emit([%s for _ in <<[1]>>])\n" % e),
        ("lambda-uncalled", "f = lambda: %s\nemit(<<1>>)\n" % e),
        ("lambda-called", "f = lambda: %s\nemit(<<1>>)\nemit(f())\n" % e),
        ("default", "emit(<<0>>)\ndef g(p=%s):\n    return p\nemit(g())\n" % e),
        ("after-effect", "emit([t(<<1>>), %s, t(<<2>>)])\n" % e),
        ("not", "emit(not %s)\n" % e),
        ("type", "emit(type(%s))\n" % e),
        ("seq-tuple", "emit((t(<<5>>), %s)[<<1>>])\n" % e),
    ]


def fam_fold(rng, n):
    out = []
    unary = ["-%s", "+%s", "~%s", "not %s", "len(%s)", "type(%s)", "str(%s)", "int(%s)", "bool(%s)", "repr(%s)", "list(%s)", "tuple(%s)",
             "abs(%s)", "hash(%s)", "ord(%s)", "chr(%s)", "max(%s)", "min(%s)", "sorted(%s)", "reversed(%s)", "enumerate(%s)",
             "any(%s)", "all(%s)", "range(%s)", "dir(%s)[:2]", "float(%s)", "dict(%s)", "%s[0]", "%s[-1]", "%s[5]", "%s[1:]", "%s[::-1]",
             "%s[::0]", "%s.foo", "%s[None]"]
    for i in range(n):
        if rng.random() < 0.6:
            op = rng.choice(BINOPS)
            pool = NOBIG if op in ("*", "<<") else SCALARS      # no giant repetitions / shifts (time and memory, not semantics)
            a, b = rng.choice(pool), rng.choice(pool)
            e = "(<<%s>> %s <<%s>>)" % (a, op, b)
        elif rng.random() < 0.7:
            e = rng.choice(unary) % ("<<%s>>" % rng.choice(SCALARS))
        else:
            e = rng.choice(["<<%s>>[<<%s>>]", "<<%s>>[<<%s>>:]", "<<range>>(<<%s>>, <<%s>>)", "<<max>>(<<%s>>, <<%s>>)", "<<getattr>>(<<%s>>, <<%s>>)",
                            "<<%s>>.get(<<%s>>)", "<<zip>>(<<%s>>, <<%s>>)", "<<int>>(<<%s>>, <<%s>>)", "<<hasattr>>(<<%s>>, <<%s>>)",
                            "<<%s>>.index(<<%s>>)"]) % (rng.choice(SCALARS), rng.choice(SCALARS))
        pos, body = rng.choice(positions(e, i))
        out.append(template_group("fold%d" % i, "fold-raises:" + pos, body, lib=HELP_T))
    return out


def fam_short_circuit(rng, n):
    shapes = ["emit(t(<<%(a)s>>) and <<%(b)s>>)\n", "emit(<<%(a)s>> and t(<<%(b)s>>))\n", "emit(t(<<%(a)s>>) or <<%(b)s>>)\n",
              "emit(<<%(a)s>> or t(<<%(b)s>>))\n", "emit(not (t(<<%(a)s>>) and <<%(b)s>>))\n", "t(<<%(a)s>>) and <<%(b)s>>\nemit(<<9>>)\n",
              "t(<<%(a)s>>) or t(<<%(b)s>>)\nemit(<<9>>)\n", "<<%(a)s>> and t(<<%(b)s>>)\nemit(<<9>>)\n",
              "if t(<<%(a)s>>) and <<%(b)s>>:\n    emit(\"then\")\nelse:\n    emit(\"else\")\n",
              "if not (t(<<%(a)s>>) or <<%(b)s>>):\n    emit(\"then\")\nelse:\n    emit(\"else\")\n",
              "if <<%(a)s>> or t(<<%(b)s>>):\n    emit(\"then\")\n",
              "if (t(<<%(a)s>>) and <<%(b)s>>) or <<%(c)s>>:\n    emit(\"then\")\nelse:\n    emit(\"else\")\n",
              "x = t(<<%(a)s>>) and <<%(b)s>>\nemit(x)\n", "emit((t(<<%(a)s>>) if <<%(b)s>> else t(<<%(c)s>>)))\n",
              "emit(<<7>> if not not <<%(a)s>> else <<8>>)\n", "emit(not not <<%(a)s>>)\n", "emit(not not t(<<%(a)s>>))\n",
              "emit(not (not (<<%(a)s>> == <<%(b)s>>)))\n", "emit(not (<<%(a)s>> != <<%(b)s>>))\n",
              "if not not <<%(a)s>>:\n    emit(\"then\")\nelse:\n    emit(\"else\")\n",
              "emit([x for x in [t(<<%(a)s>>), t(<<%(b)s>>)] if x and <<%(c)s>>])\n",
              "emit((<<%(a)s>> and <<%(b)s>>) or <<%(c)s>>)\n", "emit(<<%(a)s>> or (<<%(b)s>> and <<%(c)s>>))\n",
              "while_ = [t(<<%(a)s>>), [t(<<%(b)s>>)], (t(<<%(c)s>>),)]\nemit(<<9>>)\n",
              "[t(<<%(a)s>>), t(<<%(b)s>>)]\n(t(<<%(c)s>>), <<1>>)\nnot t(<<%(a)s>>)\ntype(t(<<%(b)s>>))\nemit(<<9>>)\n",
              "type(t(<<%(a)s>>)) == <<\"int\">>\nemit(type(<<%(b)s>>) == <<\"int\">>)\nemit(<<\"string\">> == type(t(<<%(c)s>>)))\n"]
    out = []
    for i in range(n):
        d = {"a": rng.choice(TRUTHY), "b": rng.choice(TRUTHY), "c": rng.choice(TRUTHY)}
        out.append(template_group("sc%d" % i, "short-circuit", rng.choice(shapes) % d, lib=HELP_T))
    return out


def fam_effect_stmt(rng, n):
    shapes = ["def f():\n    emit(\"f\")\n    return <<%(a)s>>\nx = f()\nx\nemit(x)\n",
              "def f():\n    emit(\"f\")\n    return <<%(a)s>>\nf()\n[f(), <<1>>]\n(f(), f())\nemit(<<9>>)\n",
              "x = <<%(a)s>>\nx\n<<%(b)s>>\n[<<1>>, x]\nemit(x)\n",
              "y = [<<%(a)s>>]\ny[<<0>>]\ny[<<3>>]\nemit(<<9>>)\n",
              "emit(<<1>>)\n<<%(a)s>> + <<%(b)s>>\nemit(<<2>>)\n",
              "emit(<<1>>)\n<<%(a)s>>.foo\nemit(<<2>>)\n",
              "def f(p):\n    if p:\n        return <<%(a)s>>\n        emit(\"dead\")\n    emit(\"live\")\n    return <<%(b)s>>\nemit(f(<<%(c)s>>))\n",
              "for i in <<[1, 2, 3]>>:\n    if i == <<2>>:\n        continue\n        emit(\"dead\")\n    emit(i)\n    if i == <<%(a)s>>:\n        break\n        emit(\"dead2\")\nemit(<<9>>)\n"]
    out = []
    for i in range(n):
        d = {"a": rng.choice(SCALARS), "b": rng.choice(SCALARS), "c": rng.choice(TRUTHY)}
        out.append(template_group("es%d" % i, "effect-statement", rng.choice(shapes) % d, lib=HELP_T))
    return out


def fam_inline(rng, n):
    """Inlining fires for FROZEN defs: helpers live in a library that is frozen; callers are in the library (re-optimised
    on freeze) and in the loading module."""
    helpers = ("def add(a, b):\n    return a + b\n"
               "def pair(a, b):\n    return [b, a]\n"
               "def first(a, b):\n    return a\n"
               "def bad(a):\n    return a // <<0>>\n"
               "def is_str(x):\n    return type(x) == \"string\"\n"
               "def dflt(a, b=<<2>>):\n    return a * b\n"
               "def nested(a):\n    return add(a, <<1>>) if a else pair(a, a)\n"
               "def effect(a):\n    return [t(a), a]\n"
               "def cond(a, b):\n    return a and b\n"
               "def typed(a: int, b: str = <<\"d\">>) -> str:\n    return b * a\n"
               "def const():\n    return <<%(k)s>>\n"
               "def empty():\n    pass\n")
    calls = ["add(<<%(a)s>>, <<%(b)s>>)", "pair(<<%(a)s>>, <<%(b)s>>)", "first(<<%(a)s>>, <<%(b)s>>)", "bad(<<%(a)s>>)", "is_str(<<%(a)s>>)",
             "is_str()", "is_str(<<%(a)s>>, <<%(b)s>>)", "is_str(x=<<%(a)s>>)", "dflt(<<%(a)s>>)", "dflt(<<%(a)s>>, <<%(b)s>>)", "dflt(b=<<%(a)s>>, a=<<%(b)s>>)",
             "dflt()", "add(<<%(a)s>>)", "add(<<%(a)s>>, <<%(b)s>>, <<1>>)", "nested(<<%(a)s>>)", "effect(<<%(a)s>>)", "cond(<<%(a)s>>, <<%(b)s>>)",
             "typed(<<%(a)s>>)", "typed(<<%(a)s>>, <<%(b)s>>)", "const()", "empty()", "add(p, q)", "pair(q, p)", "first(p, z)", "first(z, p)",
             "cond(p, z)", "add(t(p), t(q))", "pair(t(<<1>>), t(<<2>>))", "first(p, bad(q))", "cond(p, bad(q))", "add(*[p, q])", "add(**{\"a\": p, \"b\": q})",
             "first(bad(p), z)", "(add(p, q), first(z, p))", "dflt(p)", "is_str(p)", "is_str(z)", "nested(p)", "effect(q)"]
    out = []
    for i in range(n):
        d = {"a": rng.choice(NOBIG), "b": rng.choice(NOBIG), "k": rng.choice(SCALARS)}
        c1, c2 = rng.choice(calls) % d, rng.choice(calls) % d
        hide = lambda c: re.sub(r"\b(add|pair|first|bad|is_str|dflt|nested|effect|cond|typed|const|empty)\(", r"<<\1>>(", c)   # noqa: E731
        c1, c2 = hide(c1), hide(c2)
        lib = HELP_T + helpers % d
        caller = ("def caller(p, q, flag):\n    if flag:\n        z = <<5>>\n    emit(\"in\")\n    r = %s\n    emit(r)\n    return %s\n" % (c1, c2))
        body = "emit(caller(<<%(a)s>>, <<%(b)s>>, <<True>>))\nemit(caller(<<%(b)s>>, <<%(a)s>>, <<False>>))\n" % d
        g = {"id": "inl%d" % i, "family": "inline", "variants": {}, "pairs": []}
        for mode in ("plain", "opaque"):
            libsrc = opacify.render(lib + caller, mode)
            mainsrc = opacify.render(body, mode)
            g["variants"]["single_" + mode] = case(libsrc + mainsrc)
            names = '"caller", "add", "pair", "first", "bad", "is_str", "dflt", "nested", "effect", "cond", "typed", "const", "empty", "t"'
            g["variants"]["loaded_" + mode] = case("load(\"lib\", %s)\n" % names + mainsrc, mods=[{"name": "lib", "src": libsrc}])
            # the loading module calls the frozen helpers itself, at module level and from its own def
            own = opacify.render("def mine(p, q, flag):\n    if flag:\n        z = <<5>>\n    emit(%s)\n    return %s\n" % (c2, c1), mode)
            g["variants"]["loaded2_" + mode] = case("load(\"lib\", %s)\n" % names + own + opacify.render(
                "emit(mine(<<%(a)s>>, <<%(b)s>>, <<True>>))\nemit(mine(<<%(b)s>>, <<%(a)s>>, <<False>>))\n" % d, mode), mods=[{"name": "lib", "src": libsrc}])
        g["pairs"] = [("single_plain", "single_opaque"), ("loaded_plain", "loaded_opaque"), ("single_plain", "loaded_plain"), ("loaded2_plain", "loaded2_opaque")]
        out.append(g)
    return out


def fam_module_var(rng, n):
    shapes = [
        ("X = <<%(a)s>>\ndef get():\n    return X\nemit(get())\nX = <<%(b)s>>\nemit(get())\n", None),
        ("def get():\n    return X\nX = <<%(a)s>>\nemit(get())\n", None),
        ("X = <<%(a)s>>\ndef get():\n    return X\nemit(get())\n", None),
        ("if <<%(c)s>>:\n    X = <<%(a)s>>\nelse:\n    X = <<%(b)s>>\ndef get():\n    return X\nemit(get())\n", None),
        ("for X in <<[1, 2]>>:\n    pass\ndef get():\n    return X\nemit(get())\n", None),
        ("X = <<%(a)s>>\ndef get():\n    return [X, Y]\nY = <<%(b)s>>\nemit(get())\n", None),
        ("def get():\n    return X\nemit(<<1>>)\nemit(get())\n", None),
        ("X = <<%(a)s>>\ndef get():\n    return (X if <<%(c)s>> else Y)\nemit(get())\n", None),
        ("X = <<%(a)s>>\nemit(X + X if X else X)\nemit([X for _ in <<[1]>>])\nemit(lambda: X)\n", None),
        ("X = <<%(a)s>>\nX += <<%(b)s>>\ndef get():\n    return X\nemit(get())\n", None),
        ("L = [<<%(a)s>>]\ndef n():\n    return [len(L), type(L), L[0], not L]\nemit(n())\nL.append(<<%(b)s>>)\nemit(n())\nL.clear()\nemit(n())\n", None),
    ]
    out = []
    for i in range(n):
        d = {"a": rng.choice(SCALARS), "b": rng.choice(SCALARS), "c": rng.choice(TRUTHY)}
        body, then = rng.choice(shapes)
        g = template_group("mv%d" % i, "module-variable", body % d, loaded=False)
        out.append(g)
    return out


def fam_repl(rng, n):
    """Several eval_module calls on one Module (REPL use): a later source rebinds a module variable."""
    out = []
    for i in range(n):
        d = {"a": rng.choice(SCALARS), "b": rng.choice(SCALARS)}
        first = "X = <<%(a)s>>\ndef get():\n    return X\nemit(get())\n" % d
        then = ["X = <<%(b)s>>\nemit(get())\n" % d]
        v = {"plain": case(opacify.render(first, "plain"), then=[opacify.render(t, "plain") for t in then]),
             "twice": case("X = None\n" + opacify.render(first, "plain"), then=[opacify.render(t, "plain") for t in then])}
        out.append({"id": "repl%d" % i, "family": "repl-rebind", "variants": v, "pairs": [("plain", "twice")]})
    return out


def fam_format(rng, n):
    fmts = ["%s", "a%sb", "%%s", "%s%s", "%", "%d", "", "a%%%sb", "%s%%", "%r", "%5s", "%x", "%c", "%(a)s", "%s %", "%%", "%s%d", "x"]
    fmts2 = ["a{}b", "{}{}", "{{}}", "{0}", "{x}", "{", "}", "{!r}", "{:d}", "{}", "", "{{{}}}", "{1}", "a{}", "{}b", "{ }", "{0}{}", "{}{0}"]
    vals = SCALARS + ["(1, 2, 3)", "((1,),)", "struct(a=1)", '"%"', '"{}"']
    out = []
    for i in range(n):
        v = rng.choice(vals)
        k = rng.random()
        if k < 0.4:
            body = "emit(<<\"%s\">> %% <<%s>>)\n" % (rng.choice(fmts), v)
        elif k < 0.75:
            body = "emit(<<\"%s\">>.format(<<%s>>))\n" % (rng.choice(fmts2), v)
        elif k < 0.85:
            body = "x = <<%s>>\ny = <<%s>>\nemit(f\"a{x}b\")\nemit(f\"{x}{y}\")\nemit(f\"{{}}{x}\")\n" % (v, rng.choice(vals))
        else:
            body = "emit(<<\"%s\">>.format(<<%s>>, <<%s>>))\nemit(<<\"%s\">> %% (<<%s>>, <<%s>>))\n" % (
                rng.choice(fmts2), v, rng.choice(vals), rng.choice(fmts), v, rng.choice(vals))
        out.append(template_group("fmt%d" % i, "format", body))
    return out


def fam_for_empty(rng, n):
    its = ["[]", "()", "{}", '""', "range(0)", "0", "None", '"ab"', "[1]", "(1,)", "range(2)", "{1: 2}", "True", "1.5", "struct()"]
    shapes = ["for x in <<%s>>:\n    emit(x)\nemit(<<9>>)\n", "emit([x for x in <<%s>>])\n", "emit({x: 1 for x in <<%s>>})\n",
              "emit([y for y in [1] for x in <<%s>>])\n", "for x in <<%s>>:\n    emit(x)\n    break\nemit(<<9>>)\n",
              "for a, b in <<%s>>:\n    emit(a)\nemit(<<9>>)\n", "emit([x for x in <<%s>> if x])\n"]
    out = []
    for i, it in enumerate(its):                    # the full product: it is small
        for j, sh in enumerate(shapes):
            out.append(template_group("fe%d_%d" % (i, j), "for-empty", sh % it))
    # several clauses: an empty (or not) INNER iterable under outer loops whose execution is observable - iterating a
    # non-iterable constant, an unpacking mismatch, a loop target with an effect - in every clause position
    outers = ['"abc"', "3", "None", "[(1, 2, 3)]", "[1, 2]", "(1, 2)", "[]", "{1: 2}", "range(2)", "True"]
    inners = ["[]", "()", "{}", "range(0)", '""', "[1]"]
    multi = ["emit([x for c in <<%s>> for x in <<%s>>])\n", "emit([x for c in <<%s>> if c for x in <<%s>>])\n",
             "emit({x: c for c in <<%s>> for x in <<%s>>})\n", "emit([x for a, b in <<%s>> for x in <<%s>>])\n",
             "d = {}\nemit([0 for d[\"k\"] in <<%s>> for _ in <<%s>>])\nemit(d)\n",
             "emit([x for y in <<[1]>> for c in <<%s>> for x in <<%s>>])\n",
             "emit([x for c in <<%s>> for x in <<%s>> for z in <<[1]>>])\n",
             "emit([t(c) for c in <<%s>> for x in <<%s>>])\n"]
    for i, o in enumerate(outers):
        for j, e in enumerate(inners):
            for k, sh in enumerate(multi):
                src = sh % (o, e)
                out.append(template_group("fm%d_%d_%d" % (i, j, k), "for-empty", src, lib=HELP_T if "t(c)" in src else ""))
    return out


def fam_dialect(rng, n):
    shapes = [
        "S = struct(a=<<%(a)s>>, b=<<%(b)s>>)\nemit(S.a)\nemit(<<S>>.b)\nemit(S)\nemit(S.c)\n",
        "R = record(x=int, y=str)\nr = R(x=<<1>>, y=<<\"a\">>)\nemit(r.x)\nemit(r)\nemit(R(x=<<%(a)s>>, y=<<%(b)s>>))\n",
        "E = enum(\"a\", \"b\")\nemit(E(<<\"a\">>).value)\nemit(E(<<\"b\">>).index)\nemit(E(<<%(a)s>>))\n",
        "def typed(x: int, y: str = <<\"d\">>) -> str:\n    return y * x\nemit(typed(<<2>>))\nemit(typed(<<%(a)s>>))\n",
        "def typed(x: int) -> str:\n    return <<%(a)s>>\nemit(typed(<<1>>))\n",
        "def typed(x: list[int] | None = None) -> bool:\n    return x == <<%(a)s>>\nemit(typed())\nemit(typed(<<%(b)s>>))\n",
        "emit(<<\"a,b\">>.split(<<\",\">>))\nemit(<<\"-\">>.join([<<\"x\">>, <<\"y\">>]))\nemit(<<\" a \">>.strip())\nemit(<<\"abc\">>.startswith((<<\"a\">>, <<\"b\">>)))\nemit(<<\"abc\">>.find(<<%(a)s>>))\n",
        "emit(<<\"abc\">>.replace(<<\"a\">>, <<%(a)s>>))\n", "emit(<<\"abc\">>.index(<<\"z\">>))\n", "emit(<<\"a\">>.join(<<%(a)s>>))\n",
        "emit(<<\"abc\">>.upper().lower().capitalize())\nemit(<<\"abc\">>.count(<<\"b\">>))\nemit(<<\"a b\">>.title())\nemit(<<\"abc\">>.elems())\n",
        "emit(isinstance(<<%(a)s>>, int))\nemit(isinstance(<<%(a)s>>, str | None))\nemit(type(<<%(a)s>>) == type(<<%(b)s>>))\n",
        "emit(getattr(struct(a=<<%(a)s>>), <<\"a\">>))\nemit(hasattr(<<%(a)s>>, <<\"foo\">>))\nemit(getattr(<<%(a)s>>, <<\"foo\">>, <<3>>))\n",
        "emit(list(<<(1, 2)>>) + [<<3>>])\nx = list(<<(1, 2)>>)\nx.append(<<4>>)\nemit(x)\nemit(list(<<(1, 2)>>))\nemit(sorted(<<[3, 1]>>))\n",
        "def mk():\n    return [<<1>>] + [<<2>>]\na = mk()\nb = mk()\na.append(<<3>>)\nemit(a)\nemit(b)\nemit([<<1>>] + <<%(a)s>>)\n",
        "emit(len(<<%(a)s>>))\nemit(type(<<%(a)s>>))\nemit(len([<<%(a)s>>, <<%(b)s>>]))\nemit(type([t(<<1>>)]))\nemit(type(not t(<<1>>)))\nemit(type((<<1>>, <<2>>)))\nemit(type({}))\n",
        "emit(max(<<%(a)s>>, <<%(b)s>>))\nemit(min([<<%(a)s>>]))\nemit(ord(<<%(a)s>>))\nemit(chr(<<%(b)s>>))\n",
        "emit(int(<<\"12\">>))\nemit(int(<<%(a)s>>))\nemit(str(<<%(b)s>>))\nemit(repr(<<%(a)s>>))\nemit(bool(<<%(b)s>>))\nemit(tuple(<<%(a)s>>))\n",
        "d = {<<\"a\">>: <<1>>}\nemit(d.get(<<%(a)s>>))\nemit(d[<<\"a\">>])\nemit(<<%(a)s>> in d)\nemit(d[<<%(a)s>>])\n",
        "emit((<<1>>, <<%(a)s>>) + (<<%(b)s>>,))\nemit((<<1>>, <<2>>)[<<%(a)s>>])\nemit([<<1>>, <<2>>][<<%(a)s>>])\nemit(<<\"abc\">>[<<%(a)s>>])\nemit(<<\"abc\">>[<<%(a)s>>:<<%(b)s>>])\n",
    ]
    out = []
    for i in range(n):
        d = {"a": rng.choice(NOBIG), "b": rng.choice(NOBIG)}
        out.append(template_group("dl%d" % i, "dialect", rng.choice(shapes) % d, lib=HELP_T))
    return out


def fam_slice(rng, n):
    """Three-part slices of constant and non-constant receivers with constant / parameter / effectful bounds."""
    recv = ['"abcdefgh"', "(1, 2, 3, 4, 5)", "[1, 2, 3, 4, 5]", "range(10)", '""', "()"]
    bnd = ["a", "b", "<<1>>", "<<-1>>", "<<5>>", "None", "<<None>>", "t(<<2>>)", "<<0>>", "<<\"x\">>", "<<100>>", "<<-100>>"]
    out = []
    for i in range(n):
        r = rng.choice(recv)
        parts = [rng.choice(bnd) for _ in range(3)]
        sl = "%s:%s:%s" % tuple(parts) if rng.random() < 0.8 else "%s:%s" % tuple(parts[:2])
        body = ("def f(a, b):\n    return <<%s>>[%s]\nemit(f(<<%s>>, <<%s>>))\nemit(f(<<%s>>, <<%s>>))\n"
                % (r, sl, rng.choice(["1", "2", "-2", "None", "0"]), rng.choice(["3", "-1", "None", "2"]), rng.choice(["0", "5", '"x"']), rng.choice(["1", "-3", "4"])))
        out.append(template_group("slf%d" % i, "slice-fold", body, lib=HELP_T))
    return out


# ---- operations that RAISE although every operand is a constant, used only for their truth value or not at all -------------
# "Folding an operation that would raise" covers CONSTRUCTORS too: evaluating the entries of `{[]: 1}` has no effect and cannot
# fail, but BUILDING the dict fails (unhashable key; repeated constant key).  A display whose truth value / type / length is
# "known" from its shape, or that is dropped as pure, is never built, and the error disappears.
CTOR_RAISERS = [  # displays whose entries are pure and infallible; (template, raises?)
    "{<<[]>>: <<1>>}", "{[]: 1}", "{<<{}>>: <<None>>}", "{{}: None}", "{[<<1>>, <<2>>]: <<3>>}", "{(<<1>>, []): <<2>>}", "{([],): []}",
    "{<<\"a\">>: <<1>>, <<\"a\">>: <<2>>}", "{\"a\": 1, \"a\": 2}", "{<<1>>: <<1>>, <<1>>: <<1>>}", "{<<\"a\">>: <<1>>, <<\"b\">>: <<2>>, <<\"a\">>: <<3>>}",
    "{(<<1>>, <<2>>): <<0>>, (<<1>>, <<2>>): <<0>>}", "{<<None>>: [], <<None>>: {}}", "{<<\"\">>: <<0>>, <<\"\">>: <<0>>}", "{<<True>>: <<1>>, <<True>>: <<2>>}",
    "{<<0>>: <<1>>, <<1>>: <<2>>, <<[]>>: <<3>>}", "{<<1>>: {<<[]>>: <<2>>}}", "{<<\"k\">>: {<<\"a\">>: <<1>>, <<\"a\">>: <<1>>}}", "{<<1>>: <<2>>, <<1.0>>: <<3>>}",
    "{[[]]: <<0>>}", "{{<<1>>: <<2>>}: <<0>>}",
    # controls: the same shapes, nothing raises (the truth value must then be right)
    "{<<\"a\">>: <<1>>}", "{<<1>>: <<2>>, <<True>>: <<3>>}", "{(<<1>>, <<2>>): []}", "{<<\"a\">>: [], <<\"b\">>: {}}", "{}", "{<<0>>: <<0>>}",
]
OTHER_RAISERS = [
    # constructor calls / conversions
    "<<dict>>([(<<[]>>, <<1>>)])", "dict([([], 1)])", "dict([<<1>>])", "dict(<<1>>)", "dict([(<<1>>, <<2>>, <<3>>)])", "dict(a=<<1>>, **{<<\"a\">>: <<2>>})",
    "dict([(<<\"a\">>, <<1>>)], **{<<\"a\">>: []})", "list(<<1>>)", "tuple(<<None>>)", "int(<<\"x\">>)", "int(<<[]>>)", "int(<<\"1\">>, <<99>>)", "float(<<\"x\">>)",
    "range(<<\"a\">>)", "range(<<1>>, <<2>>, <<0>>)", "range()", "str(<<1>>, <<2>>)", "bool(<<1>>, <<2>>)", "len(<<1>>)", "len()", "type()", "type(<<1>>, <<2>>)",
    "hash(<<[]>>)", "ord(<<\"ab\">>)", "chr(<<-1>>)", "max(<<[]>>)", "min()", "abs(<<\"a\">>)", "zip(<<1>>)", "enumerate(<<1>>)", "sorted([<<1>>, <<\"a\">>])",
    "reversed(<<1>>)", "any(<<1>>)", "all(<<None>>)", "getattr(<<1>>, <<\"x\">>)", "struct(a=<<1>>).b", "fail(<<\"boom\">>)", "isinstance(<<1>>, <<1>>)",
    "enum(<<\"a\">>)(<<\"b\">>)", "record(x=int)(x=<<\"s\">>)", "list([<<1>>], [<<2>>])", "tuple(<<1>>, <<2>>)", "repr()", "set([<<[]>>])", "set(<<1>>)",
    # formatting with a bad arity / conversion
    "<<\"%s %s\">> % (<<1>>,)", "\"%s %s\" % (1,)", "<<\"%d\">> % <<\"x\">>", "<<\"%s\">> % (<<1>>, <<2>>)", "<<\"%\">> % <<1>>", "<<\"%z\">> % <<1>>",
    "<<\"{}{}\">>.format(<<1>>)", "\"{}{}\".format(1)", "<<\"{x}\">>.format(<<1>>)", "<<\"{\">>.format()", "<<\"{0}{}\">>.format(<<1>>, <<2>>)", "<<\"{:d}\">>.format(<<\"s\">>)",
    # indexing / slicing of displays and constants
    "[<<1>>, <<2>>][<<5>>]", "[1, 2][5]", "(<<1>>,)[<<3>>]", "(1,)[3]", "[][<<0>>]", "{}[<<\"a\">>]", "{<<\"a\">>: <<1>>}[<<\"b\">>]", "{\"a\": 1}[\"b\"]",
    "<<\"abc\">>[<<10>>]", "\"abc\"[10]", "[<<1>>, <<2>>][::<<0>>]", "(1, 2)[::0]", "<<\"abc\">>[::<<0>>]", "(<<1>>, <<2>>)[<<\"x\">>]", "[<<1>>, <<2>>][<<\"a\">>:]",
    "<<\"abc\">>[<<None>>]", "(<<1>>, <<2>>)[<<1.0>>]", "[[<<1>>]][<<0>>][<<1>>]", "{<<1>>: <<2>>}[<<[]>>]", "<<None>>[<<0>>]", "<<1>>[<<0>>]",
    # operators
    "<<1>> // <<0>>", "1 // 0", "<<1>> % <<0>>", "1 % 0", "<<1.0>> // <<0>>", "<<1>> / <<0>>", "<<1>> << <<-1>>", "<<1>> >> <<-1>>", "-<<\"a\">>", "~<<1.5>>", "+<<None>>",
    "[] < <<1>>", "<<1>> + <<\"a\">>", "1 + \"a\"", "<<\"a\">> * <<\"b\">>", "<<1>> in <<2>>", "<<1>> in <<\"a\">>", "[<<1>>] + (<<2>>,)", "[1] + (2,)", "<<None>> < <<None>>",
    "(<<1>>, <<\"a\">>) < (<<1>>, <<2>>)", "{} | <<1>>", "<<\"a\">> - <<\"b\">>", "<<[]>> in {}", "[] in {<<1>>: <<2>>}",
    # attributes and methods
    "<<None>>.foo", "<<\"abc\">>.nope", "<<\"abc\">>.index(<<\"z\">>)", "\"abc\".index(\"z\")", "[<<1>>].index(<<2>>)", "{}.pop(<<\"a\">>)", "[].pop()",
    "<<\"a\">>.join([<<1>>])", "\"a\".join([1])", "<<\"abc\">>.split(<<\"\">>)", "<<\"a\">>.startswith(<<1>>)", "[].append()", "{}.get()", "<<\"a\">>.format(**<<1>>)",
    "<<\"ab\">>.removeprefix(<<1>>)", "[<<3>>].remove(<<4>>)", "{<<1>>: <<2>>}.popitem(<<1>>)", "(<<1>>,).append(<<2>>)",
    # controls
    "[<<1>>][<<0>>]", "<<\"%s\">> % <<1>>", "int(<<\"7\">>)", "dict([(<<1>>, <<2>>)])", "<<1>> // <<1>>", "<<\"abc\">>.index(<<\"b\">>)", "len([])",
]
# %s = the operation.  Truth-value positions (conditions) and positions where the value is discarded or only its shape is used.
COND_POSITIONS = [
    ("if", "if %s:\n    emit(\"then\")\nelse:\n    emit(\"else\")\nemit(<<9>>)\n"),
    ("if-not", "if not %s:\n    emit(\"then\")\nelse:\n    emit(\"else\")\nemit(<<9>>)\n"),
    ("if-pass", "emit(<<0>>)\nif %s:\n    pass\nemit(<<9>>)\n"),
    ("if-pass-pass", "emit(<<0>>)\nif %s:\n    pass\nelse:\n    pass\nemit(<<9>>)\n"),
    ("if-pass-else", "if %s:\n    pass\nelse:\n    emit(\"else\")\nemit(<<9>>)\n"),
    ("elif", "if <<0>>:\n    emit(<<1>>)\nelif %s:\n    emit(<<2>>)\nelse:\n    emit(<<3>>)\nemit(<<9>>)\n"),
    ("ifx", "emit(<<1>> if %s else <<2>>)\n"),
    ("ifx-not", "emit(<<1>> if not %s else <<2>>)\n"),
    ("ifx-same", "emit(<<5>> if %s else <<5>>)\n"),
    ("ifx-assign", "x = <<1>> if %s else <<2>>\nemit(x)\n"),
    ("ifx-nested", "emit(<<1>> if (%s if <<1>> else <<0>>) else <<2>>)\n"),
    ("ifx-or", "emit(<<1>> if (<<0>> or %s) else <<2>>)\n"),
    ("ifx-and-not", "emit(<<1>> if (<<1>> and not %s) else <<2>>)\n"),
    ("and", "emit(%s and <<1>>)\n"),
    ("or", "emit(%s or <<1>>)\n"),
    ("and-or", "emit((%s and <<0>>) or <<3>>)\n"),
    ("or-and", "emit((%s or <<0>>) and <<3>>)\n"),
    ("not", "emit(not %s)\n"),
    ("not-not", "emit(not not %s)\n"),
    ("bool", "emit(bool(%s))\n"),
    ("if-and-effect", "if %s and t(<<1>>):\n    emit(\"then\")\nemit(<<9>>)\n"),
    ("if-effect-or", "if t(<<0>>) or %s:\n    emit(\"then\")\nemit(<<9>>)\n"),
    ("if-or-effect", "if %s or t(<<1>>):\n    emit(\"then\")\nemit(<<9>>)\n"),
    ("if-const-and", "if <<1>> and %s:\n    emit(\"then\")\nemit(<<9>>)\n"),
    ("if-const-or", "if <<0>> or %s:\n    emit(\"then\")\nelse:\n    emit(\"else\")\n"),
    ("compr-if", "emit([x for x in <<[1, 2]>> if %s])\n"),
    ("compr-if-not", "emit({x: x for x in <<[1]>> if not %s})\n"),
    ("compr-if-and", "emit([x for x in <<[1, 2]>> if x and %s])\n"),
    ("loop-break", "for i in <<[1, 2]>>:\n    if %s:\n        break\n    emit(i)\nemit(<<9>>)\n"),
    ("loop-continue", "for i in <<[1]>>:\n    if not %s:\n        continue\n    emit(\"body\")\nemit(<<9>>)\n"),
    ("lambda-ifx", "f = lambda: <<1>> if %s else <<2>>\nemit(<<0>>)\nemit(f())\n"),
    ("def-return-ifx", "def g(p):\n    return <<1>> if %s else p\nemit(<<0>>)\nemit(g(<<4>>))\n"),
    ("def-return-not", "def g():\n    return not %s\nemit(<<0>>)\nemit(g())\n"),
    ("def-if-return", "def g(p):\n    if %s:\n        return p\n    return <<7>>\nemit(<<0>>)\nemit(g(<<4>>))\n"),
    # the operation inside a display whose own truth value is known from its shape
    ("list-wrapped-and", "emit([%s] and <<1>>)\n"),
    ("tuple-wrapped-or", "emit((%s,) or <<1>>)\n"),
    ("list-wrapped-ifx", "emit(<<1>> if [%s] else <<2>>)\n"),
    ("tuple-wrapped-if", "if (%s, <<1>>):\n    emit(\"then\")\nemit(<<9>>)\n"),
    ("dict-value-wrapped-and", "emit({<<\"k\">>: %s} and <<1>>)\n"),
    ("not-list-wrapped", "emit(not [%s])\n"),
]
DISCARD_POSITIONS = [
    ("stmt", "emit(<<0>>)\n%s\nemit(<<1>>)\n"),
    ("stmt-list", "emit(<<0>>)\n[%s]\nemit(<<1>>)\n"),
    ("stmt-tuple", "emit(<<0>>)\n(%s, <<1>>)\nemit(<<1>>)\n"),
    ("stmt-not", "emit(<<0>>)\nnot %s\nemit(<<1>>)\n"),
    ("stmt-and", "emit(<<0>>)\n%s and <<1>>\nemit(<<1>>)\n"),
    ("stmt-ifx", "emit(<<0>>)\n<<1>> if %s else <<2>>\nemit(<<1>>)\n"),
    ("stmt-type", "emit(<<0>>)\ntype(%s)\nemit(<<1>>)\n"),
    ("stmt-in-if", "emit(<<0>>)\nif <<1>>:\n    %s\nemit(<<1>>)\n"),
    ("stmt-in-for", "for i in <<[1, 2]>>:\n    %s\n    emit(i)\nemit(<<9>>)\n"),
    ("unused-assign", "emit(<<0>>)\nunused_ = %s\nemit(<<1>>)\n"),
    ("type-of", "emit(type(%s))\n"),
    ("type-is", "emit(type(%s) == <<\"dict\">>)\n"),
    ("type-of-list", "emit(type([%s]))\n"),
    ("type-of-tuple", "emit(type((%s,)))\n"),
    ("type-of-dict", "emit(type({<<1>>: %s}))\n"),
    ("len-of-list", "emit(len([%s, <<1>>]))\n"),
    ("len-of-tuple", "emit(len((%s, %s)))\n"),
    ("index-other-list", "emit([%s, <<1>>][<<1>>])\n"),
    ("index-other-tuple", "emit((%s, <<2>>)[<<1>>])\n"),
    ("for-over-list", "for _ in [%s]:\n    emit(\"it\")\nemit(<<9>>)\n"),
    ("for-over", "for _ in %s:\n    emit(\"it\")\nemit(<<9>>)\n"),
    ("compr-over", "emit([<<1>> for _ in %s])\n"),
    ("seq-after", "emit((t(<<5>>), %s, t(<<6>>))[<<0>>])\n"),
    ("return-value", "def g():\n    return %s\nemit(<<0>>)\nemit(g())\n"),
    ("return-discarded", "def g():\n    return %s\nemit(<<0>>)\ng()\nemit(<<1>>)\n"),
    ("default-param", "emit(<<0>>)\ndef g(p=%s):\n    return <<1>>\nemit(g())\n"),
    ("call-arg-unused", "def g(p):\n    return <<1>>\nemit(<<0>>)\nemit(g(%s))\n"),
]


def fam_raising_ctor(rng, n):
    """Display constructors that raise (and controls) in EVERY truth-value / discarded position: the full product (it is the
    class of `is_pure_infallible` / `is_pure_infallible_to_bool` on displays, small enough to enumerate); then n random
    (other raising operation, position) pairs."""
    out = []
    allpos = COND_POSITIONS + DISCARD_POSITIONS
    for i, e in enumerate(CTOR_RAISERS):
        for tag, p in allpos:
            out.append(template_group("rc%d_%s" % (i, tag), "raising-ctor:" + tag, p.replace("%s", e), lib=HELP_T, cell=False))
    for i in range(n):
        e = rng.choice(OTHER_RAISERS)
        tag, p = rng.choice(allpos)
        out.append(template_group("ro%d_%s" % (i, tag), "raising-op:" + tag, p.replace("%s", e), lib=HELP_T, cell=False))
    return out


# ---- calls to tiny defs that the compiler specialises (ReturnTypeIs) or inlines (ReturnSafeToInlineExpr) ------------------------
# The call must behave like a call: wrong arity, a keyword-only parameter passed positionally, an unknown keyword, *args/**kwargs
# must give the same error (or value) whether or not the callee is frozen and visible.
CS_SIGS = [("x", "x"), ("*, x", "x"), ("*, x=1", "x"), ("x=1", "x"), ("x, y", "x"), ("x, y=2", "y"), ("x, *, y=2", "x"), ("x, *, y", "y"), ("*, x, y=2", "x"),
           ("*args", "args"), ("**kw", "kw"), ("x, *args", "x"), ("x, **kw", "x"), ("*args, x", "x"), ("*args, x=1", "x"), ("", None)]
CS_BODIES_CORE = [("type-is", "return type(%s) == \"int\""), ("type-is-rev", "return \"int\" == type(%s)"), ("ident", "return %s"), ("const", "return 7"), ("pass", "pass")]
CS_BODIES_MORE = [("type-is", "return type(%s) == \"string\""), ("type-is", "return type(%s) == \"tuple\""), ("type-is-not", "return type(%s) != \"int\""),
                  ("type-of", "return type(%s)"), ("list", "return [%s, %s]"), ("not", "return not %s"), ("none", "return None"), ("ifx", "return (%s if %s else 0)"),
                  ("eq", "return %s == 1"), ("str", "return str(%s)"), ("dict", "return {%s: 1}"), ("and", "return %s and [%s]"), ("effect", "return [t(%s)]"),
                  ("two-stmts", "r = %s\n    return r"), ("tuple-const", "return (1, \"a\")")]
CS_CALLS_CORE = ["(<<%(a)s>>)", "()", "(x=<<%(a)s>>)", "(<<%(a)s>>, <<%(b)s>>)", "(<<%(a)s>>, zz=<<%(b)s>>)", "(*[<<%(a)s>>])", "(**{\"x\": <<%(a)s>>})", "(%(p)s)",
                 "(zz=<<%(a)s>>)"]
CS_CALLS_MORE = ["(y=<<%(a)s>>)", "(<<%(a)s>>, x=<<%(b)s>>)", "(<<%(a)s>>, y=<<%(b)s>>)", "(*[<<%(a)s>>, <<%(b)s>>])", "(x=<<%(a)s>>, y=<<%(b)s>>)", "(*[], **{})", "(x=%(p)s)",
                 "(%(p)s, %(q)s)", "(<<%(a)s>>, *[<<%(b)s>>])", "(x=<<%(a)s>>, **{\"x\": <<%(b)s>>})", "(%(z)s)", "(<<%(a)s>>, *[])", "(<<%(a)s>>, <<%(b)s>>, <<%(a)s>>)",
                 "(*%(p)s)", "(**%(q)s)", "(t(<<%(a)s>>))", "(x=t(<<%(a)s>>))", "(%(q)s, x=%(p)s)", "(%(z)s, %(p)s)"]


def call_shape_group(gid, sig, var, kind, body, call, d):
    """One tiny def f(sig): body in a library, one call shape, at every kind of call site: def of the same unfrozen module, def
    frozen together with f, def of a loading module, module level (f unfrozen / f frozen and loaded); callee visible or hidden."""
    body = body.replace("%s", var or "None")
    lib = HELP_T + "def f(%s):\n    %s\n" % (sig, body)
    in_def = "<<f>>" + call % dict(d, p="p", q="q", z="z")
    at_top = "<<f>>" + call % dict(d, p="P", q="Q", z="Z")
    caller = "def caller(p, q, flag):\n    if flag:\n        z = <<5>>\n    emit(\"in\")\n    r = %s\n    emit(r)\n    return r\n" % in_def
    run = "emit(caller(<<%(a)s>>, <<%(b)s>>, <<True>>))\nemit(caller(<<%(b)s>>, <<%(a)s>>, <<False>>))\n" % d
    top = "P = <<%(a)s>>\nQ = <<%(b)s>>\nif <<False>>:\n    Z = <<5>>\nemit(\"in\")\n" % d + "emit(" + at_top + ")\n"
    g = {"id": gid, "family": "call-shape:" + kind, "variants": {}, "pairs": [],
         "meta": {"sig": sig, "body_kind": kind, "body": body, "call": call}}
    for mode in ("plain", "opaque"):
        libsrc, callersrc, runsrc, topsrc = (opacify.render(x, mode) for x in (lib, caller, run, top))
        g["variants"]["single_" + mode] = case(libsrc + callersrc + runsrc)                                                    # nothing frozen
        g["variants"]["loaded_" + mode] = case('load("lib", "f", "t", "caller")\n' + runsrc, mods=[{"name": "lib", "src": libsrc + callersrc}])  # caller frozen with f
        g["variants"]["loaded2_" + mode] = case('load("lib", "f", "t")\n' + callersrc + runsrc, mods=[{"name": "lib", "src": libsrc}])           # caller in the loading module
        g["variants"]["top_" + mode] = case(libsrc + topsrc)                                                                     # module level, f unfrozen
        g["variants"]["loaded3_" + mode] = case('load("lib", "f", "t")\n' + topsrc, mods=[{"name": "lib", "src": libsrc}])     # module level, f frozen
    g["pairs"] = [("single_plain", "single_opaque"), ("loaded_plain", "loaded_opaque"), ("loaded2_plain", "loaded2_opaque"), ("loaded3_plain", "loaded3_opaque"),
                  ("single_plain", "loaded_plain"), ("single_plain", "loaded2_plain"), ("top_plain", "loaded3_plain"), ("top_plain", "top_opaque")]
    return g


def fam_call_shape(rng, n):
    """Core product (specialised bodies x every signature x the core call shapes), then n random draws from everything."""
    out = []
    d0 = {"a": "1", "b": "\"s\""}
    for si, (sig, var) in enumerate(CS_SIGS):
        for bi, (kind, body) in enumerate(CS_BODIES_CORE):
            for ci, call in enumerate(CS_CALLS_CORE):
                out.append(call_shape_group("cs%d_%d_%d" % (si, bi, ci), sig, var, kind, body, call, d0))
    for i in range(n):
        sig, var = rng.choice(CS_SIGS)
        kind, body = rng.choice(CS_BODIES_CORE + CS_BODIES_MORE)
        call = rng.choice(CS_CALLS_CORE + CS_CALLS_MORE)
        d = {"a": rng.choice(NOBIG), "b": rng.choice(NOBIG)}
        out.append(call_shape_group("csr%d" % i, sig, var, kind, body, call, d))
    return out


FAMILIES = [("fold", fam_fold, 6), ("short-circuit", fam_short_circuit, 3), ("effect-stmt", fam_effect_stmt, 1), ("inline", fam_inline, 3),
            ("module-var", fam_module_var, 1), ("repl", fam_repl, 0.2), ("format", fam_format, 3), ("for-empty", fam_for_empty, 0.6),
            ("dialect", fam_dialect, 3), ("slice-fold", fam_slice, 1), ("raising-ctor", fam_raising_ctor, 4), ("call-shape", fam_call_shape, 2)]


def corpus_groups():
    d = os.path.join(sv.ROOT, "corpus", "C02")
    out = []
    if os.path.isdir(d):
        for f in sorted(os.listdir(d)):
            if f.endswith(".json"):
                g = json.load(open(os.path.join(d, f)))
                g["pairs"] = [tuple(p) for p in g["pairs"]]
                g.setdefault("id", f[:-5])
                g.setdefault("family", "corpus")
                out.append(g)
    return out


# ---------------------------------------------------------------------------------------------------------------
# running and comparing

def run_groups(ctx, groups, tag="cases"):
    flat, index = [], []
    for gi, g in enumerate(groups):
        for name, c in g["variants"].items():
            flat.append(c)
            index.append((gi, name))
    rc, log, res = sv.run_harness_sharded(ctx, "eval", flat, timeout=600)
    # a missing result line = the evaluator process died or ran out of time in that shard: run those cases again, alone
    missing = [i for i, r in enumerate(res) if r is None]
    for i in missing[:40]:
        rc1, log1, r1 = sv.run_harness(ctx, "eval", [flat[i]], tag="retry", timeout=60)
        res[i] = r1[0]
    sigs = [dict() for _ in groups]
    for (gi, name), r in zip(index, res):
        if r is None and len(missing) > 40:
            continue
        sigs[gi][name] = sig(r)
    return sigs, len(flat)


def classify(g, a, b, sa, sb):
    txt = json.dumps([sa, sb])
    if "Operation `(iter)` not supported on type `string`" in txt:
        ok_side = sa if "not supported on type `string`" not in json.dumps(sa) else sb
        if "not supported on type `string`" not in json.dumps(ok_side):
            return KEY_EMPTY_STR
    if g["family"] == "repl-rebind":
        return KEY_STALE
    if g["family"] == "slice-fold":
        return KEY_SLICE
    if kwonly_type_is(g, sa, sb):
        return KEY_KWONLY
    if sa[0] == "CRASH" or sb[0] == "CRASH":
        return "C02/crash:" + g["family"].split(":")[0]
    return "C02/diff:%s:%s~%s" % (g["family"].split(":")[0], a, b)


def kwonly_type_is(g, sa, sb):
    """The one known defect of call specialisation: `def f(*, x): return type(x) == "T"` (ReturnTypeIs although the only parameter
    is keyword-only), frozen and visible, called with exactly one positional argument and nothing else: the call is rewritten to
    `type(arg) == "T"` and succeeds; an ordinary call refuses the positional argument.  Narrow: that signature, that body, that
    call shape, and one side succeeds where the other fails in the call."""
    m = g.get("meta") or {}
    if not g["family"].startswith("call-shape") or not m.get("body_kind", "").startswith("type-is") or m.get("body_kind") == "type-is-not":
        return False
    if re.sub(r"\s", "", m.get("sig", "")) not in ("*,x", "*,x=1"):
        return False
    if m.get("call") not in ("(<<%(a)s>>)", "(%(p)s)", "(%(z)s)", "(t(<<%(a)s>>))"):
        return False
    # exactly one side refuses the positional argument; the other side made the call (and went on)
    refused = [any(o[0] == "err" and re.search(r"named-only parameter|extra positional|positional argument", o[2] or "") for o in outcomes(x)) for x in (sa, sb)]
    return refused[0] != refused[1]


def stack_limit_artefact(sa, sb):
    """Both variants run into the call-stack limit with the same outcomes, and one transcript is a prefix of the other.  The
    opacifying rewrites insert native calls (`opaque(...)`), and every native call occupies a call-stack frame: an unbounded
    recursion therefore hits `Starlark call stack overflow` one level earlier in the opacified variant.  Where the limit strikes
    is a property of the call depth (C15), not of the optimiser; everything emitted before it must still agree."""
    oa, ob = outcomes(sa), outcomes(sb)
    if oa != ob or not oa or oa[-1][0] != "err":
        return False
    if not re.search(r"call stack overflow|Too many recursion levels", oa[-1][2] or ""):
        return False
    ta, tb = sa[0], sb[0]
    if not isinstance(ta, tuple) or not isinstance(tb, tuple):
        return False
    ta, tb = [x for x in ta if x != "|"], [x for x in tb if x != "|"]
    n = min(len(ta), len(tb))
    return ta[:n] == tb[:n]


def compare_groups(groups, sigs, stats):
    """-> list of (group index, a, b, sa, sb)."""
    diffs = []
    for gi, g in enumerate(groups):
        s = sigs[gi]
        for a, b in g["pairs"]:
            sa, sb = s.get(a), s.get(b)
            if sa is None or sb is None:
                continue
            stats["pairs"] += 1
            if is_parse_error(sa) or is_parse_error(sb):
                stats["invalid"] += 1
                continue
            if ("loaded" in a) != ("loaded" in b) and (frozen_mutation(sa) or frozen_mutation(sb)) and sa != sb:
                stats["skipped_frozen_mutation"] += 1
                continue
            if sa != sb and stack_limit_artefact(sa, sb):
                stats["skipped_stack_limit_depth"] = stats.get("skipped_stack_limit_depth", 0) + 1
                continue
            if sa == sb:
                stats["equal"] += 1
                if any(o[0] == "err" for o in outcomes(sa)):
                    stats["equal_failing"] += 1
                stats["transcript_items"] += len(sa[0]) if isinstance(sa[0], tuple) else 0
            else:
                diffs.append((gi, a, b, sa, sb))
    return diffs


def shrink(ctx, g, a, b):
    """Statement deletion while the pair still differs (same key)."""
    va, vb = g["variants"][a], g["variants"][b]
    if va.get("mods") or vb.get("mods") or va.get("then") or vb.get("then"):
        return None
    la, lb = va["src"].split("\n"), vb["src"].split("\n")
    if len(la) != len(lb):
        return None
    cur = [va["src"], vb["src"]]
    key0 = None
    for _ in range(8):
        lines = [c.split("\n") for c in cur]
        cands = []
        for (i, j) in opacify.blocks(lines[0]):
            cand = ["\n".join(l[:i] + l[j:]) for l in lines]
            if cand[0].strip():
                cands.append(cand)
        if not cands:
            break
        flat = [case(c[0]) for c in cands] + [case(c[1]) for c in cands]
        rc, log, res = sv.run_harness_sharded(ctx, "eval", flat, timeout=300)
        n = len(cands)
        best = None
        for k in range(n):
            s1, s2 = sig(res[k]), sig(res[n + k])
            if s1 != s2 and not is_parse_error(s1) and not is_parse_error(s2):
                key = classify(g, a, b, s1, s2)
                if key0 is None:
                    key0 = classify(g, a, b, sig_of(ctx, cur[0]), sig_of(ctx, cur[1]))
                if key == key0 and (best is None or len(cands[k][0]) < len(best[0])):
                    best = cands[k]
        if best is None:
            break
        cur = best
    return cur


def sig_of(ctx, src):
    rc, log, res = sv.run_harness(ctx, "eval", [case(src)], tag="one", timeout=120)
    return sig(res[0])


def hide_slice_receivers(x):
    """The program with the receiver of every three-part slice hidden: ExprCompiled::slice cannot fold it any more."""
    if isinstance(x, tuple):
        if x and x[0] == "slice" and x[2] is not None and x[3] is not None and x[4] is not None:
            return ("slice", ("call", ("var", "opaque"), [hide_slice_receivers(x[1])], [], None, None),
                    hide_slice_receivers(x[2]), hide_slice_receivers(x[3]), hide_slice_receivers(x[4]))
        return tuple(hide_slice_receivers(y) for y in x)
    if isinstance(x, list):
        return [hide_slice_receivers(y) for y in x]
    return x


def triage_slice(ctx, g, a, b):
    """A random program whose variants differ: is the known slice-folding defect the only cause?"""
    if "prog" not in g:
        return False
    g2 = program_group(g["id"] + "-hs", hide_slice_receivers(g["prog"]))
    sigs, _ = run_groups(ctx, [g2])
    sa, sb = sigs[0].get(a), sigs[0].get(b)
    return sa is not None and sa == sb


def full_text(c):
    """The program of a variant, library modules included."""
    return "".join("# module %s\n%s" % (m["name"], m["src"]) for m in c.get("mods", [])) + ("# main module\n" if c.get("mods") else "") + c["src"]


def direction(a, b, sa, sb):
    """Which way the difference goes, when one variant fails and the other does not (or fails differently)."""
    ea = [o for o in outcomes(sa) if o[0] == "err"]
    eb = [o for o in outcomes(sb) if o[0] == "err"]
    if ea and not eb:
        return " (the error `%s` of `%s` does not happen in `%s`)" % (ea[0][2], a, b)
    if eb and not ea:
        return " (the error `%s` of `%s` does not happen in `%s`)" % (eb[0][2], b, a)
    if ea and eb and ea[0] != eb[0]:
        return " (different errors)"
    if not ea and not eb:
        return " (both succeed: different transcript or result)"
    return " (same error, different transcript)"


def failures_of(ctx, groups, sigs, diffs, do_shrink=True):
    fails, seen = [], {}
    for gi, a, b, sa, sb in diffs:
        g = groups[gi]
        key = classify(g, a, b, sa, sb)
        if key.startswith("C02/diff:random-program") and seen.get(key, 0) < 6 and triage_slice(ctx, g, a, b):
            key = KEY_SLICE
        seen[key] = seen.get(key, 0) + 1
        if seen[key] > 1:
            continue
        rep = {"group": {"id": g["id"], "family": g["family"], "variants": {a: g["variants"][a], b: g["variants"][b]}, "pairs": [[a, b]]},
               "observed": {a: sa, b: sb}}
        if g.get("meta"):
            rep["group"]["meta"] = g["meta"]
        if do_shrink:
            try:
                m = shrink(ctx, g, a, b)
                if m:
                    rep["minimised"] = {a: m[0], b: m[1]}
            except Exception as e:  # noqa: BLE001
                rep["shrink_error"] = str(e)
        what = ("%s [%s]: variants `%s` and `%s` of the same program behave differently%s: %s | %s ; program (%s):\n%s"
                % (g["id"], g["family"], a, b, direction(a, b, sa, sb), json.dumps(sa)[:300], json.dumps(sb)[:300], a,
                   (rep.get("minimised", {}).get(a) or full_text(g["variants"][a]))[:900]))
        fails.append({"key": key, "what": what, "replay": rep})
    return fails, seen


# ---------------------------------------------------------------------------------------------------------------
# white-box: folding decision of the Coq optimiser on integer operators vs the implementation

WB_OPS = [("+", "Add"), ("-", "Sub"), ("*", "Mul"), ("//", "FloorDiv"), ("%", "Percent"), ("&", "BitAnd"), ("|", "BitOr"), ("^", "BitXor"),
          ("<<", "Shl"), (">>", "Shr"), ("==", "Equals"), ("<", "(Compare Lt)"), ("<=", "(Compare Le)"), (">", "(Compare Gt)"), (">=", "(Compare Ge)")]
WB_VALS = [0, 1, -1, 2, -2, 3, 7, -7, 13, 31, 32, 33, 63, 64, -64, 100, -100, 2147483647, -2147483648, 2147483648, 4294967296, -4294967297]


def whitebox(ctx, n, fixed=None):
    cases_ = []
    for _ in range(n if fixed is None else 0):
        op = ctx.rng.choice(WB_OPS)
        a, b = ctx.rng.choice(WB_VALS), ctx.rng.choice(WB_VALS)
        if op[0] in ("<<", ">>") and abs(b) > 64:
            b = b % 65          # Z.shiftl / Z.shiftr iterate |b| times in the model: no astronomically large shift counts
        cases_.append((op, a, b))
    for (sym, a, b) in fixed or []:
        cases_.append(([o for o in WB_OPS if o[0] == sym][0], a, b))
    items = "; ".join("(%s, %s, %s)" % (op[1], sv.zlit(a), sv.zlit(b)) for op, a, b in cases_)
    text = ("From Coq Require Import ZArith String List.\nFrom SV Require Import Opt.Model Opt.Sem Opt.Cases.\nImport ListNotations.\nOpen Scope Z_scope.\n"
            "Eval vm_compute in (map (fun t => match t with (o, a, b) => match optimize0 no_defs 0 (Builtin2 o (Value (VInt a)) (Value (VInt b))) with "
            "Value (VInt z) => Some (inl z) | Value (VBool t) => Some (inr t) | _ => None end end) [%s]).\n" % items)
    outs = sv.coq_eval_files(ctx, [("wb", text)], timeout=300)
    rc, out = outs[0]
    vals = sv.coq_values(out)
    if rc != 0 or not vals or len(vals[0]) != len(cases_):
        return [], [("whitebox-model-run", out[-400:])], 0
    flat = [case("emit(%s %s %s)\n" % (progs.src_expr(("int", a)), op[0], progs.src_expr(("int", b)))) for op, a, b in cases_]
    flat += [case("emit(opaque(%d) %s opaque(%d))\n" % (a, op[0], b)) for op, a, b in cases_]
    rc, log, res = sv.run_harness_sharded(ctx, "eval", flat, timeout=300)
    fails, n_ok = [], 0
    for i, ((op, a, b), m) in enumerate(zip(cases_, vals[0])):
        for r in (res[i], res[len(cases_) + i]):
            s = sig(r)
            if m == "None":
                ok = any(o[0] == "err" for o in outcomes(s))
                want = "an error (nothing folded)"
            else:
                v = m[1]
                want = ("i%d" % v[1]) if v[0] == "inl" else ("True" if v[1] == "true" else "False")
                ok = s[0] == (want, "|")
            if ok:
                n_ok += 1
            else:
                fails.append({"key": "C02/model-vs-impl:int-fold:%s" % op[1].strip("()").replace(" ", "-"),
                              "what": "Coq optimiser folds %d %s %d to %s but the implementation gives %s" % (a, op[0], b, want, json.dumps(s)[:200]),
                              "replay": {"whitebox": [op[0], a, b], "model": m, "impl": s}})
    return fails, [], n_ok


# ---------------------------------------------------------------------------------------------------------------

def build_groups(ctx, scale, n_prog):
    groups = corpus_groups()
    for name, fam, weight in FAMILIES:
        groups += fam(ctx.rng, max(1, int(scale * weight)))
    agg = {}
    for i in range(n_prog):
        seed = ctx.rng.getrandbits(48)
        g = progs.Gen(__import__("random").Random(seed), max_stmts=ctx.rng.choice([10, 16, 22]), max_depth=4, p_fail=0.3)
        prog = g.program()
        for k, v in g.stats.items():
            agg[k] = agg.get(k, 0) + v
        groups.append(program_group("s%d" % seed, prog))
    return groups, agg


def evaluate(ctx, groups, do_shrink=True):
    stats = {"pairs": 0, "equal": 0, "equal_failing": 0, "invalid": 0, "skipped_frozen_mutation": 0, "transcript_items": 0}
    sigs, nruns = run_groups(ctx, groups)
    diffs = compare_groups(groups, sigs, stats)
    fails, seen = failures_of(ctx, groups, sigs, diffs, do_shrink)
    stats["runs"] = nruns
    stats["differing_pairs_by_key"] = seen
    return fails, stats, sigs


def correspond(ctx):
    scale = ctx.n(150, 900)
    groups, agg = build_groups(ctx, scale, ctx.n(600, 4000))
    fails, stats, sigs = evaluate(ctx, groups)
    ctx.log("groups=%d runs=%d pairs=%d equal=%d (failing outcomes %d) invalid=%d skipped(frozen mutation)=%d differing=%s"
            % (len(groups), stats["runs"], stats["pairs"], stats["equal"], stats["equal_failing"], stats["invalid"],
               stats["skipped_frozen_mutation"], stats["differing_pairs_by_key"]))
    wb_fails, broken, wb_ok = whitebox(ctx, ctx.n(150, 180))
    ctx.log("white-box int folding: %d observations agree, %d differ" % (wb_ok, len(wb_fails)))
    fams = {}
    for g in groups:
        f = g["family"].split(":")[0]
        fams[f] = fams.get(f, 0) + 1
    distinct = len({json.dumps(g["variants"], sort_keys=True) for g in groups})
    cov = {
        "evaluations": stats["runs"] + 2 * (wb_ok + len(wb_fails)) // 2,
        "distinct_nontrivial": distinct,
        "rule": "one program group = a program or template instance with its variants (plain / opaque / cell / in-def / frozen-and-loaded); "
                "distinct by the source texts of all variants; every group has at least one emit and one hideable constant",
        "groups": len(groups), "variant_runs": stats["runs"], "pairs_compared": stats["pairs"], "pairs_equal": stats["equal"],
        "pairs_equal_with_failing_outcome": stats["equal_failing"], "pairs_invalid_program": stats["invalid"],
        "pairs_skipped_frozen_mutation": stats["skipped_frozen_mutation"], "transcript_items_compared": stats["transcript_items"],
        "traces_validated_against_impl": stats["equal"] + wb_ok,
        "whitebox_int_fold_observations": wb_ok,
        "input_distribution": {"families": fams, "random_program_features": agg},
        "differing_pairs_by_key": stats["differing_pairs_by_key"],
        "samples": [groups[0]["variants"], groups[len(groups) // 2]["variants"]],
        "exhaustive": False,
    }
    return {"coverage": cov, "failures": fails + wb_fails, "broken": broken}


def search(ctx, broken):
    """Operand-value sweep around the risky shapes with the deep generators."""
    groups, agg = build_groups(ctx, 400, 800)
    fails, stats, sigs = evaluate(ctx, groups)
    wb_fails, _, wb_ok = whitebox(ctx, 190)
    return {"failures": fails + wb_fails, "coverage": {"evaluations": stats["runs"], "pairs": stats["pairs"], "whitebox": wb_ok}}


def replay(ctx, rep):
    r = rep.get("replay", {})
    if "whitebox" in r:
        fails, broken, n_ok = whitebox(ctx, 0, fixed=[tuple(r["whitebox"])])
        return {"coverage": {"evaluations": 2, "distinct_nontrivial": 1, "samples": [r["whitebox"]]}, "failures": fails, "broken": broken}
    if "group" not in r:
        return {"coverage": {}, "failures": []}
    g = r["group"]
    g["pairs"] = [tuple(p) for p in g["pairs"]]
    fails, stats, sigs = evaluate(ctx, [g], do_shrink=False)
    return {"coverage": {"evaluations": stats["runs"], "distinct_nontrivial": 1, "samples": [g["variants"]]}, "failures": fails}


META = {
    "category": "proof",
    "level_text": "Proof (model) + metamorphic tie. Proved in Coq for ALL IR terms, states, worlds and native-function behaviours: "
                  "is_pure_infallible / is_pure_infallible_to_bool are sound; every smart constructor (seq, logical_bin_op, not, if_expr, "
                  "ExprCompiledBool::new, bin_op/un_op/slice/index/equals/percent folding: only on a successful compile-time evaluation, a "
                  "failure and its message stay at run time; len/type folding; speculative execution) and the whole bottom-up `optimize` "
                  "preserve value, failure+message, world and transcript order at the same fuel; inlining is sound under exactly the guard of "
                  "try_inline (example: without the argument guard the order of effect and failure changes); substitution of a module slot "
                  "by its value is sound while the slot is not reassigned (counter-example for a twice-bound variable); statement-level "
                  "optimisation (expression statements, if, for, dead code after terminal statements) is sound with the for-guard repaired. "
                  "The guards the model mirrors are read from the Rust text by the translator (Extracted/OptC.v, theorem "
                  "C02_extracted_guards): removing one breaks the proof build and starts the counter-example search. "
                  "is_pure_infallible_to_bool's dict arm is restricted to the EMPTY display in the code (read by the translator); "
                  "C02_dict_to_bool_guard_necessary shows the restriction necessary: with the arm written like the list/tuple arm, `{[]: 1}` "
                  "and `{\"a\": 1, \"a\": 2}` are predicted true although building them fails, and the folded conditional runs a branch. "
                  "Findings of this check: a def `f(*, x): return type(x) == T` (keyword-only parameter) is specialised as ReturnTypeIs and, once "
                  "frozen, accepts a positional argument that an ordinary call refuses (known finding, outside the model: the model's defs "
                  "have positional parameters only); ExprCompiled::slice as written (mirror slice_as_written) folds a slice of a constant "
                  "receiver ignoring non-constant bounds - refuted by C02_slice_as_written_refuted, the proved slice_c is the intended "
                  "guard; a module constant inlined into a def is stale after a later eval_module rebinding it (outside the model: one "
                  "AstModule per Module). "
                  "Partial: the real compiler vs the model is tied by the metamorphic oracle and a white-box check of integer "
                  "folding, not proved; is_iterable_empty's string guard (a defect found by this check, since repaired) is shown "
                  "necessary by C02_for_stmt_string_guard_necessary.",
    "level_note": "Trusted: Coq kernel; Opt/Sem.v as meaning of the IR (fresh containers by value, heap abstract); the hand-written mirror "
                  "Opt/Model.v; the harness identity `opaque`. Not modelled (tie only): bytecode emission, definitely_assigned.rs, "
                  "known_methods.rs, list-display fusion for +, FormatOne/try_format, enum folding, comprehensions, AssignModify.",
    "technique": "Coq model of the optimiser + soundness proofs (big-step semantics, abstract effects); metamorphic differential testing "
                 "(opacified / frozen-and-loaded variants) with shrinking; cases.v white-box check",
    "design_ref": "DESIGN.md section 4 C02, Appendix A C02",
}
