"""C17 The static type checker is sound where it commits and silent on well-typed code.

Proof: coq/Typing/{Model,Proofs,OpSound,StmtSound,WellTyped}.v + Properties/C17.v (model of expression typing, binding collection
and the bounded union iteration of solve_bindings; per-operator expression soundness, straight-line module soundness, completeness on
the generator's typing rules; C16's types, `denote` and union normalisation are reused).
Tie (harness bin `typecheck`, three typecheck runs per module, then the module is RUN):
  * no-crash / determinism: every parseable *.star / *.bzl / test snippet under the repository + all generated modules;
  * silence: modules from the type-directed generator (tools/gen/typed.py on gen.progs, well typed by construction,
    no container mutation) and the operator-family modules must get NO diagnostic;
  * DIRECT ORACLE on the implementation: every binding the checker typed (TypeMap of the top-level defs, Interface of the
    module) is tested at run time with `isinstance(value, <rendered type>)` (probe(..) calls inserted after each binding;
    exported names after the run) unless the solver flagged non-convergence;
  * MODULE-LEVEL FAMILY (tools/gen/typed.py module_level, module_level_table): the Interface comes from the partial evaluator
    of typing/fill_types_for_lint.rs (GlobalTypesBuilder), not from the solver - exported variables bound once, re-bound
    straight-line, re-bound inside top-level if / else / for bodies (same kind, different kind, body run or skipped), bound
    only inside a branch, unpacking targets, augmented assignment, loop variables, (re)defined defs, aliases, values of all
    kinds (str tuple bool None def builtin: definite; int list dict struct lambda: Any); every exported binding with a
    definite unflagged Interface type gets the isinstance oracle after the run (function types: typing.Callable), and the
    defs that use those globals according to the value they finally hold must get no diagnostic;
  * model: for the programs wrapped in one function the Coq model (vm_compute, Typing/Cases.v) must assign the same
    type to every binding it models, and the same approximation flag; the hand-written tuple-slice programs
    (tuple_slice_model_cases: the rule of expr_slice_basic repaired by 0f4399a, which the generator does not reach)
    are always among the compared programs.
The Python side never decides soundness by itself: membership is answered by the implementation's own isinstance."""
import json
import os
import re

import sv
from gen import progs, typed

PROP = "C17"
HARNESS_BINS = ["typecheck"]
COQ_TARGETS = ["Properties/C17.vo", "Typing/Cases.vo"]
TRUSTED = ["harness bin `typecheck` (three runs, TypeMap Display parsing, probe(): rendered type -> eval_type -> TypeCompiled::matches)",
           "tools/gen/progs.py + tools/gen/typed.py (generator whose typing derivation defines 'well typed by construction'; "
           "the two printers source text / Gallina term; the parser of the checker's rendered types)",
           "cases.v route: the model is evaluated by vm_compute inside coqc",
           "C16: `isinstance` decides membership in a rendered type (its own correctness is property C16)"]
ASSUMPTIONS = ["fragment: monomorphic core (int str bool None list tuple dict, defs with/without annotations and defaults, calls, "
               "comprehensions, conditionals, loops, recursion), no container mutation after binding, one module (no load)",
               "a binding is identified by its name (generated names are unique); bindings of top-level defs are observed through "
               "TypeMap's Display because its fields are private",
               "soundness of the real checker is established by the run-time oracle on generated modules, not by proof; the Coq "
               "soundness theorem covers the model's expression fragment under a pure (store-free) semantics",
               "types the checker renders in a form that is not a type expression (def(..) -> .., function names) are not testable "
               "with isinstance and are skipped (counted)"]

NONCONV = "Fixed point didn't converge"


# ---------------------------------------------------------------------------------------------------
# operator families: one small def per (operator, operand types), annotated or not, called once with fitting values
VALS = {"int": ["3", "(-2)", "0"], "str": ['"ab"', '""'], "bool": ["True"], "list[int]": ["[1, 2]", "[]"], "list[str]": ['["a"]'],
        "(int, str)": ['(1, "a")'], "dict[str, int]": ['{"a": 1}'], "dict[int, str]": ['{1: "x"}'], "None": ["None"]}
BINFAM = [
    ("int", o, "int") for o in ["+", "-", "*", "//", "%", "&", "|", "^", "<<", ">>", "<", "<=", "==", "!="]] + [
    ("str", "+", "str"), ("str", "*", "int"), ("int", "*", "str"), ("str", "<", "str"), ("str", "==", "str"), ("str", "in", "str"),
    ("list[int]", "+", "list[int]"), ("list[int]", "+", "list[str]"), ("list[int]", "*", "int"), ("int", "*", "list[int]"),
    ("list[int]", "<", "list[int]"), ("list[int]", "==", "list[int]"), ("int", "in", "list[int]"), ("str", "in", "list[str]"),
    ("(int, str)", "+", "(int, str)"), ("(int, str)", "*", "int"), ("int", "*", "(int, str)"), ("(int, str)", "==", "(int, str)"),
    ("int", "in", "(int, str)"), ("str", "in", "dict[str, int]"), ("int", "in", "dict[int, str]"),
    ("dict[str, int]", "|", "dict[str, int]"), ("dict[str, int]", "|", "dict[int, str]"), ("dict[str, int]", "==", "dict[str, int]"),
    ("bool", "and", "bool"), ("bool", "or", "bool"), ("int", "and", "str"), ("str", "or", "int"), ("None", "==", "None"),
    ("int", "==", "str"), ("bool", "<", "bool"), ("bool", "==", "bool")]
UNFAM = [("-", "int"), ("+", "int"), ("~", "int"), ("not", "int"), ("not", "str"), ("not", "list[int]"), ("not", "bool")]
IDXFAM = [("list[int]", "0"), ("list[int]", "(-1)"), ("list[str]", "0"), ("(int, str)", "0"), ("(int, str)", "1"), ("dict[str, int]", '"a"'),
          ("dict[int, str]", "1"), ("str", "0"), ("list[int]", "0:1"), ("(int, str)", "0:1"), ("str", "0:1"), ("list[int]", "::2")]
EXPECT_ERR = {("int", "==", "str")}       # `==` between disjoint types is reported by design ("pointless"): not well typed


def family_cases(rng, reps):
    out = []
    k = 0

    def mk(form, params, body_expr, args_by_param, expect_clean=True):
        nonlocal k
        for ann in (True, False, "mixed"):
            for _ in range(reps):
                k += 1
                ps = []
                for i, (p, t) in enumerate(params):
                    a = ann is True or (ann == "mixed" and (i + k) % 2 == 0)
                    ps.append("%s: %s" % (p, t) if a else p)
                args = ", ".join(rng.choice(VALS[t]) for _, t in params)
                src = "def f(%s):\n    r = %s\n    probe(\"r\", r)\n    s = [r]\n    probe(\"s\", s)\n    t = r if %s else r\n    probe(\"t\", t)\n    return r\nf(%s)\n" % (
                    ", ".join(ps), body_expr, "True" if k % 2 else "False", args)
                out.append({"src": src, "run": True, "kind": "family", "form": form, "welltyped": expect_clean, "id": "fam%d:%s" % (k, form)})
    for a, o, b in BINFAM:
        if o in ("<<", ">>"):
            mk("%s %s %s" % (a, o, b), [("a", a)], "(a %s 2)" % o, None)
            continue
        if o in ("//", "%"):
            mk("%s %s %s" % (a, o, b), [("a", a), ("b", b)], "(a %s (b | 1))" % o, None)
            continue
        mk("%s %s %s" % (a, o, b), [("a", a), ("b", b)], "(a %s b)" % o, None, expect_clean=(a, o, b) not in EXPECT_ERR)
    for o, a in UNFAM:
        mk("%s %s" % (o, a), [("a", a)], "(%s a)" % o if o == "not" else "(%sa)" % o, None)
    for a, i in IDXFAM:
        mk("%s[%s]" % (a, i), [("a", a)], "a[%s]" % i, None)
    # comprehension / iteration / conditional / unpacking forms
    mk("listcomp", [("a", "list[int]")], "[x for x in a]", None)
    mk("listcomp-pair", [("a", "list[int]"), ("b", "list[str]")], "[(x, y) for x in a for y in b if x]", None)
    mk("dictcomp", [("a", "list[str]")], "{x: len(x) for x in a}", None)
    mk("ifx-mixed", [("a", "int"), ("b", "str")], "(a if a else b)", None)
    mk("ifx-containers", [("a", "list[int]"), ("b", "list[str]")], "(a if a else b)", None)
    mk("tuple-display", [("a", "int"), ("b", "str")], "(a, b, [a], {b: a})", None)
    return out


def loop_carried_cases(rng, n):
    """Bindings whose type depends on a binding that textually comes later (needs more than one solver pass)."""
    out = []
    lits = [("int", "7"), ("str", '"q"'), ("list[int]", "[1]"), ("(int, str)", '(1, "z")'), ("dict[str, int]", '{"k": 2}'), ("bool", "True")]
    for j in range(n):
        t, lit = rng.choice(lits)
        depth = rng.randint(1, 4)
        names = ["w%d" % i for i in range(depth + 1)]
        body = ["    for i in [1, 2, 3, 4, 5, 6]:"]
        # chain: w_k = w_{k+1} (defined later), last one gets the literal; first iterations skip unset names
        for i in range(depth):
            body.append("        if i > %d:" % (depth - i))
            body.append("            %s = %s" % (names[i], names[i + 1]))
            body.append("            probe(\"%s\", %s)" % (names[i], names[i]))
        body.append("        %s = %s" % (names[depth], lit))
        body.append("        probe(\"%s\", %s)" % (names[depth], names[depth]))
        src = "def f():\n" + "\n".join(body) + "\n    return None\nf()\n"
        out.append({"src": src, "run": True, "kind": "loop-carried", "welltyped": True, "id": "lc%d:%s:%d" % (j, t, depth)})
    return out


# ---------------------------------------------------------------------------------------------------
def repo_sources(ctx, limit):
    """Every *.star / *.bzl under the repository + r#"..."# / "..." snippets of the typing tests (parse errors are skipped by the harness)."""
    root = sv.REPO
    files = []
    for dp, dn, fn in os.walk(root):
        if "/target" in dp or "/.git" in dp:
            continue
        for f in fn:
            if f.endswith((".star", ".bzl", ".bxl", ".sky")):
                files.append(os.path.join(dp, f))
    files.sort()
    out = []
    for p in files:
        try:
            s = open(p, encoding="utf-8").read()
        except (OSError, UnicodeDecodeError):
            continue
        if len(s) < 200000:
            out.append({"src": s, "run": False, "kind": "repo-file", "id": os.path.relpath(p, root)})
    snippets = []
    tdir = os.path.join(root, "starlark", "src", "typing")
    rs = [os.path.join(tdir, "tests.rs")] + [os.path.join(tdir, "tests", f) for f in sorted(os.listdir(os.path.join(tdir, "tests"))) if f.endswith(".rs")]
    rs += [os.path.join(root, "starlark", "src", "tests", f) for f in sorted(os.listdir(os.path.join(root, "starlark", "src", "tests"))) if f.endswith(".rs")] \
        if os.path.isdir(os.path.join(root, "starlark", "src", "tests")) else []
    for p in rs:
        try:
            s = open(p, encoding="utf-8").read()
        except OSError:
            continue
        for j, m in enumerate(re.finditer(r'r#"(.*?)"#', s, re.S)):
            snippets.append({"src": m.group(1) + "\n", "run": False, "kind": "test-snippet", "id": "%s#%d" % (os.path.relpath(p, root), j)})
    allc = out + snippets
    if len(allc) > limit:
        keep = ctx.rng.sample(range(len(allc)), limit)
        allc = [allc[i] for i in sorted(keep)]
    return allc


def weird_cases(rng, n):
    """Parseable but odd modules for the no-crash half (deep nesting, many bindings, self-referential unions, lambdas, odd annotations)."""
    out = []
    deep = "x = " + "(" * 60 + "1" + ")" * 60 + "\n"
    out.append(deep)
    out.append("def f(x):\n" + "".join("    x = [x]\n" for _ in range(120)) + "    return x\n")        # does not converge: must be flagged
    out.append("def f():\n    x = []\n    for i in range(3):\n        x = [x]\n    return x\n")
    out.append("def f():\n    d = {}\n    for i in range(3):\n        d = {i: d}\n    return d\n")
    out.append("def f(a: \"nonsense\", b: 1 + 2, c: [int]) -> foo.bar:\n    return a\n")
    out.append("f = lambda x: x\ny = f(1)\ndef g(*args, **kwargs):\n    return args[0](*args, **kwargs)\n")
    out.append("def f():\n    return f\nx = f()()()\n")
    out.append("def f(x: int | str | None | list[int | str] | dict[str, list[int]] = None):\n    return [y for y in x for y in y for y in y]\n")
    out.append("x = 1\nx += \"a\"\nx[0] = 1\nx.y = 2\n(a, (b, c)) = x\nfor a, b in x: pass\n")
    out.append("def f():\n    for x in 1: pass\n    a, b = 1\n    return a[b](a=b, *a, **b)\n")
    out.append("".join("v%d = v%d if v%d else %d\n" % (i + 1, i, i, i) for i in range(0, 150)).replace("v0 if v0", "0 if 0", 1).replace("v0", "0"))
    for _ in range(n):
        # generated programs with planted failures and a random statement duplicated / deleted
        g = typed.generate(rng.getrandbits(40), max_stmts=14, max_depth=3, p_fail=1.0)
        lines = g["src_module"].splitlines()
        out.append("\n".join(lines) + "\n")
    return [{"src": s, "run": False, "kind": "weird", "id": "weird%d" % i} for i, s in enumerate(out)]


def modlevel_cases(ctx, n_random, n_table):
    """The module-level family (see typed.module_level): the systematic table (sampled in the quick tier) + random modules."""
    table = typed.module_level_table()
    if n_table < len(table):
        # always keep the rows whose final value has another kind than the first binding, sample the rest
        diff = [t for t in table if t["diff"] and t["branchy"]]
        rest = [t for t in table if not (t["diff"] and t["branchy"])]
        ctx.rng.shuffle(diff)
        ctx.rng.shuffle(rest)
        table = diff[:max(n_table * 3 // 4, 1)] + rest[:max(n_table // 4, 1)]
    out, meta = [], {"modlevel_table_rows": len(table), "modlevel_random": n_random, "modlevel_rebind_diff": 0, "modlevel_uses": 0}
    for t in table:
        out.append({"src": t["src"], "run": True, "kind": "modlevel-table", "welltyped": True, "id": "ml:" + t["id"], "form": t["id"],
                    "_coq": t["coq"]})
        meta["modlevel_rebind_diff"] += int(t["diff"])
    for _ in range(n_random):
        seed = ctx.rng.getrandbits(48)
        import random as _r
        m = typed.module_level(_r.Random(seed))
        out.append({"src": m["src"], "run": True, "kind": "modlevel", "welltyped": True, "id": "ml:s%d" % seed, "_vars": m["vars"]})
        meta["modlevel_rebind_diff"] += m["rebind_diff"]
        meta["modlevel_uses"] += m["uses"]
        for k, v in m["shapes"].items():
            meta["modlevel_shape_" + k] = meta.get("modlevel_shape_" + k, 0) + v
    return out, meta


def load_corpus():
    p = os.path.join(sv.ROOT, "corpus", PROP, "cases.jsonl")
    out = []
    if os.path.exists(p):
        for line in open(p):
            line = line.strip()
            if line and not line.startswith("#"):
                c = json.loads(line)
                out.append({"src": c["src"], "run": True, "kind": "corpus", "welltyped": c.get("welltyped", False), "id": "corpus:" + c["name"],
                            "form": c.get("form")})
    return out


def tuple_slice_model_cases():
    """Hand-written wrapped programs about the rule of expr_slice_basic for tuple types (repaired by 0f4399a: a tuple type
    slices to tuple[T0 | .. | Tn-1, ...]).  The generator slices only str and list values, so these fixed programs are what
    ties Typing/Model.v `slice_basic` on tuples to the real checker: they get the run-time oracle AND, always (both tiers), the
    model-vs-TypeMap comparison (kind `corpus-model`; source text and Gallina term come from the same AST)."""
    def I(z):
        return ("int", z)

    def V(x):
        return ("var", x)

    def sl(a, lo, hi, st=None):
        return ("slice", a, lo, hi, st)

    def asg(x, e):
        return ("assign", ("tvar", x), e)
    t = ("tuple", [I(1), ("str", "a")])
    progs_ = {
        # fixed arity, the empty tuple (Ty::unions([]) = Never), a slice of a slice (homogeneous), every bound form
        "tuple-slice-fixed-empty-homogeneous": [
            asg("t", t), asg("r", sl(V("t"), I(0), I(1))), asg("e", ("tuple", [])), asg("q", sl(V("e"), I(0), I(1))),
            asg("s", sl(V("r"), None, I(5))), asg("a", sl(V("t"), None, None, I(-1))), asg("b", sl(V("t"), I(1), None)),
            asg("c", sl(("tuple", [I(1), I(2), I(3)]), I(-2), None, I(1))), asg("n", sl(("tuple", [("none",)]), I(3), None))],
        # unions of tuple types of different arities and element types; nested; inside a comprehension and a list display
        "tuple-slice-unions-and-nesting": [
            asg("t", t), asg("r", sl(V("t"), I(0), I(1))), asg("u", ("ifx", V("r"), V("t"), ("tuple", [I(2)]))),
            asg("w", sl(V("u"), None, None, I(2))),
            asg("m", ("ifx", V("r"), V("t"), ("list", [I(1)]))), asg("k", sl(V("m"), I(0), I(1))),
            asg("p", ("tuple", [V("t"), ("list", [V("t")]), ("bool", True)])), asg("g", sl(V("p"), I(1), None)),
            asg("x", ("lcomp", sl(V("y"), I(0), I(1)), [("for", ("tvar", "y"), ("list", [V("t")]))])),
            asg("l", ("list", [sl(V("t"), None, I(1)), sl(V("w"), I(1), None)])),
            asg("i", ("index", sl(V("t"), I(0), I(2)), I(0)))],
    }
    out = []
    for name, prog in progs_.items():
        iprog = typed.instrument(prog)
        wprog = progs.wrap_in_function(iprog)
        nw, _ = progs.number(wprog)
        g = {"prog": prog, "coq_wrapped": progs.coq_block(nw), "coq_sigs": typed.sigs_coq(wprog, {})}
        out.append({"src": "\n".join(typed.render(wprog, {})) + "\n", "run": True, "kind": "corpus-model", "welltyped": True,
                    "id": "corpus-model:" + name, "_g": g})
    return out


def gen_cases(ctx, n):
    cases, meta = [], {}
    for _ in range(n):
        seed = ctx.rng.getrandbits(48)
        g = typed.generate(seed, max_stmts=ctx.rng.choice([10, 16, 22]), max_depth=ctx.rng.choice([3, 4]))
        for k, v in g["stats"].items():
            meta[k] = meta.get(k, 0) + v
        cases.append({"src": g["src_wrapped"], "run": True, "kind": "gen-wrapped", "welltyped": True, "id": "s%d:w" % seed, "_g": g})
        cases.append({"src": g["src_module"], "run": True, "kind": "gen-module", "welltyped": True, "id": "s%d:m" % seed, "_g": g})
    return cases, meta


def ill_typed_cases(ctx, n):
    out = []
    for _ in range(n):
        seed = ctx.rng.getrandbits(48)
        g = typed.generate(seed, max_stmts=14, max_depth=3, p_fail=1.0)
        out.append({"src": g["src_wrapped"], "run": True, "kind": "ill-typed", "welltyped": False, "id": "s%d:ill" % seed, "_g": g})
    return out


# ---------------------------------------------------------------------------------------------------
def val_kind(enc):
    if enc.startswith('"'):
        return "str"
    if enc.startswith("i"):
        return "int"
    if enc.startswith("["):
        return "list"
    if enc.startswith("("):
        return "tuple"
    if enc.startswith("{"):
        return "dict"
    if enc in ("True", "False"):
        return "bool"
    if enc == "None":
        return "None"
    return enc.split(":")[0].strip("<")


def binding_form(case, name):
    """How the offending binding was made (for a narrow key)."""
    if case.get("form") and name in ("r",):
        return case["form"]
    g = case.get("_g")
    if g:
        forms = set()
        for s in typed.find_binding_exprs(g["prog"], name):
            if s[0] == "for":
                forms.add("for")
            elif s[0] == "aug":
                forms.add("aug" + s[2])
            else:
                e = s[2]
                forms.add(e[0] + (e[1] if e[0] in ("bin", "un") else ("." + e[1][1] if e[0] == "call" and e[1][0] == "var" else "")))
        return "+".join(sorted(forms)) or "param"
    m = re.search(r"^\s*%s\s*=\s*(.*)$" % re.escape(name), case["src"], re.M)
    return ("src:" + m.group(1)[:40]) if m else "?"


def classify_unsound(case, name, tys, values):
    form = binding_form(case, name)
    vk = val_kind(values[0])
    ty = " / ".join(tys)
    if ty == "float | int" and vk in ("str", "list", "tuple") and ("*" in form):
        return "unsound:int-mul-any"
    if vk == "tuple" and ty.startswith("(") and (re.search(r"\[[^\]]*:[^\]]*\]", form) or "slice" in form.split("+")):
        return "unsound:tuple-slice-keeps-arity"          # repaired by 0f4399a (status fixed): reported again if it returns
    if vk in ("list", "tuple") and ty == "str" and re.search(r"\[[^\]]*:[^\]]*\]", form):
        return "unsound:slice-drops-iterable-alternative"      # x: str | typing.Iterable; x[i:j] typed str (C17_refuted_iterable_slice)
    return "unsound-binding:%s:%s:%s" % (ty, vk, re.sub(r"[a-z]+\d+", "_", form)[:60])


def classify_false_error(case, err):
    msg = err["msg"].splitlines()[0]
    pat = re.sub(r"`[^`]*`", "`_`", msg)
    sp = err.get("span")
    text = ""
    if sp and sp["bl"] == sp["el"]:
        lines = case["src"].splitlines()
        if sp["bl"] < len(lines):
            text = lines[sp["bl"]][sp["bc"]:sp["ec"]]
    if pat.startswith("Expected type `_` but got `_`") and re.fullmatch(r".*,.*\)\[\(?-?\d+\)?\]", text.strip()):
        return "false-error:incompatible-type:tuple-literal-index", text
    return "false-error:" + pat[:90], text


def exported_ty_class(ty):
    """Function types are long: classify them as `def`."""
    return "def" if ty.startswith("def(") or ty == "function" else ty[:60]


def strip(case):
    return {k: v for k, v in case.items() if not k.startswith("_")}


def evaluate(ctx, cases, tag="cases", model=True):
    wire = [{"src": c["src"], "run": bool(c.get("run"))} for c in cases]
    rc, log, res = sv.run_harness_sharded(ctx, "typecheck", wire, timeout=1500)
    ctx.log("harness ran %d modules (rc=%s)" % (len(cases), rc))
    failures, broken = [], []
    st = {"typechecked": 0, "parse_skipped": 0, "ran_ok": 0, "ran_failed": 0, "probe_values": 0, "bindings_tested": 0, "bindings_untestable": 0,
          "exported_tested": 0, "exported_definite_tested": 0, "exported_callable_tested": 0, "modlevel_ran_ok": 0, "flagged_modules": 0, "diagnostics_on_illtyped": 0, "illtyped": 0, "welltyped_checked": 0, "kinds": {},
          "types_seen": {}, "model_bindings_equal": 0, "model_bindings_unmodelled": 0, "model_programs": 0, "nontrivial": set()}
    if rc != 0:
        failures.append({"key": "harness-crash", "what": "typecheck harness exited with %s (a crash or hang of the checker kills the shard): %s" % (rc, log[-300:]),
                         "replay": {"rc": rc}})
    for c, r in zip(cases, res):
        st["kinds"][c["kind"]] = st["kinds"].get(c["kind"], 0) + 1
        if r is None:
            failures.append({"key": "crash:no-result", "what": "no result for module %s (process died: stack overflow / abort / hang)" % c["id"], "replay": {"case": strip(c)}})
            continue
        if "panic" in r:
            failures.append({"key": "crash:panic:" + re.sub(r"\d+", "_", str(r["panic"]))[:70], "what": "typecheck panicked on %s: %s" % (c["id"], r["panic"]),
                             "replay": {"case": strip(c), "impl": r}})
            continue
        if r.get("timeout"):
            failures.append({"key": "crash:timeout", "what": "typecheck did not terminate within 60 s on %s" % c["id"], "replay": {"case": strip(c)}})
            continue
        if "parse_err" in r:
            st["parse_skipped"] += 1
            continue
        st["typechecked"] += 1
        tc = r["tc"]
        if not r["runs_equal"]:
            failures.append({"key": "nondeterministic-diagnostics", "what": "three typecheck runs of %s differ" % c["id"],
                             "replay": {"case": strip(c), "run1": tc, "other": r.get("tc_other")}})
        flagged = any(NONCONV in a for a in tc["approx"])
        if flagged:
            st["flagged_modules"] += 1
        run = r.get("run")
        ran_ok = bool(run) and run["outcome"] == "ok"
        if run:
            st["ran_ok" if ran_ok else "ran_failed"] += 1
        if c["kind"].startswith("modlevel"):
            if ran_ok:
                st["modlevel_ran_ok"] += 1
            elif run:
                # the family is well typed by construction AND must run: a module that fails is a generator bug
                broken.append(("generator", "module-level family module %s does not run: %s" % (c["id"], json.dumps(run["outcome"])[:200])))
        if len(c["src"].splitlines()) >= 6:
            st["nontrivial"].add(c["src"])
        # silence on well-typed modules
        if c.get("welltyped"):
            if ran_ok:
                st["welltyped_checked"] += 1
                for e in tc["errors"]:
                    key, text = classify_false_error(c, e)
                    failures.append({"key": key, "what": "the checker reports `%s` at %s (`%s`) in module %s, which is well typed by construction and runs "
                                     "to completion" % (e["msg"].splitlines()[0], e.get("span"), text[:80], c["id"]),
                                     "replay": {"case": strip(c), "diagnostic": e}})
        elif c["kind"] == "ill-typed":
            st["illtyped"] += 1
            st["diagnostics_on_illtyped"] += 1 if tc["errors"] else 0
        # the direct oracle
        if run and tc["errors"]:
            st["modules_with_diagnostics_not_oracled"] = st.get("modules_with_diagnostics_not_oracled", 0) + 1
        if run and not flagged and not tc["errors"]:
            bad_names = {p["name"] for p in run.get("probes", []) if p["bad"]}
            for p in run.get("probes", []):
                testable = [t[0] for t in p["tys"] if t[1]]
                if not p["tys"]:
                    continue
                if not testable:
                    st["bindings_untestable"] += 1
                    continue
                st["bindings_tested"] += 1
                st["probe_values"] += p["n"]
                for t in testable:
                    st["types_seen"][t] = st["types_seen"].get(t, 0) + 1
                if p["bad"] and c["kind"] == "family" and p["name"] != "r" and "r" in bad_names:
                    continue
                if p["bad"]:
                    key = classify_unsound(c, p["name"], [t[0] for t in p["tys"]], p["bad"])
                    failures.append({"key": key, "what": "module %s: the checker commits to `%s` for binding `%s` (no approximation flagged) but at run time "
                                     "it holds %s, and isinstance(value, that type) is False" % (c["id"], " / ".join(t[0] for t in p["tys"]), p["name"], p["bad"][0][:120]),
                                     "replay": {"case": strip(c), "binding": p, "approx": tc["approx"]}})
            if ran_ok:
                for e in run.get("exported", []):
                    if e.get("checkable"):
                        st["exported_tested"] += 1
                        if e["ty"] != "typing.Any":
                            st["exported_definite_tested"] += 1
                        if e.get("coarse"):
                            st["exported_callable_tested"] += 1
                        if not e["ok"]:
                            failures.append({"key": "unsound-exported:%s:%s" % (exported_ty_class(e["ty"]), val_kind(e["value"])),
                                             "what": "module %s: Interface says `%s: %s` but after evaluation it holds %s" % (c["id"], e["name"], e["ty"], e["value"][:120]),
                                             "replay": {"case": strip(c), "exported": e}})
    if model:
        pairs = [(c, r) for c, r in zip(cases, res) if c["kind"] == "gen-wrapped" and r and "tc" in r]
        pairs.sort(key=lambda cr: len(cr[0]["src"]))
        pairs = pairs[:ctx.n(10, 640)]        # the Gallina terms of big programs take seconds each to elaborate
        # the hand-written programs about rules the generator does not reach (tuple slices) are always compared
        pairs = [(c, r) for c, r in zip(cases, res) if c["kind"] == "corpus-model" and r and "tc" in r] + pairs
        b2 = compare_model(ctx, pairs, st, tag)
        broken += b2
        broken += compare_iface_model(ctx, [(c, r) for c, r in zip(cases, res) if c.get("_coq") and r and "tc" in r], st, tag)
    return failures, broken, st


MODEL_HEADER = ("From Coq Require Import ZArith String List.\nFrom SV Require Import Ty.Spec Ty.Model Typing.Model Typing.Cases Core.Syntax.\n"
                "Import ListNotations.\nOpen Scope string_scope.\nOpen Scope Z_scope.\n")


def compare_model(ctx, pairs, st, tag):
    """Model types (Typing/Cases.v run_case) against TypeMap for the wrapped programs."""
    broken = []
    if not pairs:
        return broken
    nshard = min(sv.NPROC, len(pairs))
    files = []
    for s in range(nshard):
        text = MODEL_HEADER
        for c, _ in pairs[s::nshard]:
            g = c["_g"]
            text += "Eval vm_compute in (run_case %s %s).\n" % (g["coq_sigs"], g["coq_wrapped"])
        files.append(("%s_model_%d" % (tag, s), text))
    outs = sv.coq_eval_files(ctx, files, timeout=900)
    mism = []
    for s, (rc, out) in enumerate(outs):
        part = pairs[s::nshard]
        vals = sv.coq_values(out) if rc == 0 else []
        if rc != 0 or len(vals) != len(part):
            broken.append(("model-run-failed", "coqc rc=%s, %d of %d values: %s" % (rc, len(vals), len(part), out[-300:])))
            continue
        for (c, r), v in zip(part, vals):
            st["model_programs"] += 1
            mtypes, mflag = v
            mflag = mflag == "true"
            model = {}
            for ent in mtypes:
                model[ent[0][1]] = ent[1]
            iflag = any(NONCONV in a for a in r["tc"]["approx"])
            if mflag != iflag:
                mism.append((c, "approximation flag: model %s, implementation %s" % (mflag, iflag)))
            if iflag or mflag:
                continue
            seen = {}
            for n, t in r["tc"]["typemap"]:
                seen.setdefault(n, []).append(t)
            for n, ts in seen.items():
                if len(ts) != 1 or n not in model:
                    continue
                m = model[n]
                it = typed.parse_ty(ts[0])
                if m == "IUnk" or typed.has_opaque(it):
                    st["model_bindings_unmodelled"] += 1
                    continue
                mt = "never" if m == "IErr" else typed.from_coq_ty(m[1] if isinstance(m, list) else m)
                if mt == it:
                    st["model_bindings_equal"] += 1
                else:
                    mism.append((c, "binding `%s`: model %s, implementation %s" % (n, typed.show_ty(mt) if not isinstance(mt, str) or mt != "never" else "typing.Never", ts[0])))
    if mism:
        c, d = mism[0]
        broken.append(("model-tie", "%d binding types differ between Typing/Model.v and the implementation; first: module %s %s" % (len(mism), c["id"], d)))
        ctx.c17_mismatch = [(strip(c), d) for c, d in mism[:20]]
    return broken


IFACE_HEADER = ("From Coq Require Import List NArith Bool.\nFrom SV Require Import Typing.IfaceModel.\nImport ListNotations.\n")


def compare_iface_model(ctx, pairs, st, tag):
    """The interface builder model (Typing/IfaceModel.v `iface_obs`, vm_compute) against the real Interface for the variable
    `level` of the table modules: Any <-> Any, otherwise the same set of alternatives."""
    broken = []
    st.setdefault("iface_model_rows_equal", 0)
    st.setdefault("iface_model_rows_outside", 0)
    if not pairs:
        return broken
    nshard = min(4, len(pairs))
    files = []
    for s in range(nshard):
        part = pairs[s::nshard]
        text = IFACE_HEADER
        for k in range(0, len(part), 100):
            text += "Eval vm_compute in [%s].\n" % ";\n ".join("iface_obs (%s) 0" % c["_coq"] for c, _ in part[k:k + 100])
        files.append(("%s_iface_%d" % (tag, s), text))
    outs = sv.coq_eval_files(ctx, files, timeout=600)
    mism = []
    for s, (rc, out) in enumerate(outs):
        part = pairs[s::nshard]
        vals = [x for v in sv.coq_values(out) for x in v] if rc == 0 else []
        if rc != 0 or len(vals) != len(part):
            broken.append(("iface-model-run-failed", "coqc rc=%s, %d of %d values: %s" % (rc, len(vals), len(part), out[-300:])))
            continue
        for (c, r), v in zip(part, vals):
            impl = dict((n, t) for n, t in r["tc"]["interface"]).get("level")
            if impl is None:
                mism.append((c, "implementation has no interface entry for `level`"))
                continue
            ik = typed.iface_kind_codes(impl)
            if ik == "?":
                st["iface_model_rows_outside"] += 1
                continue
            tagv, codes = int(v[0]), set(int(x) for x in v[1])
            mk = None if tagv == 1 else codes
            if tagv != 0 and mk == ik:
                st["iface_model_rows_equal"] += 1
            else:
                mism.append((c, "interface of `level`: model %s, implementation `%s`" % ("Any" if mk is None else sorted(mk), impl)))
    if mism:
        c, d = mism[0]
        broken.append(("iface-model-tie", "%d table modules: Typing/IfaceModel.v and the implementation's Interface differ; first: module %s: %s"
                       % (len(mism), c["id"], d)))
    return broken


def coverage(cases, st, meta):
    top = sorted(st["types_seen"].items(), key=lambda kv: -kv[1])[:40]
    return {
        "evaluations": st["typechecked"] * 3 + st["probe_values"] + st["exported_tested"],
        "distinct_nontrivial": len(st["nontrivial"]),
        "rule": "evaluations = 3 typecheck runs per parseable module + run-time isinstance answers (one per probe() call on a binding with a testable "
                "type + one per exported binding); non-trivial = module of at least 6 source lines, distinct by source text",
        "modules_typechecked_x3": st["typechecked"], "unparseable_skipped": st["parse_skipped"],
        "modules_run": st["ran_ok"] + st["ran_failed"], "modules_run_to_completion": st["ran_ok"],
        "welltyped_modules_checked_for_silence": st["welltyped_checked"],
        "bindings_tested_by_isinstance": st["bindings_tested"], "probe_values": st["probe_values"], "bindings_with_untestable_rendering": st["bindings_untestable"],
        "exported_bindings_tested": st["exported_tested"], "exported_bindings_with_definite_type_tested": st["exported_definite_tested"],
        "exported_function_typed_bindings_tested_as_callable": st["exported_callable_tested"],
        "module_level_family_modules_run_to_completion": st["modlevel_ran_ok"],
        "modules_flagged_nonconvergent": st["flagged_modules"],
        "ill_typed_modules": st["illtyped"], "ill_typed_modules_with_diagnostics": st["diagnostics_on_illtyped"],
        "traces_validated_against_impl": st["model_bindings_equal"], "model_programs": st["model_programs"],
        "model_bindings_outside_fragment": st["model_bindings_unmodelled"],
        "interface_model_rows_equal": st.get("iface_model_rows_equal", 0), "interface_model_rows_outside": st.get("iface_model_rows_outside", 0),
        "committed_types_seen": dict(top), "distinct_committed_types": len(st["types_seen"]),
        "input_distribution": {"module_kinds": st["kinds"], "generator": meta},
        "exhaustive": False,
        "samples": [strip(c)["src"][:1500] for c in (cases[0], cases[len(cases) // 2], cases[-1])] if cases else [],
    }


def all_cases(ctx, deep=False):
    corpus = load_corpus()
    fam = family_cases(ctx.rng, 1 if not deep else 3)
    lc = loop_carried_cases(ctx.rng, ctx.n(30, 200))
    gen, meta = gen_cases(ctx, ctx.n(120, 6000) if not deep else 1500)
    ill = ill_typed_cases(ctx, ctx.n(40, 1500) if not deep else 200)
    files = [] if deep else repo_sources(ctx, ctx.n(250, 100000))
    weird = [] if deep else weird_cases(ctx.rng, ctx.n(20, 400))
    ml, mlmeta = modlevel_cases(ctx, ctx.n(150, 6000) if not deep else 1500, ctx.n(260, 100000) if not deep else 100000)
    meta.update(mlmeta)
    return corpus + tuple_slice_model_cases() + ml + fam + lc + gen + ill + files + weird, meta


def correspond(ctx):
    cases, meta = all_cases(ctx)
    ctx.log("modules: %d" % len(cases))
    failures, broken, st = evaluate(ctx, cases)
    ctx.log("typechecked=%d ran_ok=%d bindings tested=%d probe values=%d exported=%d flagged=%d model equal=%d unmodelled=%d failures=%d broken=%s"
            % (st["typechecked"], st["ran_ok"], st["bindings_tested"], st["probe_values"], st["exported_tested"], st["flagged_modules"],
               st["model_bindings_equal"], st["model_bindings_unmodelled"], len(failures), [b[0] for b in broken]))
    cov = coverage(cases, st, meta)
    # `check` only searches when no failure at all is known; the known findings are always present here, so a broken
    # tie (model differs / translator item of the solver loop no longer matches) triggers the deeper search from here
    if (broken or translator_broken()) and not [f for f in failures if not f["key"] in KNOWN_HERE]:
        ctx.log("tie broken (%s): deeper search with the run-time oracle" % ([b[0] for b in broken] or "translator"))
        r = search(ctx, broken)
        failures += r["failures"]
        cov["search"] = r["coverage"]
    return {"coverage": cov, "failures": dedup(failures), "broken": broken}


KNOWN_HERE = ("unsound:int-mul-any", "unsound:tuple-slice-keeps-arity", "unsound:slice-drops-iterable-alternative",
              "false-error:incompatible-type:tuple-literal-index")


def translator_broken():
    try:
        rep = json.load(open(os.path.join(sv.ROOT, "build", "extract_report.json")))
    except (OSError, ValueError):
        return False
    return any(("solve_" in e or "iterations" in e or "typecheck.rs" in e) for e in rep.get("errors", []))


def dedup(failures):
    failures.sort(key=lambda f: (f["key"], len(json.dumps(f.get("replay", {}).get("case", {}).get("src", "")))))
    return failures


def search(ctx, broken):
    """A proof obligation / the translator / the model tie broke: the run-time oracle over many more modules and inputs
    (operator families with repeated random arguments, loop-carried bindings, deeper generated programs)."""
    old = ctx.tier
    ctx.tier = "thorough"
    try:
        cases, meta = all_cases(ctx, deep=True)
        for c, d in getattr(ctx, "c17_mismatch", []):
            cases.insert(0, dict(c, run=True))
        failures, _, st = evaluate(ctx, cases, tag="search", model=False)
    finally:
        ctx.tier = old
    return {"failures": dedup(failures), "coverage": {"evaluations": st["typechecked"] * 3 + st["probe_values"], "modules": len(cases)}}


def replay(ctx, rep):
    c = (rep.get("replay") or {}).get("case")
    if not c or "src" not in c:
        return {"coverage": {}, "failures": []}
    c = dict(c)
    c.setdefault("kind", "replay")
    c.setdefault("id", "replay")
    failures, broken, st = evaluate(ctx, [c], tag="replay", model=False)
    return {"coverage": {"evaluations": 3, "distinct_nontrivial": 1, "samples": [c["src"][:1500]]}, "failures": failures, "broken": broken}


META = {
    "category": "proof",
    "level_text": "Partial. Coq (Properties/C17.v, all closed under the global context) proves for the model of solve_bindings/expression_type: "
                  "(1) the union iteration is a structurally bounded loop over the EXTRACTED constant ITERATIONS and an unflagged result is stable "
                  "under a further pass (C17_solve_terminates_flagged: non-convergence is flagged, never silent); an unflagged result is a "
                  "post-fixpoint, hence every value of a binding expression's type belongs to the binding's type (C17_solve_post_fixpoint, "
                  "C17_solve_post_fixpoint_denote). (2) EXPRESSION SOUNDNESS for the operator fragment of a pure semantics "
                  "(C17_infer_expr_sound_ops, for the checker as it is and for the repaired one): literals, names, list/tuple/dict displays, "
                  "+ - ~ not, the ten int arithmetic/bitwise operators, + and * on str/list/tuple, comparisons, == !=, in / not in, and/or/"
                  "conditional, indexing of list/tuple/dict, slicing of str/list/tuple, calls of the pure builtins len str bool int any all abs "
                  "min max sorted list - one lemma per operator family (C17_bin_op_sound, C17_index_sound, C17_slice_sound, C17_builtin_sound) - "
                  "under the explicit boolean side condition `sound_ops`, which excludes exactly TWO rules that the faithful model REFUTES "
                  "with vm_compute witnesses: `int * Any` typed `float | int` (C17_refuted_int_mul_any; REPAIRED in /repo by 19a3ea8 - the translator now extracts the rule, the tie runs the model with the extracted flag and C17_bin_op_sound_extracted has no side condition on `*`), and "
                  "the slice of a union with a typing.Iterable alternative, where typecheck_union_simple drops the Iterable alternative "
                  "(C17_refuted_iterable_slice: `x: str | typing.Iterable; y = x[0:1]` is typed `str`, f([1, 2]) binds y = [1]; reproduced on the "
                  "real checker with harness bin typecheck, isinstance is False). A THIRD rule used to be refuted - the slice of a fixed-arity "
                  "tuple keeping its arity (`t[0:1]`, t: (int, str) typed (int, str), value (1,); finding unsound:tuple-slice-keeps-arity) - and was "
                  "REPAIRED in /repo by 0f4399a: expr_slice_basic now answers Ty::tuple_of(tuple.item_ty()). The model follows the repaired rule "
                  "(Typing/Model.v slice_basic: a tuple type, fixed-arity or homogeneous, slices to tuple[T0 | .. | Tn-1, ...], the empty tuple "
                  "type to tuple[typing.Never, ...]; C17_slice_basic_tuple), the side condition of C17_slice_sound / sound_ops no longer excludes "
                  "tuples (C17_slice_ok_is_no_iterable: only the Iterable alternative), the old refutation is gone and its witness is now proved "
                  "sound and accepted by sound_ops (C17_tuple_slice_sound_example, C17_sound_ops_rejects_witnesses); the translator extracts the "
                  "shape of expr_slice_basic, TyTuple::item_ty and Ty::tuple_of and C17_extracted_tuple_slice_rule fails if the old rule returns; "
                  "hand-written tuple-slice programs (the generator slices only str and list) are compared model vs TypeMap on every run and "
                  "get the isinstance oracle. Every type the checker computes from normalised types is "
                  "normalised (C17_infer_wf; the invariant the soundness proof needs). (3) WHOLE-MODULE SOUNDNESS FOR STRAIGHT-LINE MODULES "
                  "(C17_infer_sound_straightline): for a sequence of assignments `x = e` with right-hand sides in the fragment, an unflagged "
                  "solver result and no diagnostic, after running the assignments every binding the checker commits to holds a value of the "
                  "committed type. (4) COMPLETENESS on the generator's typing rules (C17_welltyped_no_error): an expression derivable by the "
                  "inductive typing relation `wt` that mirrors tools/gen/progs.py (displays, operators, == at any type, list indexing, slicing, "
                  "builtins, list(range(..)), calls of defs with defaults, list/dict comprehensions) gets no diagnostic in the model checker and "
                  "its committed type is compatible with the generator's type; rests on C17_unions_keep_compat (Ty::unions keeps compatibility) "
                  "and C17_compatible_types_intersect (intersects after widen_numeric). "
                  "(5) THE MODULE INTERFACE (exported module variables; computed by the partial evaluator GlobalTypesBuilder of "
                  "fill_types_for_lint.rs, not by the solver) is modelled in Typing/IfaceModel.v (assignment = union with the existing entry, "
                  "def = function type, every variable assigned in a top-level if/else/for body or by a tuple unpacking is reset to Any, "
                  "augmented assignment ignored) and proved sound for EVERY run of the module, conditions and iteration counts arbitrary "
                  "(C17_interface_sound, C17_interface_step_sound, C17_interface_unset_exact); the variant that keeps the first binding's type "
                  "for a variable re-bound where the assignment may not run exactly once is refuted (C17_interface_keep_first_binding_refuted, "
                  "witnesses for if / for / unpacking). The model is tied to the code on the systematic table of the module-level family "
                  "(same Any / same alternatives for every row); that defs using such globals get no false error is covered by the tie only. "
                  "Still missing from the proof: soundness with control flow (if/for/def bodies), tuple-unpacking targets, augmented assignment, "
                  "comprehensions/methods/lambdas/calls of defs in the semantics (they are in the model and in the tie); completeness at statement "
                  "level (that the solver result satisfies the environment hypothesis of C17_welltyped_no_error for every generated program), "
                  "methods, lambdas, keyword arguments, enumerate/zip/reversed; the full oracle. The property on the real code is decided by the "
                  "tie: three identical typecheck runs without crash on every parseable file of the repository and on generated modules; no "
                  "diagnostic on well-typed generated modules; and the DIRECT ORACLE isinstance(value, committed type) for every binding of every "
                  "top-level def and every exported name at run time (module-level family: exported variables bound once / re-bound "
                  "straight-line / re-bound or bound only inside top-level if, else, for bodies / unpacked / augmented / loop variables / "
                  "(re)defined defs / aliases, values of every kind; function-typed exported bindings are tested against typing.Callable); "
                  "model types equal TypeMap on the modelled fragment; interface model equals Interface on the table.",
    "level_note": "Trusted: Coq kernel; harness bin typecheck; tools/gen/{progs,typed}.py; vm_compute route; isinstance as membership (C16). Modelled rather "
                  "than verified: the oracle's ~270 native signatures (only the result types of the dozen builtins the generator uses), attributes and "
                  "methods, loads/interfaces across modules, container mutation (append/extend/setitem bindings), lambdas; bindings are identified by name. "
                  "The tie is differential/dynamic testing, so an unsound rule outside the generated forms can escape.",
    "technique": "Coq model of the checker + proofs of flagged termination / post-fixpoint / per-operator expression soundness under an explicit side "
                 "condition (two refutation witnesses, two rules repaired in the code and followed by the model) / straight-line module soundness / completeness on the generator's typing rules; type-directed "
                 "generator; run-time isinstance oracle on the implementation's committed types; model vs TypeMap comparison",
    "design_ref": "DESIGN.md section 4 C17, section 6",
}
