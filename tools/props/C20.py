"""C20 Frozen modules are safe to share: concurrent use equals sequential use.  (PARTIAL - weakest tie of the twenty.)

Proof: coq/Conc/{Model,Proofs}.v + Properties/C20.v: an interleaving small-step model of the sharing protocols
(reference-counted chunks / frozen heaps, per-thread chunk cache, heaps moved between threads, racing
once-initialisers, frozen reads) with theorems for ALL schedules.  Coq cannot speak about the Rust memory model or the
OS scheduler, so the property itself on the real code is only *searched*: the `threads` harness (child processes,
arena poisoning on) runs generated workloads on 2..16 threads sharing frozen modules and compares every thread's
transcript with the same workload run alone on one thread.  Two further families: per-thread-state rounds (deep nested
comparison, repr/json cycle guards, recursion, interning, type ids on shared frozen values; the sequential run is taken
before AND after the concurrent phase) and churn rounds (producers build hundreds of thousands of tiny frozen heaps back
to back - consecutive heaps share a reference-counted chunk - consumers on other threads check and drop them: the
protocol of C20_rc_inv at a high rate).  A fourth family, first-binder rounds (gen_binder_round, harness run_fresh_round): a freshly
frozen library holds enum types / record types / typing values / closures ANONYMOUSLY in containers; binder threads assign them to top-level
names of their own (export_as, a different name per thread), reader threads only observe; every workload alone on a FRESH copy of the
library vs repeated concurrent phases on further fresh copies (racing, binders first, readers first) - the search for a frozen shared value
that is written after freeze on first use with thread-dependent content (Coq: C20_once_thread_independent_unobservable /
C20_once_thread_dependent_observable name the condition).  The heap-level history of a sample of rounds is replayed on the Coq model
(Conc/Cases.v): every step enabled, quiescent at the end, every read live."""
import json
import os
import random
import re

import sv
from gen import progs

PROP = "C20"
HARNESS_BINS = ["threads"]
COQ_TARGETS = ["Properties/C20.vo", "Conc/Cases.vo"]
TRUSTED = ["the interleaving model Conc/Model.v is hand-written from chunk.rs / per_thread.rs / heap_type.rs / def.rs / globals.rs / "
           "methods.rs; it is NOT extracted from the code and is tied to it only through the stress harness",
           "Arc, AtomicU32/AtomicPtr, OnceLock/LazyLock, thread_local!, mpsc channels: modelled as atomic steps",
           "harness bin threads (workload interpreter, transcript comparison, event recording); hook set_poison",
           "tools/gen/progs.py (program generator; subclassed here for programs that import frozen modules)"]
ASSUMPTIONS = ["interleaving semantics: every modelled operation is one atomic step; memory-model effects (orderings, torn reads, data "
               "races) cannot be exhibited by the model and are only searched for by the stress harness",
               "the OS scheduler is not controlled: the interleavings explored are those produced by randomised start barriers, yields, "
               "sleeps and spins on this machine; absence of a failure in the search is not evidence of absence",
               "the sequential transcript of a workload is taken as its meaning (it is tied to the reference semantics by C01)"]

RERUNS = 20

# ---------------------------------------------------------------------------------------------------------------
# generators


class WGen(progs.Gen):
    """The C01 program generator, started with a scope of names imported from frozen modules."""

    def __init__(self, rng, imports, **kw):
        super().__init__(rng, **kw)
        self.imports = dict(imports)

    def program(self):
        self.cur = {"vars": dict(self.imports), "unassigned": set(), "locked": set(), "in_loop": False, "in_fn": False,
                    "ret": progs.NONE, "depth": 0, "mutates": set(), "own": set()}
        scope = self.cur
        out = []
        while self.budget > 0:
            before = set(scope["vars"])
            out += self.stmt(scope, self.max_depth)
            scope["own"].update(set(scope["vars"]) - before)
        out.append(("expr", ("call", ("var", "emit"), [("int", 424242)], [], None, None)))
        return out

    def mutation(self, scope, depth):
        # never pick an imported (frozen) container as the target of a mutation
        saved = scope["vars"]
        scope["vars"] = {k: v for k, v in saved.items() if k not in self.imports}
        try:
            return super().mutation(scope, depth)
        finally:
            new = scope["vars"]
            scope["vars"] = saved
            for k, v in new.items():
                saved.setdefault(k, v)


EXTRA_LIB = '''
x_Rec = record(a=int, b=str, c=field(list, []))
x_En = enum("red", "green", "blue")
x_st = struct(a=1, b=[1, 2, (3, "x")], c={"k": (1 << 70), "j": None}, d="s" * 40)
x_r1 = x_Rec(a=%(A)d, b="r%(A)d")
x_r2 = x_Rec(a=2, b="two", c=[x_r1, x_En("green")])
x_big = [(1 << 64) + %(A)d, -(1 << 100), 3 << 31, 1 << 31]
x_strs = ["", "a", "%(S)s", "%(S)s" * 9, "\\u00e9\\u4e2d", "k%(A)d"]
_x_long = "%(S)s" * 30000
def x_long():
    return _x_long
x_keys = ["%(S)s" + str(i) * 40 for i in range(30)]
x_nest = {"l": [[i, str(i)] for i in range(6)], "t": (1, (2, (3,))), "d": {i: {str(i): [i]} for i in range(4)}}
def x_mk(n):
    def add(x, k = n):
        return [x + n, k, x_big[0] + x]
    return add
x_add = x_mk(%(A)d)
x_lam = lambda x: {"in": x, "r": x_r1.a + x}
def x_fact(n):
    return 1 if n <= 1 else n * x_fact(n - 1)
def x_typed(r: x_Rec, e: x_En = x_En("red")) -> str:
    return r.b + ":" + e.value + ":" + str(e.index)
def x_join(x):
    return ",".join([str(x), x_strs[2].upper(), "%(S)s".replace("a", "b"), str(len(x_nest["l"]))])
def x_kw(a, *args, b = 2, **kw):
    return (a, args, b, sorted(kw.items()))
x_part = partial(x_kw, 1, 2, b = 3)
def x_sum(n):
    t = 0
    for i in range(n):
        t += i * %(A)d
    return t
'''
EXTRA_NAMES = ["x_Rec", "x_En", "x_st", "x_r1", "x_r2", "x_big", "x_strs", "x_nest", "x_add", "x_lam", "x_fact", "x_typed", "x_join",
               "x_kw", "x_part", "x_sum", "x_long", "x_keys"]
EXTRA_FUNCS = ["x_add", "x_lam", "x_fact", "x_sum", "x_join"]   # callable with the single argument 7

EXTRA_USES = [
    "emit(repr(X_st))", "emit(json.encode(X_st.b))", "emit(X_st.c[\"k\"] * 3)", "emit(hash(X_strs[3]))",
    "emit({s: len(s) for s in X_strs})", "emit(X_strs[5] in {\"k%(A)d\": 1})", "emit(X_r1 == X_Rec(a=%(A)d, b=\"r%(A)d\"))",
    "emit(X_r2.c[1] == X_En(\"green\"))", "emit([e.value for e in X_En])", "emit(X_add(%(P)d))", "emit(X_lam(%(P)d))",
    "emit(X_fact(%(F)d))", "emit(X_typed(X_r1))", "emit(X_typed(X_r2, X_En(\"blue\")))", "emit(X_join(%(P)d))",
    "emit(X_kw(1, 2, 3, z=1))", "emit(X_part(9, q=1))", "emit(sorted(X_nest[\"d\"].items()))",
    "emit([y for l in X_nest[\"l\"] for y in l])", "emit(X_big[0] + X_big[1])", "emit(str(X_st))", "emit(dir(X_st))",
    "emit(str(type(X_r1)))", "emit(isinstance(X_r1, X_Rec))", "emit(json.encode(X_nest[\"l\"]))", "emit(repr(X_r2))",
    "emit(X_sum(%(F)d * 20))", "emit(sorted(X_strs))", "emit([s.upper().lower().strip().split(\"a\") for s in X_strs])",
    "emit(X_st.d.count(\"s\") + len(X_st.b))", "emit((X_big[2] * X_big[3]) // 7)", "emit(X_nest[\"t\"][1][1] + (4,))",
    "emit(X_Rec(a=%(P)d, b=\"n\", c=[X_st]).c[0].a)", "emit(str(X_En(\"red\")) + repr(X_En))", "emit(\"%%s/%%r\" %% (X_r1.b, X_strs[4]))",
    "emit(X_part(*X_st.b))", "emit(hash(X_long()))", "emit({X_long(): 1}[X_long()] + len(X_long()))", "emit(X_long() in {X_long(): 2, \"a\": 1})",
    "emit([{k: i}.get(k) for i, k in enumerate(X_keys)])", "emit(len({k: 1 for k in X_keys + [X_long()] + X_strs}))",
    "emit([hash(k) for k in X_keys[:%(F)d]])", "emit({k: v for k, v in X_st.c.items() if v != None})", "emit(list(enumerate(X_strs))[2:4])",
]


def gen_module(rng, name, imports_spec, max_stmts, extra_seed=None):
    """imports_spec: [(modname, prefix, exports{name: type}, has_extra)].  Returns (src, exports)."""
    imports, loads = {}, []
    for mod, prefix, exports, has_extra in imports_spec:
        al = []
        for n, t in sorted(exports.items()):
            if t[0] == "fn" and t[3]:
                continue   # functions that mutate their environment are not imported
            imports[prefix + n] = t
            al.append('%s%s="%s"' % (prefix, n, n))
        if has_extra:
            al += ['%s%s="%s"' % (prefix, n, n) for n in EXTRA_NAMES]
        if al:
            loads.append('load("%s", %s)' % (mod, ", ".join(al)))
    g = WGen(rng, imports, max_stmts=max_stmts, max_depth=3, p_fail=0.0)
    prog = g.program()
    src, _ = progs.source_of(prog)
    exports = {k: v for k, v in g.cur["vars"].items() if k not in imports}
    text = "\n".join(loads) + ("\n" if loads else "") + src
    if extra_seed is not None:
        text += EXTRA_LIB % {"A": extra_seed % 1000, "S": "".join(rng.choice("abcxyz") for _ in range(rng.randint(1, 12)))}
    return text, exports, g.stats


def extra_use_src(rng, mod, prefix, extra_seed, k):
    lines = ['load("%s", %s)' % (mod, ", ".join('%s%s="%s"' % (prefix, n, n) for n in EXTRA_NAMES))]
    for u in rng.sample(EXTRA_USES, k):
        u = u % {"A": extra_seed % 1000, "P": rng.randint(-5, 500), "F": rng.randint(3, 25)}
        lines.append(re.sub(r"\bX_", prefix + "x_", u))
    return "\n".join(lines) + "\n"


def gen_round(rng, rid, nthreads, nops, first_use=False, p_send=0.6):
    """One round: shared libraries + one op list per thread."""
    libs, spec = [], []
    nlibs = 0 if first_use else rng.randint(1, 3)
    stats = {}
    lib_srcs = []
    for k in range(nlibs if not first_use else rng.randint(1, 2)):
        name = "lib%d.star" % k
        es = rng.randint(1, 999)
        imp = [s for s in spec if rng.random() < 0.6]
        src, exports, st = gen_module(rng, name, imp, rng.choice([8, 12, 16]), extra_seed=es)
        for a, b in st.items():
            stats[a] = stats.get(a, 0) + b
        spec.append((name, "L%d_" % k, exports, True))
        lib_srcs.append({"name": name, "src": src, "es": es})
    if not first_use:
        libs = [{"name": l["name"], "src": l["src"]} for l in lib_srcs]
    threads = []
    kinds = {}
    # hot start: in some rounds every thread begins with the same first uses of the shared library (first hash of its strings,
    # first call of its functions) right after the start barrier
    hot = None
    if spec and not first_use and rng.random() < 0.4:
        mod, prefix, _, _ = spec[-1]
        lines = ['load("%s", %s)' % (mod, ", ".join('%s%s="%s"' % (prefix, n, n) for n in EXTRA_NAMES))]
        lines += ["d = {k: len(k) for k in [X_long()] + X_keys + X_strs}", "emit(X_typed(X_r2, X_En(\"blue\")) + X_join(1))",
                  "emit(len(d))", "emit([d[k] for k in X_strs + X_keys + [X_long()]])", "emit(X_long() in {X_long(): 2})",
                  "emit([{k: i}[k] for i, k in enumerate(X_keys)])"]
        hot = {"op": "eval", "src": re.sub(r"\bX_", prefix + "x_", "\n".join(lines)) + "\n", "gc": 0}
    for t in range(nthreads):
        ops = []
        avail = list(spec)          # modules this thread can load: shared libs + own live modules
        es_of = {l["name"]: l["es"] for l in lib_srcs}
        own = []                    # (name, exports)
        nown = 0
        if first_use:
            # every thread starts by building the global environments and its own copy of the libraries: all threads hit the
            # lazily initialised statics at the same time in a fresh process
            ops.append({"op": "globals", "kind": rng.choice(["standard", "extended", "harness"]), "adopt": False})
            for l in lib_srcs:
                ops.append({"op": "build", "name": l["name"], "src": l["src"], "gc": 0})
        if hot is not None:
            ops.append(dict(hot))
        for _ in range(nops):
            r = rng.random()
            gc = rng.choice([0, 0, 0, 1, 3, 17])
            if r < 0.30 and avail:
                imp = [s for s in avail if rng.random() < 0.7] or [rng.choice(avail)]
                src, _, st = gen_module(rng, "main.star", imp, rng.choice([5, 8, 12]))
                ops.append({"op": "eval", "src": src, "gc": gc})
            elif r < 0.50 and avail:
                mod, prefix, _, _ = rng.choice(avail)
                ops.append({"op": "eval", "src": extra_use_src(rng, mod, prefix, es_of[mod], rng.randint(2, 8)), "gc": gc})
            elif r < 0.65:
                name = "own%d_%d.star" % (t, nown)
                nown += 1
                imp = [s for s in avail if rng.random() < 0.6]
                es = rng.randint(1, 999)
                src, exports, _ = gen_module(rng, name, imp, rng.choice([5, 8, 12]), extra_seed=es)
                if imp:
                    # keep and re-export values of every imported module: they must stay alive as long as this module does
                    src += "y_keep = [%s]\n" % ", ".join("[%sx_st, %sx_r1, %sx_add, %sx_strs, %sx_nest]" % ((e[1],) * 5) for e in imp)
                    src += ("def y_use(x):\n    return [[k[0].a + x, k[0].b, k[1], k[2](x), k[3][2:4], sorted(k[4][\"d\"].items())] for k in y_keep]\n"
                            "y_used = y_use(%d)\n" % rng.randint(0, 99))
                    exports = dict(exports)
                ops.append({"op": "build", "name": name, "src": src, "gc": gc})
                es_of[name] = es
                ent = (name, "O%d_" % (nown - 1), exports, True)
                avail.append(ent)
                own.append(ent)
            elif r < 0.80 and own:
                ent = own.pop(rng.randrange(len(own)))
                avail.remove(ent)
                sym = rng.choice(EXTRA_FUNCS + ["x_st", "x_r2", "x_nest", "x_big", "y_use", "y_use", "y_use", "y_keep"] + sorted(ent[2])[:3])
                ops.append({"op": "drop", "name": ent[0], "sym": sym, "send": rng.random() < p_send})
            elif avail:
                ent = rng.choice(avail)
                sym = rng.choice(EXTRA_FUNCS + ["x_st", "x_r2", "x_nest", "x_strs", "x_Rec", "x_En", "x_part"] + sorted(ent[2])[:4]
                                 + (["y_use", "y_use", "y_keep"] if ent[0].startswith("own") else []))
                ops.append({"op": "handle", "mod": ent[0], "sym": sym, "send": rng.random() < p_send})
            else:
                ops.append({"op": "globals", "kind": rng.choice(["standard", "extended", "harness"]), "adopt": rng.random() < 0.3})
        for o in ops:
            kinds[o["op"]] = kinds.get(o["op"], 0) + 1
        threads.append({"ops": ops})
    return {"id": rid, "seed": rng.getrandbits(48) | 1, "libs": libs, "threads": threads,
            "seq_first": (not first_use) and rng.random() < 0.5, "share_globals": (not first_use) and rng.random() < 0.6,
            "stack_mb": 16, "jitter_us": rng.choice([20, 100, 400, 1500]), "first_use": first_use,
            "_kinds": kinds, "_gen": stats}


# ---------------------------------------------------------------------------------------------------------------
# "state" rounds: every piece of per-thread / process-wide state the library keeps while it evaluates, used by all threads
# at the same time on the SAME shared frozen values: the recursion-depth guard of equals/compare (values/stack_guard.rs),
# the cycle guards of repr/str/json (values/recursive_repr_or_json_guard.rs), the Starlark call stack, string hashing and
# interning, type-instance ids of record/enum types, the chunk cache.  Depths stay below the single-thread limits
# (200 comparison levels in this build, 50 call frames), so alone every operation succeeds.

STATE_LIB = '''
def z_nl(n, leaf):
    x = [leaf]
    for _ in range(n):
        x = [x]
    return x
def z_nt(n, leaf):
    x = (leaf,)
    for i in range(n):
        x = (x, i)
    return x
def z_nd(n, leaf):
    x = {"k": leaf}
    for _ in range(n):
        x = {"k": x}
    return x
def z_nm(n, leaf):
    x = [leaf]
    for i in range(n):
        x = [x, i] if i %% 3 == 0 else ((i, x) if i %% 3 == 1 else {"m": x, "i": i})
    return x
z_D = %(D)d
z_la = z_nl(z_D, 1)
z_lb = z_nl(z_D, 1)
z_lc = z_nl(z_D, 2)
z_ta = z_nt(z_D, 1)
z_tb = z_nt(z_D, 1)
z_tc = z_nt(z_D, 2)
z_da = z_nd(z_D, 1)
z_db = z_nd(z_D, 1)
z_dc = z_nd(z_D, 2)
z_ma = z_nm(z_D, "%(S)s")
z_mb = z_nm(z_D, "%(S)s")
z_mc = z_nm(z_D, "%(S)s!")
z_cl = [1]
z_cl.append(z_cl)
z_cl2 = [1]
z_cl2.append(z_cl2)
z_cd = {"a": %(A)d}
z_cd["self"] = z_cd
def z_rec(n):
    return 0 if n <= 0 else 1 + z_rec(n - 1)
def z_even(n):
    return True if n == 0 else z_odd(n - 1)
def z_odd(n):
    return False if n == 0 else z_even(n - 1)
def z_eq():
    return z_la == z_lb
def z_walk(x, n):
    return n if type(x) != "list" or n > 40 else z_walk(x[0], n + 1)
z_Rec = record(a=int, b=str)
z_En = enum("x", "y", "z")
z_r = z_Rec(a=%(A)d, b="b%(A)d")
z_strs = ["s%%d_%(S)s" %% i for i in range(40)]
z_st = struct(a=1, b="two", deep=z_la, strs=z_strs)
'''
STATE_NAMES = ["z_nl", "z_nt", "z_nd", "z_nm", "z_D", "z_la", "z_lb", "z_lc", "z_ta", "z_tb", "z_tc", "z_da", "z_db", "z_dc", "z_ma", "z_mb",
               "z_mc", "z_cl", "z_cl2", "z_cd", "z_rec", "z_even", "z_odd", "z_eq", "z_walk", "z_Rec", "z_En", "z_r", "z_strs", "z_st"]

# snippets: `Z_` = the import prefix, `@` = a suffix that makes the snippet's own names unique inside one op, %(N)d a loop count,
# %(P)d a small parameter.  A snippet of STATE_LAST ends in an error (also when run alone) and closes its op.
STATE_SNIPPETS = {
    "compare": [
        "r@ = [Z_la == Z_lb for _ in range(%(N)d)]\nemit([all(r@), len(r@)])\n"
        "emit([Z_la == Z_lc, Z_la != Z_lc, [Z_la] == [Z_lb], {\"k\": Z_la} == {\"k\": Z_lb}, (Z_la, 1) < (Z_lb, 2)])",
        "r@ = [[Z_ta == Z_tb, Z_ta < Z_tc, Z_tc > Z_tb, Z_ta <= Z_tb, Z_la < Z_lc] for _ in range(%(N)d // 3 + 1)]\nemit([r@[0], r@[-1], len(r@)])",
        "emit(len(sorted([Z_lc, Z_la, Z_lb, Z_lc, Z_la] * (%(N)d // 10 + 1))))\nemit(sorted([Z_lc, Z_la])[0] == Z_la)\n"
        "emit([max(Z_la, Z_lc) == Z_lc, min([Z_tc, Z_ta]) == Z_tb])",
        "r@ = [[Z_lc in [Z_la, Z_lb, Z_lc], Z_la in [Z_lc] * 5, [Z_la, Z_lb, Z_lc].index(Z_lc), Z_lb not in [Z_lc, Z_lc]] "
        "for _ in range(%(N)d // 6 + 1)]\nemit(r@[-1])",
        "d@ = {Z_ta: 1, Z_tc: 2}\nemit([d@[Z_tb] for _ in range(%(N)d)][-1])\nemit([Z_tb in d@, {Z_tb: 3}.get(Z_ta), {Z_tc: 3}.get(Z_ta)])",
        "x@ = Z_nl(Z_D, 1)\ny@ = Z_nd(Z_D, 1)\nr@ = [[x@ == Z_la, x@ == Z_lc, y@ == Z_da, Z_da == Z_db, Z_da == Z_dc, Z_ma == Z_mb, Z_ma == Z_mc] "
        "for _ in range(%(N)d // 8 + 1)]\nemit(r@[-1])",
        "emit(len([1 for _ in range(%(N)d) if Z_eq()]))",
        "emit(sorted([Z_nt(Z_D, i %% 3) for i in range(%(P)d %% 7 + 2)]) == "
        "sorted([Z_nt(Z_D, i %% 3) for i in range(%(P)d %% 7 + 2)], reverse = True)[::-1])",
    ],
    "repr": [
        "s@ = [len(repr(Z_ma)) + len(str(Z_da)) for _ in range(%(N)d // 8 + 1)]\nemit([s@[0], s@[-1]])\nemit([len(repr(Z_la)), len(json.encode(Z_ma))])",
        "emit(repr(Z_cl))\nemit(str(Z_cd))\nemit(\"%%s|%%r\" %% (Z_cl, Z_cd))\nemit([repr(Z_cl) + str(Z_cd) for _ in range(%(N)d)][-1])",
        "emit(json.encode(Z_la)[:50])\nemit(json.encode(Z_da)[-50:])\nemit([len(json.encode(Z_ma)) for _ in range(%(N)d // 8 + 1)][-1])",
        "emit(repr(Z_st)[:80])\nemit(len(str(Z_st)))\nemit(repr(Z_r) + repr(Z_Rec) + str(Z_En))",
        "l@ = [Z_la]\nl@.append(l@)\nemit(len(repr(l@)))\nd@ = {\"x\": l@}\nd@[\"d\"] = d@\nemit(len(str(d@)))\nemit(repr(Z_cl2) == repr(Z_cl))",
    ],
    "recursion": [
        "emit([Z_rec(%(P)d %% 16 + 30) for _ in range(%(N)d // 4 + 1)][-1])",
        "def g@(n):\n    return [] if n == 0 else [g@(n - 1)]\nemit(len(repr(g@(40))))\nemit([g@(30) == g@(30) for _ in range(%(N)d // 10 + 1)][-1])",
        "emit([[Z_even(40), Z_odd(41)] for _ in range(%(N)d // 4 + 1)][-1])",
        "emit(Z_walk(Z_la, 0))\nemit(Z_walk(Z_nl(30, 1), 0))",
    ],
    "strings": [
        "d@ = {(\"k%%d\" %% i): i for i in range(300)}\nemit(len(d@))\nemit(d@[\"k7\"] + d@[\"k299\"])\nemit(sorted(d@.keys())[:3])",
        "emit([hash(s) for s in Z_strs][:5])\nemit({s: len(s) for s in Z_strs}[Z_strs[%(P)d %% 40]])\n"
        "emit(len({s: 1 for s in Z_strs + [s + \"\" for s in Z_strs]}))",
        "emit([getattr(Z_st, n) for n in [\"a\", \"b\"]])\nemit(dir(Z_st))\nemit(hasattr(Z_st, \"deep\"))\nemit(\"\".join([s[0] for s in Z_strs]))",
        "emit(struct(**{(\"f%%d\" %% i): i for i in range(30)}).f7)\nemit(\" \".join(Z_strs).split(\" \")[%(P)d %% 40])",
    ],
    "types": [
        "R@ = record(a=int, b=str)\nQ@ = record(a=int, b=str)\nr@ = R@(a=%(P)d, b=\"x\")\n"
        "emit([isinstance(r@, R@), isinstance(r@, Q@), isinstance(Z_r, Z_Rec), isinstance(Z_r, R@), isinstance(r@, Z_Rec)])\n"
        "def f@(v: R@) -> int:\n    return v.a\nemit(f@(r@))",
        "E@ = enum(\"x\", \"y\", \"z\")\nF@ = enum(\"x\", \"y\", \"z\")\n"
        "emit([isinstance(E@(\"x\"), E@), isinstance(Z_En(\"x\"), E@), isinstance(F@(\"y\"), E@), E@(\"x\") == Z_En(\"x\"), E@(\"x\") == E@(\"x\")])\n"
        "emit([e.value for e in E@] + [E@(\"z\").index])",
        "def t@(v: Z_Rec, e: Z_En = Z_En(\"y\")) -> str:\n    return v.b + e.value\nemit([t@(Z_r) for _ in range(%(N)d // 4 + 1)][-1])",
    ],
}
STATE_LAST = {
    "compare": ["emit(Z_cl == Z_cl)\nemit(Z_cl == Z_cl2)"],
    "repr": ["emit(json.encode(Z_cl))"],
    "recursion": ["emit(Z_rec(80))"],
    "strings": [],
    "types": ["W@ = record(a=int, b=str)\ndef h@(v: W@) -> int:\n    return v.a\nemit(h@(Z_r))"],
}
STATE_HANDLES = ["z_la", "z_tc", "z_da", "z_ma", "z_cl", "z_cd", "z_rec", "z_st", "z_r", "z_strs"]


def gen_state_round(rng, rid, nthreads, nops):
    """A round whose workloads use the per-thread state of the library on shared frozen values (see above)."""
    D = rng.randint(50, 150)
    lib = STATE_LIB % {"D": D, "A": rng.randint(1, 999), "S": "".join(rng.choice("abcxyz") for _ in range(rng.randint(1, 8)))}
    cats = sorted(STATE_SNIPPETS)
    focus = rng.choice([None, None, None] + cats)       # some rounds mix everything, the others stress one kind of state
    prefix = "S_"
    load = 'load("lib0.star", %s)\n' % ", ".join('%s%s="%s"' % (prefix, n, n) for n in STATE_NAMES)
    kinds = {}
    threads = []
    for t in range(nthreads):
        ops = []
        for _ in range(nops):
            if rng.random() < 0.1:
                ops.append({"op": "handle", "mod": "lib0.star", "sym": rng.choice(STATE_HANDLES), "send": rng.random() < 0.6})
                kinds["state:handle"] = kinds.get("state:handle", 0) + 1
                continue
            parts = []
            for j in range(rng.randint(1, 4)):
                cat = focus if focus and rng.random() < 0.8 else rng.choice(cats)
                last = j > 0 and STATE_LAST[cat] and rng.random() < 0.12
                sn = rng.choice(STATE_LAST[cat] if last else STATE_SNIPPETS[cat])
                sn = sn % {"N": rng.choice([8, 30, 60, 120]), "P": rng.randint(0, 500)}
                parts.append(sn.replace("@", str(j)))
                kinds["state:" + cat] = kinds.get("state:" + cat, 0) + 1
                if last:
                    break
            src = load + "\n".join(parts) + "\n"
            ops.append({"op": "eval", "src": re.sub(r"\bZ_", prefix + "z_", src), "gc": rng.choice([0, 0, 0, 0, 7])})
        threads.append({"ops": ops})
    return {"id": rid, "seed": rng.getrandbits(48) | 1, "libs": [{"name": "lib0.star", "src": lib}], "threads": threads,
            "seq_first": True, "recheck": True, "share_globals": rng.random() < 0.6, "stack_mb": 16,
            "jitter_us": rng.choice([1, 5, 20, 100]), "first_use": False, "family": "state", "depth": D, "focus": focus or "mixed",
            "_kinds": kinds, "_gen": {}}


# ---------------------------------------------------------------------------------------------------------------
# "binder" rounds (harness: run_fresh_round): first-binder races on frozen values whose identity is lazily named.
# The evaluator calls `export_as(name)` on EVERY top-level assignment, also when the value is a frozen value loaded from
# another module.  Enum types and record types take their name (and with it: repr of their values, `.type`, usability as
# a type annotation, the type names in error messages) from the first `export_as`; once frozen they must ignore it.  The
# library below holds values of every kind that implements `export_as` or carries lazily computed type information
# ANONYMOUSLY (inside lists / tuples / dicts / structs / closures / function results, never bound to a global of the
# library), next to named controls.  "Binder" threads bind them to top-level names of their own modules (every thread
# and op a DIFFERENT name) and build values / annotations / record types from them; "reader" threads only observe.
# The alone transcript of every workload is taken on a FRESH copy of the library (nobody has touched it), the
# concurrent phase runs several times on further fresh copies: all threads racing, binders first, readers first.

BIND_LIB = '''
def _f(x, y = 2):
    return [x, y]
def _mk(tag):
    E = enum("A" + tag, "B")
    R = record(e=int, n=field(int, 3))
    def f(x):
        return E(x)
    def g(x):
        return R(e=x, n=4)
    def t():
        return [E, R]
    return [E, R, f, g, t, lambda: E, lambda: E("B")]
b_types = [enum("RED", "GREEN"), record(a=int, b=field(str, "x%(A)d"))]
b_ns = struct(E=enum("x", "y%(A)d"), R=record(v=int), T=int | str, L=list[int])
b_map = {"e": enum("m%(S)s", "n"), "r": record(w=str, u=field(list, [])), "n": {"deep": (enum("p", "q"), record(d=int))}}
b_tup = (enum("t1", "t2", "t3"), record(z=int))
b_inner = _mk("%(S)s")
b_vals = [b_types[0]("RED"), b_inner[0]("B"), b_ns.E("x"), b_tup[0]("t2"), b_map["e"]("n"), b_map["n"]["deep"][0]("q")]
b_tys = (int | str, list[int], typing.Callable, dict[str, typing.Any], typing.Callable[[int], str], tuple[int, ...], typing.Iterable,
         eval_type(int), None | list[str], typing.Any)
b_fns = [partial(_f, 1), lambda y: [y, b_types[0]("GREEN")], _f, b_inner[2], b_inner[5]]
b_Named = enum("n1", "n2")
b_NamedR = record(q=int, s=field(str, "%(S)s"))
b_alias = [b_Named, b_NamedR, b_Named("n2"), b_NamedR(q=%(A)d)]
'''
BIND_NAMES = ["b_types", "b_ns", "b_map", "b_tup", "b_inner", "b_vals", "b_tys", "b_fns", "b_Named", "b_NamedR", "b_alias"]

# (path expression, a valid element)       `B_` = import prefix
BIND_ENUMS = [('B_types[0]', "RED"), ('B_ns.E', "x"), ('B_map["e"]', "n"), ('B_map["n"]["deep"][0]', "p"), ('B_tup[0]', "t1"),
              ('B_inner[0]', "B"), ('B_inner[4]()[0]', "B"), ('B_inner[5]()', "B"), ('B_alias[0]', "n1")]
# (path expression, valid constructor arguments)
BIND_RECORDS = [('B_types[1]', "a=1"), ('B_ns.R', "v=2"), ('B_map["r"]', 'w="s"'), ('B_map["n"]["deep"][1]', "d=3"), ('B_tup[1]', "z=4"),
                ('B_inner[1]', "e=5"), ('B_inner[4]()[1]', "e=6, n=7"), ('B_alias[1]', "q=8")]
BIND_TYPINGS = ['B_tys[%d]' % i for i in range(10)] + ['B_ns.T', 'B_ns.L']

# observations that never bind (readers, and binders between their bindings). P = path, EL = element / KW = arguments.
# (safe, risky): a risky observation may end in an error (also alone) and then closes its op.
OBS_ENUM = (
    ['emit(repr(P("EL")))', 'emit(str(P))', 'emit(repr(P))', 'emit(P.type)', 'emit([type(P), type(P("EL"))])', 'emit(dir(P))',
     'emit(dir(P("EL")))', 'emit(json.encode(P("EL")))', 'emit([v for v in P])', 'emit(P.values())', 'emit([len(P), P[0], P("EL").index])',
     'emit("%s|%r|%s" % (P, P("EL"), P("EL")))', 'emit({P("EL"): 1})', 'emit([P("EL") == P("EL"), P == P, P("EL") in B_vals])',
     'emit(str(B_vals))', 'emit([repr(v) for v in B_vals] + [v.value for v in B_vals])', 'emit(repr(B_inner[6]()))',
     'emit(repr(B_fns[1](0)))', 'emit(str(struct(t=P, v=P("EL"))))', 'emit(repr(B_alias))'],
    ['emit(isinstance(P("EL"), P))', 'emit(isinstance(1, P))', 'emit(eval_type(P))', 'emit(P("no-such-element"))', 'emit(P(1))',
     'emit(eval_type(P).matches(P("EL")))', 'emit(P("EL") < P("EL"))', 'emit(P("EL").nope)', 'emit(P.nope)', 'emit(record(f=P))',
     'emit(P("EL") + 1)'])
OBS_RECORD = (
    ['emit(repr(P))', 'emit(str(P))', 'emit(P.type)', 'emit(type(P))', 'emit(dir(P))', 'emit("%s|%r" % (P, P))', 'emit(P == P)',
     'emit(str(struct(t=P)))', 'emit(repr(B_alias))', 'emit(repr(B_ns)[:200])', 'emit(repr(B_map))', 'emit(repr(B_tup) + repr(B_types))'],
    ['emit(repr(P(KW)))', 'emit(json.encode(P(KW)))', 'emit(isinstance(1, P))', 'emit(eval_type(P))', 'emit(P(no_such_field=1))', 'emit(P())',
     'emit(dir(P(KW)))', 'emit(P(KW) == P(KW))', 'emit(record(f=P))', 'emit(repr(B_inner[3](1)))', 'emit(P.nope)', 'emit(str(P(KW)))'])
OBS_TYPING = (
    ['emit(repr(P))', 'emit(str(P))', 'emit(type(P))', 'emit("%s|%r" % (P, P))', 'emit(repr(B_tys))', 'emit(P == P)'],
    ['emit([isinstance(1, P), isinstance([1], P), isinstance(None, P), isinstance(B_fns[2], P)])', 'emit(eval_type(P))',
     'emit([eval_type(P).matches(1), eval_type(P).matches("s"), eval_type(P).matches([])])', 'emit(dir(P))', 'emit(record(f=P))',
     'emit(record(f=P)(f=(1, 2)))', 'emit(P.type)', 'emit(P | None)'])
OBS_FUNCS = (
    ['emit(repr(B_fns))', 'emit([str(f) for f in B_fns] + [type(f) for f in B_fns])', 'emit(B_fns[0](5))', 'emit(B_fns[2](1, y=3))',
     'emit(repr(B_fns[3]("B")))', 'emit(repr(B_fns[4]()))', 'emit(repr(B_inner))', 'emit([repr(B_inner[2]("B")), str(B_inner[4]())])'],
    ['emit(B_fns[3]("no-such"))', 'emit(B_fns[0](1, 2, 3))', 'emit(B_inner[3]("s"))', 'emit(B_fns[2]())'])

# bindings: N = the (unique) top-level name
BIND_ENUM = [
    'N = P\nemit(repr(N("EL")))\nemit([str(N), N.type, type(N("EL")), repr(P("EL"))])',
    'N = P\nN_again = N\nemit([repr(N_again("EL")), repr(N), N_again.type])',
    'N, N_other = P, 1\nemit(repr(N("EL")))',
    '[N] = [P]\nemit([repr(N("EL")), N.type])',
    'N_v = P("EL")\nN = P\nemit([repr(N_v), repr(N("EL")), N_v == N("EL")])',
    'N = P\nemit(repr(B_vals))\nemit(repr(N("EL")))',
]
BIND_ENUM_RISKY = [
    'N = P\nemit(N.type)\ndef f_N(x: N):\n    return x\nemit(repr(f_N(N("EL"))))\nemit(f_N(1))',
    'N = P\nemit(N.type)\nR_N = record(e=N, k=field(int, 1))\nemit(repr(R_N(e=N("EL"))))\nemit(R_N(e="EL"))',
    'N = P\nemit(repr(N("EL")))\ndef f_N(x) -> N:\n    return x\nemit(f_N("EL"))',
    'N = P\nemit(isinstance(N("EL"), N))\nemit(eval_type(N).matches(N("EL")))',
    'N = P\nemit(repr(N("EL")))\nemit(N("no-such-element"))',
    'N = P\nN_l = [N]\ndef f_N(x: list[N] | None):\n    return x\nemit(repr(f_N([N("EL")])))\nemit(f_N([1]))',
]
BIND_RECORD = [
    'N = P\nemit([repr(N), str(N), N.type])',
    'N = P\nN_again = N\nemit([repr(N_again), N_again.type, type(N)])',
    '(N, N_other) = (P, 2)\nemit(repr(N))',
]
BIND_RECORD_RISKY = [
    'N = P\nemit(N.type)\nemit(repr(N(KW)))\nemit(json.encode(N(KW)))',
    'N = P\nemit(N.type)\ndef f_N(x: N):\n    return x\nemit(repr(f_N(N(KW))))\nemit(f_N(1))',
    'N = P\nemit(repr(N))\nemit(N(no_such_field=1))',
    'N = P\nemit(repr(N))\nR_N = record(inner=N)\nemit(repr(R_N(inner=N(KW))))\nemit(R_N(inner=1))',
    'N = P\nemit(N.type)\nemit(isinstance(N(KW), N))',
]
BIND_TYPING_RISKY = [
    'N = P\nemit(repr(N))\ndef f_N(x: N):\n    return x\nemit(f_N(1))\nemit(f_N(None))\nemit(f_N([1]))\nemit(f_N(("s", 1.5)))',
    'N = P\nR_N = record(f=N)\nemit(repr(R_N))\nemit(repr(R_N(f=1)))\nemit(R_N(f=(None, None)))',
    'N = P\nemit(repr(N))\ndef f_N(x) -> N:\n    return x\nemit(f_N([1]))\nemit(f_N({"a": "b"}))\nemit(f_N(1.5))',
]
BIND_FUNC = ['N = B_fns[%(I)d]\nemit([repr(N), str(N), type(N)])', 'N = B_inner[%(I)d]\nemit(repr(N))\nemit(repr(B_inner))',
             'N = B_vals[%(I)d]\nemit([repr(N), N.value, N.index, type(N)])']


def bind_sub(sn, path, arg, name=None):
    sn = sn.replace("EL", arg).replace("KW", arg)
    sn = re.sub(r"\bP\b", lambda m: path, sn)
    if name is not None:
        sn = re.sub(r"(?<![A-Za-z0-9])N(?![A-Za-z0-9])", name, sn)
    return sn


def gen_binder_round(rng, rid, nthreads):
    prefix = "B_"
    lib = BIND_LIB % {"A": rng.randint(1, 999), "S": "".join(rng.choice("abcxyz") for _ in range(rng.randint(1, 6)))}
    load = 'load("lib0.star", %s)\n' % ", ".join('%s%s="%s"' % (prefix, n, n) for n in BIND_NAMES)
    # the values this round fights about: a few paths used by (almost) every thread
    kinds = ["enum", "enum", "enum", "record", "record", "typing", "mixed"]
    focus_kind = rng.choice(kinds)
    pools = {"enum": BIND_ENUMS, "record": BIND_RECORDS, "typing": [(p, "") for p in BIND_TYPINGS]}
    focus = []
    for _ in range(rng.randint(1, 3)):
        k = focus_kind if focus_kind != "mixed" else rng.choice(["enum", "record", "typing"])
        focus.append((k,) + rng.choice(pools[k]))
    # roles: at least one binder; readers unless this is an all-binders round (different names racing)
    allbind = rng.random() < 0.25
    roles = ["binder", "reader"] if not allbind else ["binder", "binder"]
    while len(roles) < nthreads:
        roles.append("binder" if allbind or rng.random() < 0.4 else "reader")
    if rng.random() < 0.5:
        roles[0], roles[1] = roles[1], roles[0]
    kcount = {}

    def pick():
        if rng.random() < 0.8:
            return rng.choice(focus)
        k = rng.choice(["enum", "record", "typing"])
        return (k,) + rng.choice(pools[k])

    def observation(risky):
        r = rng.random()
        if r < 0.12:
            return rng.choice(OBS_FUNCS[1 if risky else 0])
        k, path, arg = pick()
        tab = {"enum": OBS_ENUM, "record": OBS_RECORD, "typing": OBS_TYPING}[k]
        return bind_sub(rng.choice(tab[1 if risky else 0]), path, arg)

    threads = []
    for t in range(nthreads):
        ops = []
        for o in range(rng.randint(2, 5)):
            parts = []
            if roles[t] == "binder" and (o == 0 or rng.random() < 0.8):
                k, path, arg = pick()
                name = "%s_t%d_o%d" % (rng.choice(["Mine", "Color", "Kind", "T", "my_type", "Rec"]), t, o)
                risky = rng.random() < 0.6
                if rng.random() < 0.1:
                    sn = rng.choice(BIND_FUNC) % {"I": rng.randint(0, 4)}
                    risky = False
                elif k == "enum":
                    sn = rng.choice(BIND_ENUM_RISKY if risky else BIND_ENUM)
                elif k == "record":
                    sn = rng.choice(BIND_RECORD_RISKY if risky else BIND_RECORD)
                else:
                    sn, risky = rng.choice(BIND_TYPING_RISKY), True
                # observations BEFORE the binding (what the thread reads depends on who bound first), the binding, and - when
                # the binding snippet cannot fail - observations after it
                for _ in range(rng.randint(0, 2)):
                    parts.append(observation(False))
                parts.append(bind_sub(sn, path, arg, name))
                kcount["binder:bind-" + k] = kcount.get("binder:bind-" + k, 0) + 1
                if not risky:
                    for _ in range(rng.randint(0, 2)):
                        parts.append(observation(False))
                    if rng.random() < 0.4:
                        parts.append(observation(True))
            else:
                for _ in range(rng.randint(1, 4)):
                    parts.append(observation(False))
                if rng.random() < 0.6:
                    parts.append(observation(True))
                kcount["binder:observe"] = kcount.get("binder:observe", 0) + len(parts)
            src = load + re.sub(r"\bB_", prefix + "b_", "\n".join(parts)) + "\n"
            ops.append({"op": "eval", "src": src, "gc": rng.choice([0, 0, 0, 1])})
        if rng.random() < 0.3:
            ops.append({"op": "handle", "mod": "lib0.star", "sym": rng.choice(["b_types", "b_vals", "b_ns", "b_alias", "b_fns", "b_tup"]),
                        "send": rng.random() < 0.5})
        threads.append({"ops": ops, "role": roles[t], "group": 0 if roles[t] == "binder" else 1})
    return {"id": rid, "seed": rng.getrandbits(48) | 1, "libs": [{"name": "lib0.star", "src": lib}], "threads": threads,
            "fresh_libs": True, "repeat": 6, "stagger_us": rng.choice([300, 2000, 5000]), "seq_first": rng.random() < 0.5, "recheck": True,
            "share_globals": rng.random() < 0.6, "stack_mb": 16, "jitter_us": rng.choice([1, 20, 200]), "first_use": False,
            "family": "binder", "focus": [f[1] for f in focus], "_kinds": kcount, "_gen": {}}


# ---------------------------------------------------------------------------------------------------------------
# "churn" rounds (harness: run_churn): producers build tiny frozen heaps / modules back to back, consumers on other threads check
# the value against the expected encoding and drop the heap there.

CHURN_STYLES = {
    "tiny-str": ["str"],
    "tiny-mixed": ["str", "tuple", "list", "big", "nested"],
    "sizes": ["str", "strs", "list", "nested", "str", "tuple"],
    "modules": ["module", "owned", "str", "tuple"],
    "all": ["str", "tuple", "list", "big", "nested", "strs", "module", "owned", "eval"],
}


CHURN_COST = {"tiny-str": 0.5, "tiny-mixed": 0.7, "sizes": 1.0, "modules": 1.0, "all": 2.0}    # relative cost of one heap


def gen_churn(rng, rid, iters, max_ms):
    """`iters` = heaps per producer for a style of cost 1 (cheaper styles get proportionally more)."""
    style = rng.choice(sorted(CHURN_STYLES))
    return {"id": rid, "kind": "churn", "seed": rng.getrandbits(48) | 1, "style": style, "shapes": CHURN_STYLES[style],
            "producers": rng.choice([1, 2, 2, 3, 3, 4]), "consumers": rng.choice([1, 2, 3, 3, 4]),
            "iters": int(iters / CHURN_COST[style]), "max_ms": max_ms, "big_first": rng.choice([0, 0, 3000, 60000, 300000, 300000]),
            "chan_cap": rng.choice([1, 2, 2, 8, 64]), "hold": rng.choice([0, 0, 0, 1, 4, 32]), "ev_n": 12,
            "route": rng.choice(["rr", "rr", "rand", "block"]), "limit_s": 120, "threads": []}


def thread_count(rng, hi):
    return min(hi, rng.choice([2, 2, 3, 4, 4, 5, 6, 8, 8, 12, 16]))


def corpus_rounds():
    import importlib.util
    p = os.path.join(sv.ROOT, "corpus", "C20", "cases.py")
    if not os.path.exists(p):
        return []
    spec = importlib.util.spec_from_file_location("c20_corpus", p)
    m = importlib.util.module_from_spec(spec)
    spec.loader.exec_module(m)
    return m.rounds()


# ---------------------------------------------------------------------------------------------------------------
# running and judging


def strip(case):
    return {k: v for k, v in case.items() if not k.startswith("_")}


def run_rounds(ctx, cases, one_per_process=False, timeout=600):
    """Run rounds in child processes.  Returns list of (result|None, rc) aligned with cases."""
    out = [None] * len(cases)
    rcs = [0] * len(cases)
    if not cases:
        return out, rcs
    if one_per_process:
        for b in range(0, len(cases), sv.NPROC):
            part = cases[b:b + sv.NPROC]
            outs = run_each_alone(ctx, part, timeout)
            for j, (rc, r) in enumerate(outs):
                out[b + j], rcs[b + j] = r, rc
        return out, rcs
    shards = max(1, min(sv.NPROC, len(cases)))
    import concurrent.futures
    parts = [list(range(i, len(cases), shards)) for i in range(shards)]
    timeout = max(timeout, 180 + 25 * max(len(p) for p in parts))   # generous: a timeout is reported as a hang

    def one(i):
        return sv.run_harness(ctx, "threads", [strip(cases[j]) for j in parts[i]], "shard%d" % i, timeout)
    with concurrent.futures.ThreadPoolExecutor(max_workers=shards) as ex:
        res = list(ex.map(one, range(shards)))
    for i, (rc, log, rs) in enumerate(res):
        crashed = False
        for j, r in zip(parts[i], rs):
            out[j] = r
            if r is None and rc != 0 and not crashed:
                rcs[j] = rc     # the first round without a result is the one that brought the process down
                crashed = True
    return out, rcs


def run_each_alone(ctx, cases, timeout=600, workers=None):
    """Each case in its own fresh process (parallel).  Returns [(rc, result|None)]."""
    import concurrent.futures
    workers = workers or sv.NPROC

    def one(i):
        rc, log, rs = sv.run_harness(ctx, "threads", [strip(cases[i])], "solo%d" % i, timeout)
        return rc, rs[0]
    with concurrent.futures.ThreadPoolExecutor(max_workers=min(workers, max(1, len(cases)))) as ex:
        return list(ex.map(one, range(len(cases))))


def verdict(case, r, rc):
    """None when the round is fine, else (key, what)."""
    churn = case.get("kind") == "churn"
    nthr = case["producers"] + case["consumers"] if churn else len(case["threads"])
    if r is None:
        if rc in (0, 77):
            return None   # not run (an earlier round of the same process ended it), or skipped by the watchdog as too expensive
        if rc == 78:
            return ("hang:all-threads-idle", "round %s (%d threads): no progress and no CPU use for the watchdog period (deadlock)" % (case["id"], nthr))
        sig = {134: "SIGABRT", 139: "SIGSEGV", 135: "SIGBUS", 132: "SIGILL", 124: "timeout/hang", 137: "SIGKILL",
               -6: "SIGABRT", -11: "SIGSEGV", -7: "SIGBUS", -4: "SIGILL", -9: "SIGKILL", -5: "SIGTRAP", 133: "SIGTRAP"}.get(rc, "rc=%s" % rc)
        return ("crash:%s" % sig, "the process running round %s (%d threads) died with %s" % (case["id"], nthr, sig))
    if "panic" in r:
        msg = re.sub(r"0x[0-9a-f]+|\d+", "_", str(r["panic"]))[:80]
        return ("panic:%s:%s" % (r.get("phase"), msg), "round %s: panic in the %s phase: %s" % (case["id"], r.get("phase"), str(r["panic"])[:300]))
    if "setup_error" in r:
        return None
    if churn:
        if r.get("seq_bad"):
            return ("churn:sequential-differs", "round %s: a tiny frozen heap built, read and dropped on ONE thread does not read as "
                    "specified: %s" % (case["id"], r["seq_bad"][0][:300]))
        if not r.get("equal", False):
            return ("churn:value-corrupted", "round %s (%d producers building tiny frozen heaps back to back, %d consumers reading and dropping "
                    "them on other threads, %s heaps): %s value(s) differ from the expected encoding / lost: %s"
                    % (case["id"], case["producers"], case["consumers"], r.get("ops"), r.get("nbad"), (r.get("bad") or ["?"])[0][:300]))
        return None
    if r.get("xfail"):
        seqonly = all(x.startswith("(sequential)") for x in r["xfail"])
        return ("cross-thread-read-differs" + (":sequential" if seqonly else ""),
                "round %s: a value read again through a module/handle before its drop differs: %s" % (case["id"], r["xfail"][0][:400]))
    if not r.get("equal", False) and case.get("family") == "binder":
        d = r.get("diff") or {}
        th = case["threads"][d.get("thread", 0)]
        op = th["ops"][min(d.get("op", 0), len(th["ops"]) - 1)]
        mode = {0: "all threads racing from the barrier", 1: "binders started first", 2: "readers started first"}.get(d.get("mode"), "?")
        return ("first-binder:transcript-differs:%s" % th.get("role", "?"),
                "round %s (%d threads sharing a freshly frozen library that holds anonymous enum/record types and typing values; roles %s; "
                "values in focus %s): the %s thread %s, op %s, concurrent repetition %s (%s): transcript item %s = %s, but the same workload "
                "run ALONE on a fresh copy of the library gives %s; %s (thread, repetition) transcripts of this round differ. What a thread "
                "observes on a shared frozen value depends on which thread used/bound it first: the value is written after freeze. Source of "
                "the op: %s"
                % (case["id"], nthr, "".join(t.get("role", "?")[0] for t in case["threads"]), case.get("focus"), th.get("role"), d.get("thread"),
                   d.get("op"), d.get("rep"), mode, d.get("item"), d.get("concurrent"), d.get("sequential"), r.get("threads_differing"),
                   json.dumps(op.get("src", op))[-400:])
                + (" | the workloads run alone again AFTER the concurrent phase differ too: %s" % json.dumps(r["rediff"])[:300]
                   if r.get("rediff") else ""))
    if not r.get("equal", False):
        d = r.get("diff") or {}
        op = case["threads"][d.get("thread", 0)]["ops"][d.get("op", 0)]
        return ("transcript-differs:%s" % op.get("op"),
                "round %s (%d threads): thread %s op %s (%s): concurrent transcript item %s = %s, sequential = %s"
                % (case["id"], nthr, d.get("thread"), d.get("op"), op.get("op"), d.get("item"), d.get("concurrent"), d.get("sequential"))
                + (" | the workloads run alone again AFTER the concurrent phase no longer reproduce their first sequential transcript either "
                   "(state left behind): %s" % json.dumps(r["rediff"])[:300] if r.get("rediff") else ""))
    if r.get("rediff"):
        d = r["rediff"]
        op = case["threads"][d.get("thread", 0)]["ops"][d.get("op", 0)]
        return ("sequential-rerun-differs:%s" % op.get("op"),
                "round %s (%d threads): workload %s op %s (%s) run ALONE again after the concurrent phase: transcript item %s = %s, before the "
                "concurrent phase = %s (state left behind by the concurrent phase)"
                % (case["id"], nthr, d.get("thread"), d.get("op"), op.get("op"), d.get("item"), d.get("after"), d.get("before")))
    return None


def rerun_rate(ctx, case, n=RERUNS):
    """Non-deterministic replay: the same round n times, each in a fresh process; returns (k failing, keys)."""
    outs = run_each_alone(ctx, [case] * n)
    keys = []
    for rc, r in outs:
        v = verdict(case, r, rc)
        if v:
            keys.append(v[0])
    return len(keys), keys


def minimise(ctx, case, budget=5):
    """Fewer threads / shorter workloads while the failure still shows in 20 reruns at no less than half the rate."""
    best = case
    if case.get("kind") == "churn":
        k0, _ = rerun_rate(ctx, best)
        return best, k0
    k0, _ = rerun_rate(ctx, best)
    best_rate = k0
    if k0 == 0:
        return best, 0
    steps = 0
    while steps < budget:
        steps += 1
        cands = []
        if len(best["threads"]) > 2:
            c = dict(best)
            ths = best["threads"]
            if best.get("family") == "binder":
                # keep both roles: binders and readers alternately
                bs, rs = [t for t in ths if t.get("role") == "binder"], [t for t in ths if t.get("role") != "binder"]
                ths = [t for pair in zip(bs, rs) for t in pair] + bs[len(rs):] + rs[len(bs):]
            c["threads"] = ths[:max(2, len(ths) // 2)]
            cands.append(c)
        if max(len(t["ops"]) for t in best["threads"]) > 2:
            c = dict(best)
            c["threads"] = [dict(t, ops=t["ops"][:max(2, (len(t["ops"]) + 1) // 2)]) for t in best["threads"]]
            cands.append(c)
        progressed = False
        for c in cands:
            k, _ = rerun_rate(ctx, c)
            if k > 0 and 2 * k >= best_rate:      # smaller, and still failing at a useful rate (a 1/20 replay is of little use)
                best, best_rate, progressed = c, k, True
                break
        if not progressed:
            break
    return best, best_rate


def coq_events(evs):
    out = []
    for e in evs:
        p = e.split()
        out.append("%s %s" % (p[0], " ".join(p[1:])))
    return "[" + "; ".join(out) + "]"


def model_replay(ctx, sample):
    """Replay the recorded heap-level histories on the Coq model. sample: [(case, result)]."""
    files, idx = [], []
    nshard = max(1, min(4, len(sample)))
    for s in range(nshard):
        part = sample[s::nshard]
        text = ("From Coq Require Import List Arith NArith.\nFrom SV Require Import Conc.Model Conc.Cases.\nImport ListNotations.\n")
        for case, r in part:
            text += "Eval vm_compute in (check_trace %s).\n" % coq_events(r["events"])
        files.append(("trace_%d" % s, text))
        idx.append(part)
    bad, n, steps = [], 0, 0
    outs = sv.coq_eval_files(ctx, files, timeout=400)
    for k, ((rc, out), part) in enumerate(zip(outs, idx)):
        vals = sv.coq_values(out) if rc == 0 else []
        if rc != 0 or len(vals) != len(part):
            # coqc killed by the timeout on an overloaded machine: one retry, alone
            (rc, out), = sv.coq_eval_files(ctx, [files[k]], timeout=900)
            vals = sv.coq_values(out) if rc == 0 else []
        if rc != 0 or len(vals) != len(part):
            ctx.log("NOTE the Coq replay of %d recorded histories could not be run (rc=%s): %s" % (len(part), rc, out[-200:]))
            bad.append(("model-run-failed", out[-300:], None))
            continue
        for (case, r), v in zip(part, vals):
            n += 1
            steps += len(r["events"])
            reads = sum(1 for e in r["events"] if e.startswith("Rd "))
            if v[0] != 1 or v[1] != 1 or v[2] != reads or v[3] != 1 or v[4] != 1:
                bad.append(("model:trace-rejected", "round %s: the Coq model does not accept the recorded history: "
                            "[accepted, quiescent, reads, reads live, main = solo, threads, first disabled step] = %s (reads recorded %d)"
                            % (case["id"], v, reads), case))
    return n, steps, bad


def run_with_second_pass(ctx, cases):
    res, rcs = run_rounds(ctx, cases)
    # rounds that were not run because an earlier round ended their process (crash, watchdog): second pass
    again = [i for i in range(len(cases)) if res[i] is None and rcs[i] == 0]
    if again:
        res2, rcs2 = run_rounds(ctx, [cases[i] for i in again])
        for i, r2, c2 in zip(again, res2, rcs2):
            res[i], rcs[i] = r2, c2
    return res, rcs, len(again)


CHURN_WORKERS = 5     # churn rounds run a few at a time (each has up to 8 busy threads)


def evaluate(ctx, cases, first_use_cases, coq_sample=24, do_minimise=True, state_cases=(), churn_cases=(), binder_cases=()):
    state_cases, churn_cases, binder_cases = list(state_cases), list(churn_cases), list(binder_cases)
    # the binder rounds first, each in a fresh process (nothing has named / typed / cached anything yet)
    bouts = run_each_alone(ctx, binder_cases, timeout=300, workers=8)
    ctx.log("ran %d first-binder rounds (anonymous enum/record/typing values of a freshly frozen library bound to per-thread names by some "
            "threads, observed by others; alone transcripts on fresh copies), each in a fresh process" % len(binder_cases))
    res, rcs, nagain = run_with_second_pass(ctx, cases)
    ctx.log("ran %d rounds in %d child processes (%d re-run after their process ended early)" % (len(cases), min(sv.NPROC, max(1, len(cases))), nagain))
    fres, frcs = run_rounds(ctx, first_use_cases, one_per_process=True)
    ctx.log("ran %d first-use rounds, each in a fresh process" % len(first_use_cases))
    # the state rounds in processes of their own (state that stays corrupted must not be blamed on / hidden by other rounds)
    sres, srcs, nagain = run_with_second_pass(ctx, state_cases)
    ctx.log("ran %d per-thread-state rounds (deep comparison / repr / recursion / interning / type ids on shared frozen values; sequential "
            "before and after) (%d re-run)" % (len(state_cases), nagain))
    couts = run_each_alone(ctx, churn_cases, timeout=300, workers=CHURN_WORKERS)
    ctx.log("ran %d churn rounds (tiny frozen heaps built back to back, read and dropped on other threads), each in a fresh process"
            % len(churn_cases))
    allc = (list(zip(cases, res, rcs)) + list(zip(first_use_cases, fres, frcs)) + list(zip(state_cases, sres, srcs))
            + [(c, r, rc) for c, (rc, r) in zip(churn_cases, couts)] + [(c, r, rc) for c, (rc, r) in zip(binder_cases, bouts)])
    failures, st = [], {"rounds": 0, "skipped_setup": 0, "not_run": 0, "threads": {}, "ops": 0, "items": 0, "xdrops": 0,
                        "first_use": 0, "nontrivial": 0, "events": 0, "kinds": {}, "state_rounds": 0, "state_ops": 0, "state_items": 0,
                        "churn_rounds": 0, "churn_heaps": 0, "churn_styles": {},
                        "binder_rounds": 0, "binder_ops": 0, "binder_items": 0, "binder_reps": 0}
    seen = {}
    good = []
    for case, r, rc in allc:
        v = verdict(case, r, rc)
        if v is not None and v[0] == "crash:timeout/hang":
            # overload or a real deadlock?  the round again, alone, with a long timeout
            (rc2, r2), = run_each_alone(ctx, [case], timeout=900)
            st["timeouts_rerun"] = st.get("timeouts_rerun", 0) + 1
            r, rc = r2, rc2
            v = verdict(case, r, rc)
        if r is None and v is None:
            st["slow_skipped" if rc == 77 else "not_run"] = st.get("slow_skipped" if rc == 77 else "not_run", 0) + 1
            continue
        if r is not None and "setup_error" in r:
            st["skipped_setup"] += 1
            st.setdefault("setup_errors", []).append(str(r["setup_error"])[:200])
            continue
        st["rounds"] += 1
        churn = case.get("kind") == "churn"
        n = case["producers"] + case["consumers"] if churn else len(case["threads"])
        st["threads"][n] = st["threads"].get(n, 0) + 1
        for k, c in case.get("_kinds", {}).items():
            st["kinds"][k] = st["kinds"].get(k, 0) + c
        if case.get("first_use"):
            st["first_use"] += 1
        if r is not None and "ops" in r:
            st["ops"] += r["ops"]
            st["items"] += r.get("items", 0)
            st["xdrops"] += r.get("xdrops", 0)
            st["events"] += len(r.get("events", []))
            if churn:
                st["churn_rounds"] += 1
                st["churn_heaps"] += r["ops"]
                st["churn_styles"][case["style"]] = st["churn_styles"].get(case["style"], 0) + 1
                if n >= 3 and r["ops"] >= 10000:
                    st["nontrivial"] += 1
            elif case.get("family") == "binder":
                st["binder_rounds"] += 1
                st["binder_ops"] += r["ops"]
                st["binder_items"] += r.get("items", 0)
                st["binder_reps"] += r.get("reps", 0)
                roles = set(t.get("role") for t in case["threads"])
                if n >= 3 and len(roles) == 2:
                    st["nontrivial"] += 1
            elif case.get("family") == "state":
                st["state_rounds"] += 1
                st["state_ops"] += r["ops"]
                st["state_items"] += r.get("items", 0)
                if n >= 4:
                    st["nontrivial"] += 1
            elif n >= 4 and case["libs"] and r.get("xdrops", 0) >= 1:
                st["nontrivial"] += 1
            if v is None:
                good.append((case, r))
        if v is not None:
            key, what = v
            if key in seen:
                seen[key]["occ"] += 1
                continue
            rep = {"round": strip(case), "result": r, "rc": rc, "nondeterministic": True}
            f = {"key": key, "what": what, "replay": rep, "occ": 1}
            seen[key] = f
            failures.append(f)
    # non-deterministic replay + minimisation of the first failing round of each key
    for i, f in enumerate(failures):
        case = f["replay"]["round"]
        if i >= 4:
            # many different symptoms of (most likely) one cause: the first ones are minimised/rerun, the rest only listed
            f["replay"]["rerun_failures"] = "not rerun"
            continue
        if do_minimise and i < 2:
            small, k = minimise(ctx, case, budget=4)
        else:
            small = case
            k, _ = rerun_rate(ctx, case)
        f["replay"]["round"] = small
        f["replay"]["rerun_failures"] = "%d/%d" % (k, RERUNS)
        if small.get("kind") == "churn":
            f["what"] += " | non-deterministic replay: %d/%d reruns of the round fail; %d round(s) with this key" % (k, RERUNS, f["occ"])
        else:
            f["what"] += " | non-deterministic replay: %d/%d reruns of the (minimised: %d threads, <= %d ops) round fail; %d round(s) with this key" % (
                k, RERUNS, len(small["threads"]), max(len(t["ops"]) for t in small["threads"]), f["occ"])
    # the recorded histories against the Coq model
    pick = [g for g in good if g[1].get("events") and g[0].get("kind") != "churn"]
    ctx.rng.shuffle(pick)
    pick.sort(key=lambda g: -len(g[0]["threads"]))
    cpick = [g for g in good if g[1].get("events") and g[0].get("kind") == "churn"]
    ctx.rng.shuffle(cpick)
    cpick = cpick[:max(1, coq_sample // 3)]     # the recorded prefix of some churn rounds as well
    pick = pick[:max(0, coq_sample - len(cpick))] + cpick
    st["coq_churn_traces"] = len(cpick)
    n, steps, bad = model_replay(ctx, pick) if pick else (0, 0, [])
    st["coq_traces"], st["coq_steps"] = n, steps
    st["coq_not_run"] = sum(1 for key, _, _ in bad if key == "model-run-failed")
    for key, what, case in bad:
        if key == "model-run-failed":
            continue    # infrastructure (reported through `broken` when nothing at all could be replayed)
        failures.append({"key": key, "what": what, "replay": {"round": strip(case) if case else None}})
    return failures, st


def split_families(cases):
    """(ordinary rounds, state rounds, churn rounds, binder rounds) of a list of rounds (the corpus has all four)."""
    return ([c for c in cases if c.get("kind") != "churn" and c.get("family") not in ("state", "binder")],
            [c for c in cases if c.get("family") == "state"], [c for c in cases if c.get("kind") == "churn"],
            [c for c in cases if c.get("family") == "binder"])


def make_binders(ctx, n):
    rng = ctx.rng
    return [gen_binder_round(rng, "b%d" % i, rng.choice([2, 2, 3, 4, 4, 5, 6, 8, 8])) for i in range(n)]


def make_extra(ctx, nstate, nchurn, churn_iters, churn_ms, max_threads):
    rng = ctx.rng
    state = [gen_state_round(rng, "s%d" % i, min(max_threads, rng.choice([2, 4, 4, 8, 8, 8, 12])), rng.randint(8, 14)) for i in range(nstate)]
    churn = [gen_churn(rng, "k%d" % i, churn_iters, churn_ms) for i in range(nchurn)]
    return state, churn


def make_cases(ctx, nrounds, nfirst, max_threads, nops):
    rng = ctx.rng
    cases = []
    for c in corpus_rounds():
        c = dict(c)
        c.setdefault("_kinds", {})
        cases.append(c)
    corpus_ids = [c["id"] for c in cases]
    first = [c for c in cases if c.get("first_use")]
    cases = [c for c in cases if not c.get("first_use")]
    for i in range(nrounds):
        cases.append(gen_round(rng, "r%d" % i, thread_count(rng, max_threads), rng.randint(max(3, nops // 2), nops)))
    for i in range(nfirst):
        first.append(gen_round(rng, "f%d" % i, rng.choice([4, 8, 8, 12, 16]), rng.randint(3, 6), first_use=True))
    return cases, first, corpus_ids


def correspond(ctx):
    cases, first, corpus_ids = make_cases(ctx, ctx.n(160, 3000), ctx.n(16, 320), ctx.n(8, 16), ctx.n(8, 16))
    state, churn = make_extra(ctx, ctx.n(24, 400), ctx.n(12, 80), ctx.n(150000, 600000), ctx.n(8000, 30000), ctx.n(12, 16))
    cases, state0, churn0, binder0 = split_families(cases)
    state, churn = state0 + state, churn0 + churn
    binders = binder0 + make_binders(ctx, ctx.n(40, 600))
    ctx.log("generated %d rounds + %d first-use rounds (fresh process each) + %d per-thread-state rounds + %d churn rounds + %d "
            "first-binder rounds" % (len(cases), len(first), len(state), len(churn), len(binders)))
    failures, st = evaluate(ctx, cases, first, coq_sample=ctx.n(6, 96), state_cases=state, churn_cases=churn, binder_cases=binders)
    ctx.log("rounds=%d threads/round=%s ops=%d transcript items=%d cross-thread drops=%d first-use races=%d nontrivial=%d "
            "skipped(setup)=%d too-expensive=%d not-run=%d coq traces=%d (%d steps, %d churn prefixes) failures=%d | state rounds=%d (ops=%d "
            "items=%d) | churn rounds=%d heaps built+checked+dropped elsewhere=%d styles=%s | first-binder rounds=%d (concurrent "
            "repetitions=%d ops=%d items=%d)"
            % (st["rounds"], dict(sorted(st["threads"].items())), st["ops"], st["items"], st["xdrops"], st["first_use"], st["nontrivial"],
               st["skipped_setup"], st.get("slow_skipped", 0), st["not_run"], st["coq_traces"], st["coq_steps"], st.get("coq_churn_traces", 0),
               len(failures), st["state_rounds"], st["state_ops"], st["state_items"], st["churn_rounds"], st["churn_heaps"], st["churn_styles"],
               st["binder_rounds"], st["binder_reps"], st["binder_ops"], st["binder_items"]))
    broken = []
    total = len(cases) + len(first) + len(state) + len(churn) + len(binders)
    if st["skipped_setup"] > total // 4 or st["rounds"] < total // 2:
        broken.append(("stress-harness", "only %d of %d rounds ran (%d setup errors: %s)" % (st["rounds"], total, st["skipped_setup"],
                                                                                           st.get("setup_errors", [])[:2])))
    if st["coq_traces"] == 0 and not failures:
        broken.append(("model-tie", "no recorded history could be replayed on the Coq model (%d coqc runs failed)" % st.get("coq_not_run", 0)))
    sample = strip(cases[len(cases) // 2])
    cov = {
        "evaluations": st["ops"] * 2,
        "distinct_nontrivial": st["nontrivial"],
        "rule": "rounds of generated per-thread workloads (tools/gen/progs.py programs importing shared frozen modules + struct/record/enum/"
                "big-int/closure/string uses + build/freeze/drop of own modules + owned handles), each workload run concurrently and alone; "
                "+ per-thread-state rounds (deep nested ==/</sorted/in/dict keys, repr/str/json of deep and self-referential values, Starlark "
                "recursion near the call-stack limit, interning/hash caches, record/enum type ids; sequential before AND after the concurrent "
                "phase) + churn rounds (producers build tiny frozen heaps/modules back to back, consumers on other threads compare the value "
                "with the expected encoding and drop it); evaluations = operations executed (concurrent + sequential; one churn heap = one "
                "operation) + first-binder rounds (a freshly frozen library holding enum types, record types, typing values, closures "
                "anonymously in containers; binder threads assign them to top-level names of their own - each a different name - and build "
                "values/annotations from them, reader threads observe repr/str/.type/type()/dir/json/isinstance/eval_type/error messages; "
                "every workload alone on a FRESH copy of the library vs 6 concurrent repetitions on further fresh copies: racing, binders "
                "first, readers first); non-trivial = rounds with >= 4 threads that share >= 1 frozen module and perform >= 1 cross-thread "
                "drop, state rounds with >= 4 threads, churn rounds with >= 3 threads and >= 10000 heaps, first-binder rounds with >= 3 "
                "threads and both roles",
        "rounds": st["rounds"],
        "threads_per_round": {str(k): v for k, v in sorted(st["threads"].items())},
        "ops_per_workload_mean": round(st["ops"] / max(1, sum(k * v for k, v in st["threads"].items())), 2),
        "transcript_items_compared": st["items"],
        "cross_thread_drops": st["xdrops"],
        "state_rounds": st["state_rounds"],
        "state_ops": st["state_ops"],
        "state_transcript_items": st["state_items"],
        "first_binder_rounds": st["binder_rounds"],
        "first_binder_concurrent_repetitions": st["binder_reps"],
        "first_binder_ops": st["binder_ops"],
        "first_binder_transcript_items": st["binder_items"],
        "churn_rounds": st["churn_rounds"],
        "churn_heaps_built_checked_dropped_on_other_threads": st["churn_heaps"],
        "churn_styles": st["churn_styles"],
        "churn_prefixes_replayed_on_model": st.get("coq_churn_traces", 0),
        "first_use_races_exercised": st["first_use"],
        "rounds_skipped_setup_error": st["skipped_setup"],
        "rounds_not_run_after_crash": st["not_run"],
        "rounds_skipped_too_expensive": st.get("slow_skipped", 0),
        "traces_validated_against_impl": st["coq_traces"],
        "model_steps_replayed": st["coq_steps"],
        "heap_events_recorded": st["events"],
        "input_distribution": st["kinds"],
        "failing_seeds": [{"key": f["key"], "rerun_failures": f["replay"].get("rerun_failures")} for f in failures],
        "nondeterministic": True,
        "exhaustive": False,
        "corpus": corpus_ids,
        "samples": [{"id": sample["id"], "threads": len(sample["threads"]), "libs": [l["name"] for l in sample["libs"]],
                     "first_ops": sample["threads"][0]["ops"][:2]}],
    }
    return {"coverage": cov, "failures": failures, "broken": broken}


def search(ctx, broken):
    """A proof obligation or the tie broke: more rounds, more threads."""
    old = ctx.tier
    ctx.tier = "thorough"
    try:
        cases, first, _ = make_cases(ctx, 600, 64, 16, 14)
        state, churn = make_extra(ctx, 120, 40, 400000, 20000, 16)
        cases, state0, churn0, binder0 = split_families(cases)
        state, churn = state0 + state, churn0 + churn
        binders = binder0 + make_binders(ctx, 200)
    finally:
        ctx.tier = old
    failures, st = evaluate(ctx, cases, first, coq_sample=8, state_cases=state, churn_cases=churn, binder_cases=binders)
    return {"failures": failures, "coverage": {"evaluations": st["ops"] * 2, "rounds": st["rounds"]}}


def replay(ctx, rep):
    r = rep.get("replay", {})
    case = r.get("round")
    if not case:
        return {"coverage": {}, "failures": []}
    outs = run_each_alone(ctx, [case] * RERUNS)
    failures, k = [], 0
    for rc, res in outs:
        v = verdict(case, res, rc)
        if v:
            k += 1
            if not failures:
                failures.append({"key": v[0], "what": v[1], "replay": {"round": case, "result": res, "rc": rc, "nondeterministic": True}})
    for f in failures:
        f["what"] += " | non-deterministic replay: %d/%d reruns fail" % (k, RERUNS)
        f["replay"]["rerun_failures"] = "%d/%d" % (k, RERUNS)
    return {"coverage": {"evaluations": RERUNS, "distinct_nontrivial": 1, "rerun_failures": "%d/%d" % (k, RERUNS), "samples": [case.get("id")]},
            "failures": failures}


META = {
    "category": "proof",
    "level_text": "PARTIAL (the weakest tie of the twenty). Proved in Coq for ALL schedules (arbitrary lists of (thread, operation), by invariant "
                  "over the step relation, unbounded): on the interleaving model of the sharing protocols the reference count of a chunk / "
                  "frozen heap equals the number of its holders across threads, caches and channels; a chunk is freed only in a state "
                  "without holder and every read by a holder hits live memory; nothing leaks at quiescence; all observers of a once-cell see "
                  "the same value under every interleaving of racing initialisers; no step writes frozen memory, frozen reads commute with "
                  "every step and private steps of different threads commute; every thread's observations in any concurrent run equal those "
                  "of its own operations run alone; a lazily filled once-cell is unobservable (per-thread observations = alone, every schedule) "
                  "when its candidate value does not depend on the initialising thread, and observable (a two-thread schedule, for every "
                  "state with the cell empty) as soon as two threads would compute different candidates - the condition a frozen enum/record "
                  "type named after the variable of the first loading thread that binds it would violate. Examples show that a drop without matching holder breaks the invariant, and that the ATOMICITY of "
                  "the decrement is load-bearing: a decrement split into load and store is the atomic drop when the halves are adjacent "
                  "(theorem, all states), but one clone by another thread between them breaks count = holders and a later drop frees the "
                  "chunk under a live holder. "
                  "What is NOT proved: that the Rust code implements these protocols, and anything the Rust/hardware memory model adds to "
                  "interleaving semantics (atomics orderings, torn reads, data races), nor the OS scheduler. For the real code the property "
                  "is only SEARCHED: generated workloads on 2..16 threads sharing frozen modules (loads, calls, reads, hashing, repr/json, "
                  "build/freeze/drop of own modules, handles and modules dropped on other threads, first-use races on lazily initialised "
                  "globals in fresh processes; deep nested comparison / repr / json / recursion / interning / type-id workloads on shared frozen "
                  "values with the sequential run before and after; first-binder races on anonymous enum/record/typing values of a freshly frozen "
                  "library - binders assign them to per-thread top-level names, readers observe repr/.type/isinstance/error messages, every "
                  "workload alone on a fresh copy of the library vs 6 concurrent repetitions on further fresh copies; producer/consumer churn of tiny frozen heaps that share chunks, each value "
                  "compared with its expected encoding), arena poisoning on, each thread's transcript compared with the same workload run alone; the "
                  "recorded heap-level histories of a sample of rounds are replayed on the Coq model. Absence of a failure in this search is "
                  "not evidence of absence.",
    "level_note": "Trusted: Coq kernel; Conc/Model.v as a faithful abstraction of chunk.rs/per_thread.rs/heap_type.rs/def.rs/globals.rs/methods.rs "
                  "(hand-written, not extracted); Arc/atomics/OnceLock/thread_local modelled as atomic steps; harness bin threads + hook "
                  "set_poison; the generator. Cannot exhibit: data races, atomics orderings, torn reads, allocator behaviour. The replay of a "
                  "failing seed is non-deterministic and reported with its observed rate (k/20).",
    "technique": "Coq invariant proofs over an interleaving small-step model (all schedules) + multi-threaded differential stress in child "
                 "processes (concurrent vs sequential transcripts, poisoning) + replay of recorded histories on the model",
    "design_ref": "DESIGN.md section 4 C20, section 6",
}
